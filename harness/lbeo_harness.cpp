// C09 conformance harness: latch, barrier, event and call_once used by pika tasks and plain OS
// threads (more participants than workers included); histories validated against
// spec/LbeoAbs.tla (via LbeoTrace.tla).
//
// usage: lbeo_harness <trace.ndjson> <seed> <nhist> <perturb 0|1> [pika options]
#include <pika/barrier.hpp>
#include <pika/execution.hpp>
#include <pika/init.hpp>
#include <pika/latch.hpp>
#include <pika/synchronization/event.hpp>
#include <pika/synchronization/once.hpp>
#include <pika/thread.hpp>

#include "vactor.hpp"
#include "vlog.hpp"

#include <atomic>
#include <chrono>
#include <functional>
#include <memory>
#include <stdexcept>
#include <thread>
#include <vector>

namespace ex = pika::execution::experimental;
using vlog::ev;
using clk = std::chrono::steady_clock;

static void call(int a, char const* op, long n) { ev("call").i("a", a).s("op", op).i("n", n).done(); }
static void ret(int a, long r) { ev("ret").i("a", a).i("res", r).done(); }

struct completion_fn
{
    void operator()() const noexcept { ev("completion").i("a", vact::get()).done(); }
};

struct step
{
    int kind;    // see switch below
    long n;
    int yields;
};

int main(int argc, char** argv)
{
    if (argc < 5) return 2;
    vlog::init(argv[1]);
    std::uint64_t seed = std::strtoull(argv[2], nullptr, 10);
    int nhist = std::atoi(argv[3]);
    int perturb = std::atoi(argv[4]);
    vlog::start_watchdog(170000);
    if (perturb) vctl::install(seed, 30, 100, 250, "cv.,latch.,bar.,agent.yield,sl.run.end,sts.,sas.");
    std::vector<char*> av;
    av.push_back(argv[0]);
    for (int i = 5; i < argc; ++i) av.push_back(argv[i]);
    int ac = (int) av.size();
    pika::start(ac, av.data());
    vlog::rng R(seed * 1103515245 + 12345);

    for (int hi = 0; hi < nhist; ++hi)
    {
        int type = (int) R.below(4);    // 0 latch 1 barrier 2 event 3 once
        int nact = 2 + (int) R.below(5);
        std::vector<std::vector<step>> scripts(nact + 1);
        std::vector<bool> on_pika(nact + 1, true);
        for (int a = 1; a <= nact; ++a) on_pika[a] = !R.chance(1, 4);
        long l0 = 0, e0 = 0;
        std::unique_ptr<pika::latch> lat;
        std::unique_ptr<pika::barrier<completion_fn>> bar;
        pika::experimental::event evt;
        pika::once_flag once;
        std::atomic<int> once_attempts{0};
        int once_throws = 0;

        if (type == 0)
        {
            l0 = 1 + (long) R.below(6);
            bool storm = R.chance(1, 2);
            if (storm)
            {
                // everybody arrives at (nearly) the same time with arrive_and_wait
                nact = 3 + (int) R.below(4);
                scripts.assign(nact + 1, {});
                on_pika.assign(nact + 1, true);
                l0 = nact;
                for (int a = 1; a <= nact; ++a) scripts[a].push_back({1, 1, 0});
            }
            long left = storm ? 0 : l0;
            // distribute the l0 decrements; everybody may also wait / try_wait
            while (left > 0)
            {
                int a = 1 + (int) R.below(nact);
                long n = 1 + (long) R.below((unsigned) std::min<long>(left, 2));
                if (R.chance(1, 2) && n == 1) scripts[a].push_back({1, 1, (int) R.below(3)});    // arrive_and_wait
                else scripts[a].push_back({0, n, (int) R.below(3)});                             // count_down
                left -= n;
                // arrive_and_wait blocks: it must be the last step of that actor
                if (scripts[a].back().kind == 1) scripts[a].back().kind = 1;
            }
            for (int a = 1; a <= nact && !storm; ++a)
            {
                // an actor never decrements after it blocked: move blocking steps to the end
                std::stable_sort(scripts[a].begin(), scripts[a].end(),
                    [](step const& x, step const& y) { return x.kind < y.kind; });
                // only the last arrive_and_wait may block; turn earlier ones into count_down
                for (std::size_t i = 0; i + 1 < scripts[a].size(); ++i)
                    if (scripts[a][i].kind == 1) scripts[a][i].kind = 0;
                if (R.chance(1, 3)) scripts[a].insert(scripts[a].begin(), step{3, 0, 0});    // try_wait
                if (scripts[a].empty() || scripts[a].back().kind != 1)
                    if (R.chance(2, 3)) scripts[a].push_back({2, 0, (int) R.below(3)});      // wait
            }
            lat = std::make_unique<pika::latch>(l0);
        }
        else if (type == 1)
        {
            e0 = nact;
            int phases = 1 + (int) R.below(3);
            // phase loop: many phases back to back without pauses (arrivals of several participants collide
            // on the same node of the arrival tree)
            bool tight = nact >= 3 && R.chance(1, 2);
            if (tight) phases = 12 + (int) R.below(14);
            std::vector<bool> dropped(nact + 1, false);
            for (int p = 0; p < phases; ++p)
                for (int a = 1; a <= nact; ++a)
                {
                    if (dropped[a]) continue;
                    if (tight)
                    {
                        scripts[a].push_back({10, p + 1, 0});    // n = phase number: pairs of actors align their arrivals
                        continue;
                    }
                    int r = (int) R.below(6);
                    if (r == 0 && p + 1 < phases)
                    {
                        scripts[a].push_back({12, 0, (int) R.below(3)});    // arrive_and_drop
                        dropped[a] = true;
                    }
                    else if (r <= 2) scripts[a].push_back({11, 0, (int) R.below(3)});    // arrive; wait(token)
                    else scripts[a].push_back({10, 0, (int) R.below(3)});                // arrive_and_wait
                }
            bar = std::make_unique<pika::barrier<completion_fn>>(e0, completion_fn{});
        }
        else if (type == 2)
        {
            int setter = 1 + (int) R.below(nact);
            for (int a = 1; a <= nact; ++a)
            {
                if (R.chance(1, 3)) scripts[a].push_back({22, 0, 0});                     // occurred
                if (a == setter) scripts[a].push_back({20, 0, (int) R.below(4)});         // set
                else scripts[a].push_back({21, 0, (int) R.below(3)});                     // wait
                if (R.chance(1, 3)) scripts[a].push_back({21, 0, 0});                     // wait again (future waiter)
            }
        }
        else
        {
            once_throws = (int) R.below(3);
            for (int a = 1; a <= nact; ++a)
            {
                scripts[a].push_back({30, 0, (int) R.below(3)});
                if (R.chance(1, 3)) scripts[a].push_back({30, 0, 0});
            }
        }
        ev("init").i("l0", l0).i("e0", e0).i("type", type).done();

        std::atomic<int> finished{0}, go{0};
        std::atomic<long long> progress{0};
        std::vector<std::atomic<int>> pairgate(4 * 32);
        for (auto& g : pairgate) g = 0;
        std::vector<std::thread> os_threads;
        for (int a = 1; a <= nact; ++a)
        {
            auto body = [&, a] {
                vact::set(a);
                while (!go.load())
                {
                    if (on_pika[a]) pika::this_thread::yield();
                }
                for (auto const& s : scripts[a])
                {
                    for (int y = 0; y < s.yields; ++y)
                    {
                        if (on_pika[a]) pika::this_thread::yield();
                        else std::this_thread::yield();
                    }
                    switch (s.kind)
                    {
                    case 0:
                        call(a, "count_down", s.n);
                        lat->count_down(s.n);
                        ret(a, 1);
                        break;
                    case 1:
                        call(a, "arrive_and_wait", 1);
                        lat->arrive_and_wait();
                        ret(a, 1);
                        break;
                    case 2:
                        call(a, "lwait", 0);
                        lat->wait();
                        ret(a, 1);
                        break;
                    case 3:
                        call(a, "try_wait", 0);
                        ret(a, lat->try_wait() ? 1 : 0);
                        break;
                    case 10:
                        call(a, "b_arrive_and_wait", 0);
                        if (s.n > 0)
                        {
                            // tight loops: actors 2k-1 and 2k try (for a bounded time) to arrive at the same
                            // instant; the other actors are not aligned, so this is not a barrier of its own
                            int partner = ((a - 1) ^ 1) + 1;
                            if (partner <= nact)
                            {
                                auto& g = pairgate[((a - 1) / 2) * 32 + (s.n % 32)];
                                g.fetch_add(1, std::memory_order_relaxed);
                                for (int spin = 0; spin < 30000 && g.load(std::memory_order_relaxed) < 2; ++spin) {}
                            }
                        }
                        bar->arrive_and_wait();
                        ret(a, 1);
                        break;
                    case 11:
                    {
                        call(a, "b_arrive", 0);
                        auto tok = bar->arrive();
                        long t = (long) tok / 2;
                        ret(a, t);
                        if (on_pika[a]) pika::this_thread::yield();
                        call(a, "b_wait", t);
                        bar->wait(std::move(tok));
                        ret(a, 1);
                        break;
                    }
                    case 12:
                        call(a, "b_arrive_and_drop", 0);
                        bar->arrive_and_drop();
                        ret(a, 1);
                        break;
                    case 20:
                        call(a, "ev_set", 0);
                        evt.set();
                        ret(a, 1);
                        break;
                    case 21:
                        call(a, "ev_wait", 0);
                        evt.wait();
                        ret(a, 1);
                        break;
                    case 22:
                        call(a, "ev_occurred", 0);
                        ret(a, evt.occurred() ? 1 : 0);
                        break;
                    case 30:
                    {
                        call(a, "call_once", 0);
                        long r = 1;
                        try
                        {
                            pika::call_once(once, [&] {
                                int me = vact::get();
                                ev("once_begin").i("a", me).done();
                                int att = once_attempts.fetch_add(1);
                                for (int s2 = 0; s2 < 200; ++s2) asm volatile("" ::: "memory");
                                if (on_pika[a] && (att & 1)) pika::this_thread::yield();
                                bool threw = att < once_throws;
                                ev("once_end").i("a", me).i("threw", threw).done();
                                if (threw) throw std::runtime_error("once body");
                            });
                        }
                        catch (std::runtime_error const&)
                        {
                            r = -1;
                        }
                        ret(a, r);
                        break;
                    }
                    }
                    ++progress;
                }
                ++finished;
            };
            if (on_pika[a]) ex::execute(ex::thread_pool_scheduler{}, body);
            else os_threads.emplace_back(body);
        }
        go = 1;
        long long last = -1;
        auto last_change = clk::now();
        while (finished.load() < nact)
        {
            std::this_thread::sleep_for(std::chrono::microseconds(300));
            long long p = progress.load();
            if (p != last)
            {
                last = p;
                last_change = clk::now();
            }
            else if (clk::now() - last_change > std::chrono::seconds(12))
            {
                ev("quiescent").done();
                vlog::flush();
                vlog::hang_pause();
                _exit(0);
            }
        }
        for (auto& t : os_threads) t.join();
        ev("reset").done();
    }
    pika::finalize();
    pika::stop();
    vlog::flush();
    return 0;
}
