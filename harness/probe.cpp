// C15 / C16 probe: starts the runtime with exactly the argv / environment it is given and reports,
// from the live runtime, what is actually in effect (one JSON object on stdout, prefixed "PROBE "):
// worker count, scheduler of the default pool, per worker: pool, PU number pika reports, the
// affinity mask pika computed, the mask the OS reports for that thread; stack size of a default
// task; selected configuration entries; the arguments the entry function received; exit status.
#include <pika/execution.hpp>
#include <pika/init.hpp>
#include <pika/modules/resource_partitioner.hpp>
#include <pika/modules/thread_manager.hpp>
#include <pika/runtime/runtime.hpp>
#include <pika/runtime/runtime_fwd.hpp>
#include <pika/thread.hpp>
#include <pika/topology/topology.hpp>

#include <pthread.h>
#include <sched.h>

#include <cstdio>
#include <cstdlib>
#include <sstream>
#include <string>
#include <vector>

static std::string esc(std::string const& s)
{
    std::string o;
    for (char c : s)
    {
        if (c == '"' || c == '\\') o += '\\';
        if (c == '\n') { o += "\\n"; continue; }
        o += c;
    }
    return o;
}

static std::vector<std::string> g_keys;
static int g_second = 0;    // workers of a second pool ("--probe-second=k")
static std::vector<std::string> g_cfg;    // entries for init_params::cfg ("--probe-cfg=key=value")
static std::string g_out;

int pika_main(int argc, char** argv)
{
    std::ostringstream o;
    auto& rt = pika::detail::get_runtime();
    auto& rp = pika::resource::get_partitioner();
    auto& tm = rt.get_thread_manager();
    auto& top = pika::threads::detail::get_topology();
    std::size_t n = pika::get_num_worker_threads();
    o << "{\"nworkers\":" << n;
    o << ",\"npus\":" << top.get_number_of_pus();
    o << ",\"scheduler\":\"" << esc(tm.default_pool().get_scheduler()->get_description()) << "\"";
    o << ",\"workers\":[";
    for (std::size_t i = 0; i < n; ++i)
    {
        auto mask = rp.get_pu_mask(i);
        std::vector<int> bits;
        for (std::size_t b = 0; b < top.get_number_of_pus() && b < 64; ++b)
            if (pika::threads::detail::test(mask, b)) bits.push_back((int) b);
        std::thread& th = tm.get_os_thread_handle(i);
        cpu_set_t cs;
        CPU_ZERO(&cs);
        std::vector<int> os;
        if (pthread_getaffinity_np(th.native_handle(), sizeof(cs), &cs) == 0)
            for (int b = 0; b < 64; ++b)
                if (CPU_ISSET(b, &cs)) os.push_back(b);
        if (i) o << ",";
        o << "{\"i\":" << i << ",\"pool\":\"" << esc(tm.get_pool(i).get_pool_name()) << "\",\"pu\":"
          << rp.get_pu_num(i) << ",\"mask\":[";
        for (std::size_t k = 0; k < bits.size(); ++k) o << (k ? "," : "") << bits[k];
        o << "],\"os\":[";
        for (std::size_t k = 0; k < os.size(); ++k) o << (k ? "," : "") << os[k];
        o << "]}";
    }
    o << "]";
    {
        // stack size of a default task (the entry function itself runs on a larger stack)
        namespace ex = pika::execution::experimental;
        namespace tt = pika::this_thread::experimental;
        std::ptrdiff_t st = 0;
        tt::sync_wait(ex::schedule(ex::thread_pool_scheduler{}) |
            ex::then([&] { st = pika::this_thread::get_stack_size(); }));
        o << ",\"stack\":" << st;
    }
    o << ",\"cfg\":{";
    bool first = true;
    for (auto const& k : g_keys)
    {
        std::string v = rt.get_config().get_entry(k, "<unset>");
        o << (first ? "" : ",") << "\"" << esc(k) << "\":\"" << esc(v) << "\"";
        first = false;
    }
    o << "},\"argv\":[";
    for (int i = 1; i < argc; ++i) o << (i > 1 ? "," : "") << "\"" << esc(argv[i]) << "\"";
    o << "]";
    g_out = o.str();
    pika::finalize();
    return 7;    // the entry function's result must come back from stop()/init()
}

int main(int argc, char** argv)
{
    // "--probe-key=<ini key>" arguments name configuration entries to report; they are removed
    // from the command line before pika sees it
    std::vector<char*> av;
    for (int i = 0; i < argc; ++i)
    {
        std::string a = argv[i];
        if (a.rfind("--probe-key=", 0) == 0) g_keys.push_back(a.substr(12));
        else if (a.rfind("--probe-second=", 0) == 0) g_second = std::atoi(a.substr(15).c_str());
        else if (a.rfind("--probe-cfg=", 0) == 0) g_cfg.push_back(a.substr(12));    // init_params::cfg entry
        else av.push_back(argv[i]);
    }
    int rc = -100;
    std::string err;
    try
    {
        pika::init_params ip;
        ip.cfg = g_cfg;
        // application options (C16: non-pika arguments must reach the entry function unchanged)
        pika::program_options::options_description desc("probe options");
        desc.add_options()("app-n", pika::program_options::value<int>(), "an application option")(
            "app-flag", "an application flag");
        ip.desc_cmdline = desc;
        if (g_second > 0)
        {
            ip.rp_callback = [](auto& rp, pika::program_options::variables_map const&) {
                rp.create_thread_pool("second");
                std::vector<pika::resource::pu const*> pus;
                for (auto const& d : rp.sockets())
                    for (auto const& c : d.cores())
                        for (auto const& p : c.pus()) pus.push_back(&p);
                for (int k = 0; k < g_second && k < (int) pus.size() - 1; ++k)
                    rp.add_resource(*pus[pus.size() - 1 - k], "second");
            };
        }
        rc = pika::init(pika_main, (int) av.size(), av.data(), ip);
    }
    catch (std::exception const& e)
    {
        err = e.what();
    }
    catch (...)
    {
        err = "unknown exception";
    }
    if (g_out.empty()) g_out = "{\"nworkers\":0";
    std::printf("PROBE %s,\"rc\":%d,\"error\":\"%s\"}\n", g_out.c_str(), rc, esc(err).c_str());
    std::fflush(stdout);
    return 0;
}
