// C03 conformance harness (spec -> implementation): builds, at run time, the sender compositions that
// TLC enumerated from spec/SenderSem.tla (terms in prefix notation), runs each with leaves completing
// inline / later from another thread / on the pool, and records what reaches the connected receiver:
// number of signals, channel, payload, and the balance of payload objects constructed / destroyed.
//
// usage: sender_harness <terms.txt> <results.ndjson> <seed> [pika options]
//   terms.txt: one term per line, e.g.   then inc when_all just 1 fail 3
#include <pika/execution.hpp>
#include <pika/init.hpp>
#include <pika/thread.hpp>

#include "vlog.hpp"

#include <atomic>
#include <chrono>
#include <condition_variable>
#include <cstdio>
#include <fstream>
#include <memory>
#include <mutex>
#include <sstream>
#include <string>
#include <thread>
#include <vector>

namespace ex = pika::execution::experimental;

static std::atomic<long> g_live{0};
struct tracked
{
    int v = 0;
    tracked() { ++g_live; }
    explicit tracked(int x)
      : v(x)
    {
        ++g_live;
    }
    tracked(tracked const& o)
      : v(o.v)
    {
        ++g_live;
    }
    tracked(tracked&& o) noexcept
      : v(o.v)
    {
        ++g_live;
    }
    tracked& operator=(tracked const&) = default;
    tracked& operator=(tracked&&) = default;
    // a destroyed payload is poisoned: reading it afterwards (a dangling reference handed on by an adaptor)
    // shows up as a wrong value
    ~tracked()
    {
        v = -7777;
        --g_live;
    }
};
// error payloads are counted too: an exception object that an adaptor stored and never released
// (e.g. two errors written over each other) shows up as a leak
struct term_error
{
    int e;
    explicit term_error(int x)
      : e(x)
    {
        ++g_live;
    }
    term_error(term_error const& o)
      : e(o.e)
    {
        ++g_live;
    }
    term_error& operator=(term_error const&) = default;
    ~term_error()
    {
        e = -7777;    // poisoned, see tracked
        --g_live;
    }
};
using any_s = ex::unique_any_sender<tracked>;

// ---------------------------------------------------------------------------------------------
// leaves with a chosen timing: 0 inline in start(), 1 later from a helper thread, 2 on the pool
struct helper_threads
{
    std::mutex m;
    std::vector<std::thread> ts;
    void add(std::thread t)
    {
        std::lock_guard<std::mutex> l(m);
        ts.push_back(std::move(t));
    }
    void join_all()
    {
        std::lock_guard<std::mutex> l(m);
        for (auto& t : ts) t.join();
        ts.clear();
    }
};
static helper_threads g_helpers;
// in "gate" runs the helper threads of leaves that were started before the consumer's start() returned
// complete together, right after it returned (concurrent completions of sibling inputs)
static std::atomic<int> g_gate{1};
static std::atomic<int> g_expected{0}, g_arrived{0};    // rendezvous of the gated helper threads

template <int Kind>    // 0 value, 1 error, 2 stopped
struct leaf_sender
{
    PIKA_STDEXEC_SENDER_CONCEPT
    int payload;
    int timing;
    template <template <typename...> class Tuple, template <typename...> class Variant>
    using value_types = Variant<Tuple<tracked>>;
    template <template <typename...> class Variant>
    using error_types = Variant<std::exception_ptr>;
    static constexpr bool sends_done = true;
    using completion_signatures = ex::completion_signatures<ex::set_value_t(tracked),
        ex::set_error_t(std::exception_ptr), ex::set_stopped_t()>;
    template <typename R>
    struct op
    {
        int payload, timing;
        std::decay_t<R> r;
        void complete(std::exception_ptr ep = nullptr) noexcept
        {
            if constexpr (Kind == 0) ex::set_value(std::move(r), tracked(payload));
            else if constexpr (Kind == 1)
                ex::set_error(std::move(r), ep ? std::move(ep) : std::make_exception_ptr(term_error{payload}));
            else ex::set_stopped(std::move(r));
        }
        void start() & noexcept
        {
            if (timing == 0) complete();
            else if (timing == 1)
            {
                bool gated = !g_gate.load();
                if (gated) ++g_expected;
                g_helpers.add(std::thread([this, gated] {
                    // everything that takes time is prepared before the rendezvous
                    std::exception_ptr ep;
                    if constexpr (Kind == 1) ep = std::make_exception_ptr(term_error{payload});
                    while (!g_gate.load()) {}
                    if (gated)
                    {
                        // complete together with the sibling leaves (within nanoseconds)
                        ++g_arrived;
                        while (g_arrived.load() < g_expected.load()) {}
                    }
                    for (int i = 0; i < (payload * 7919 + (int) (reinterpret_cast<std::uintptr_t>(this) >> 4)) % 48; ++i)
                        asm volatile("" ::: "memory");
                    complete(std::move(ep));
                }));
            }
            else ex::execute(ex::thread_pool_scheduler{}, [this] { complete(); });
        }
    };
    template <typename R>
    op<R> connect(R&& r) &&
    {
        return op<R>{payload, timing, std::forward<R>(r)};
    }
};

// ---------------------------------------------------------------------------------------------
struct outcome
{
    std::mutex m;
    std::condition_variable cv;
    int nsig = 0;
    int ch = 0;    // 1 value 2 error 3 stopped
    int v = 0;
};
struct ledger_receiver
{
    PIKA_STDEXEC_RECEIVER_CONCEPT
    std::shared_ptr<outcome> o;
    void sig(int ch, int v) noexcept
    {
        std::lock_guard<std::mutex> l(o->m);
        if (o->nsig == 0)
        {
            o->ch = ch;
            o->v = v;
        }
        ++o->nsig;
        o->cv.notify_all();
    }
    void set_value(tracked t) && noexcept { sig(1, t.v); }
    void set_error(std::exception_ptr ep) && noexcept
    {
        int e = -1;
        try
        {
            std::rethrow_exception(ep);
        }
        catch (term_error const& te)
        {
            e = te.e;
        }
        catch (...)
        {
        }
        sig(2, e);
    }
    void set_stopped() && noexcept { sig(3, 0); }
    constexpr ex::empty_env get_env() const& noexcept { return {}; }
};

// ---------------------------------------------------------------------------------------------
struct builder
{
    std::vector<std::string> tok;
    std::size_t pos = 0;
    vlog::rng* R;
    bool pool_bias = false;    // prefer completions from pool tasks (concurrent sibling completions)
    bool align = false;        // all leaves complete from helper threads released together (rendezvous)
    std::string timings;
    std::string next() { return tok.at(pos++); }
    any_s build()
    {
        std::string op = next();
        if (op == "just" || op == "fail" || op == "stop")
        {
            int timing = (int) R->below(3);
            if (pool_bias && R->chance(1, 2)) timing = 2;
            if (align) timing = 1;
            timings += char('0' + timing);
            if (op == "just") return any_s(leaf_sender<0>{std::stoi(next()), timing});
            if (op == "fail") return any_s(leaf_sender<1>{std::stoi(next()), timing});
            return any_s(leaf_sender<2>{0, timing});
        }
        if (op == "then")
        {
            std::string f = next();
            any_s s = build();
            if (f == "inc") return any_s(ex::then(std::move(s), [](tracked x) { return tracked(x.v + 1); }));
            if (f == "dbl") return any_s(ex::then(std::move(s), [](tracked x) { return tracked(2 * x.v); }));
            return any_s(ex::then(std::move(s), [](tracked) -> tracked { throw term_error{7}; }));
        }
        if (op == "let_value")
        {
            std::string g = next();
            any_s s = build();
            if (g == "plus10")
                return any_s(ex::let_value(std::move(s), [](tracked& x) { return any_s(ex::just(tracked(x.v + 10))); }));
            if (g == "tofail")
                return any_s(ex::let_value(std::move(s), [](tracked&) { return any_s(leaf_sender<1>{8, 0}); }));
            return any_s(ex::let_value(std::move(s), [](tracked&) -> any_s { throw term_error{9}; }));
        }
        if (op == "let_error")
        {
            std::string h = next();
            any_s s = build();
            auto code = [](std::exception_ptr ep) {
                try
                {
                    std::rethrow_exception(ep);
                }
                catch (term_error const& te)
                {
                    return te.e;
                }
                catch (...)
                {
                    return -1;
                }
            };
            if (h == "recover")
                return any_s(ex::let_error(std::move(s),
                    [code](std::exception_ptr& ep) { return any_s(ex::just(tracked(100 + code(ep)))); }));
            return any_s(ex::let_error(
                std::move(s), [code](std::exception_ptr& ep) { return any_s(leaf_sender<1>{code(ep) + 1, 0}); }));
        }
        if (op == "continues_on")
        {
            any_s s = build();
            return any_s(ex::continues_on(std::move(s), ex::thread_pool_scheduler{}));
        }
        if (op == "ensure_started")
        {
            any_s s = build();
            return any_s(ex::ensure_started(std::move(s)));
        }
        if (op == "drop_op_state")
        {
            any_s s = build();
            return any_s(ex::drop_operation_state(std::move(s)));
        }
        if (op == "split1")
        {
            any_s s = build();
            return any_s(ex::split(std::move(s)) | ex::then([](tracked const& x) { return tracked(x.v); }));
        }
        if (op == "split2")
        {
            any_s s = build();
            auto sp = ex::split(std::move(s));
            auto c1 = sp | ex::then([](tracked const& x) { return tracked(x.v); });
            auto c2 = sp | ex::then([](tracked const& x) { return tracked(x.v); });
            return any_s(ex::when_all(std::move(c1), std::move(c2)) |
                ex::then([](tracked a, tracked b) { return tracked(a.v + b.v); }));
        }
        if (op == "split2r")
        {
            // two consumers of one split; each turns the error it is handed into a value by itself
            any_s s = build();
            auto sp = ex::split(std::move(s));
            auto code = [](std::exception_ptr ep) {
                if (!ep) return -1000;
                try
                {
                    std::rethrow_exception(ep);
                }
                catch (term_error const& te)
                {
                    return te.e;
                }
                catch (...)
                {
                    return -1;
                }
            };
            auto consumer = [&] {
                return any_s(ex::let_error(
                    any_s(ex::when_all(sp | ex::then([](tracked const& x) { return tracked(x.v); }))),
                    [code](std::exception_ptr& ep) { return any_s(ex::just(tracked(100 + code(ep)))); }));
            };
            any_s c1 = consumer();
            any_s c2 = consumer();
            return any_s(ex::when_all(std::move(c1), std::move(c2)) |
                ex::then([](tracked a, tracked b) { return tracked(a.v + b.v); }));
        }
        if (op == "drop_wa")
        {
            // drop_operation_state directly on top of when_all (no type erasure in between: the error that
            // when_all hands on lives in the operation state that is being dropped)
            any_s a = build();
            any_s b = build();
            return any_s(ex::drop_operation_state(ex::when_all(std::move(a), std::move(b)) |
                ex::then([](tracked x, tracked y) { return tracked(x.v + y.v); })));
        }
        if (op == "drop_es")
        {
            any_s s = build();
            return any_s(ex::drop_operation_state(ex::ensure_started(std::move(s))));
        }
        if (op == "when_all")
        {
            any_s a = build();
            any_s b = build();
            return any_s(ex::when_all(std::move(a), std::move(b)) |
                ex::then([](tracked x, tracked y) { return tracked(x.v + y.v); }));
        }
        if (op == "when_all_vector")
        {
            std::vector<any_s> v;
            v.push_back(build());
            v.push_back(build());
            return any_s(ex::when_all_vector(std::move(v)) |
                ex::then([](std::vector<tracked> xs) { return tracked(xs[0].v + xs[1].v); }));
        }
        throw std::runtime_error("bad term: " + op);
    }
};

int main(int argc, char** argv)
{
    if (argc < 4) return 2;
    std::ifstream in(argv[1]);
    FILE* out = std::fopen(argv[2], "w");
    if (!in || !out) return 2;
    std::uint64_t seed = std::strtoull(argv[3], nullptr, 10);
    std::vector<char*> av;
    av.push_back(argv[0]);
    for (int i = 4; i < argc; ++i) av.push_back(argv[i]);
    int ac = (int) av.size();
    // a crash of the code under test must not lose what was measured so far
    static FILE* g_out = out;
    static long g_idx = 0;
    static std::string g_cur;
    std::set_terminate([] {
        std::fprintf(g_out, "{\"case\":%ld,\"crash\":1}\n", g_idx);
        std::fflush(g_out);
        _exit(70);
    });
    std::signal(SIGABRT, [](int) {
        std::fprintf(g_out, "{\"case\":%ld,\"crash\":1}\n", g_idx);
        std::fflush(g_out);
        _exit(70);
    });
    std::signal(SIGSEGV, [](int) {
        std::fprintf(g_out, "{\"case\":%ld,\"crash\":1}\n", g_idx);
        std::fflush(g_out);
        _exit(70);
    });
    pika::start(nullptr, ac, av.data());
    if (std::getenv("VERIF_PERTURB")) vctl::install(seed, 50, 100, 120, "ss.");
    vlog::rng R(seed * 7477 + 3);
    bool late_start = std::getenv("VERIF_PERTURB") != nullptr;
    std::string line;
    long skip = 0;
    if (char const* s = std::getenv("VERIF_SKIP")) skip = std::atol(s);
    while (std::getline(in, line))
    {
        ++g_idx;
        if (g_idx <= skip) continue;
        g_cur = line;
        long base = g_live.load();
        auto o = std::make_shared<outcome>();
        std::string timings;
        bool hang = false;
        {
            builder b;
            std::stringstream ls(line);
            std::string t;
            while (ls >> t) b.tok.push_back(t);
            b.R = &R;
            b.pool_bias = std::getenv("VERIF_POOL_BIAS") != nullptr;
            b.align = std::getenv("VERIF_ALIGN") != nullptr;
            bool gate = R.chance(1, 2) || std::getenv("VERIF_ALIGN") != nullptr;
            g_expected = 0;
            g_arrived = 0;
            g_gate = gate ? 0 : 1;
            any_s s = b.build();
            timings = b.timings;
            auto op = ex::connect(std::move(s), ledger_receiver{o});
            // eagerly started parts (ensure_started) are already running: start the consumer anywhere
            // between "long before" and "long after" their completion
            if (late_start && R.chance(2, 3))
            {
                auto t = std::chrono::steady_clock::now() + std::chrono::microseconds(R.below(250));
                while (std::chrono::steady_clock::now() < t) {}
            }
            ex::start(op);
            g_gate = 1;
            {
                std::unique_lock<std::mutex> l(o->m);
                hang = !o->cv.wait_for(l, std::chrono::seconds(12), [&] { return o->nsig > 0; });
            }
            if (hang)
            {
                std::fprintf(out, "{\"case\":%ld,\"hang\":1,\"term\":\"%s\",\"timings\":\"%s\"}\n", g_idx, line.c_str(), timings.c_str());
                std::fflush(out);
                _exit(0);
            }
            // let helper threads and pool tasks that are still inside set_* finish, then destroy
            g_helpers.join_all();
            pika::wait();
        }
        std::this_thread::sleep_for(std::chrono::microseconds(50));
        int nsig;
        {
            std::lock_guard<std::mutex> l(o->m);
            nsig = o->nsig;
        }
        std::fprintf(out, "{\"case\":%ld,\"nsig\":%d,\"ch\":\"%s\",\"v\":%d,\"leak\":%ld,\"timings\":\"%s\"}\n", g_idx, nsig,
            o->ch == 1 ? "value" : (o->ch == 2 ? "error" : "stopped"), o->v, g_live.load() - base, timings.c_str());
    }
    std::fprintf(out, "{\"done\":%ld}\n", g_idx);
    std::fclose(out);
    pika::finalize();
    pika::stop();
    return 0;
}
