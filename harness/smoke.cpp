#include <pika/init.hpp>
#include <pika/execution.hpp>
#include <pika/thread.hpp>
#include "vlog.hpp"
namespace ex = pika::execution::experimental;
namespace tt = pika::this_thread::experimental;
int main(int argc, char** argv)
{
    vlog::init(argc > 1 ? argv[1] : "");
    vctl::install(1, 10, 100, 50);
    pika::start(argc, argv);
    int r = 0;
    tt::sync_wait(ex::schedule(ex::thread_pool_scheduler{}) | ex::then([&] { r = 42; vlog::ev("ran").i("v", r).done(); }));
    pika::finalize();
    pika::stop();
    vctl::uninstall();
    vlog::ev("hits").i("n", (long long) vctl::g_hits.load()).done();
    vlog::flush();
    return r == 42 ? 0 : 1;
}
