// C08 conformance harness: random call/return histories of pika's counting, binary and sliding
// semaphores, executed by pika tasks and plain OS threads, logged for validation against
// spec/SemAbs.tla (via spec/SemTrace.tla).
//
// usage: sem_harness <trace.ndjson> <seed> <nhist> <perturb 0|1> [pika options]
#include <pika/execution.hpp>
#include <pika/init.hpp>
#include <pika/semaphore.hpp>
#include <pika/synchronization/sliding_semaphore.hpp>
#include <pika/thread.hpp>

#include "vlog.hpp"

#include <atomic>
#include <chrono>
#include <memory>
#include <thread>
#include <vector>

namespace ex = pika::execution::experimental;
using vlog::ev;

enum kind_t
{
    k_acquire,
    k_try,
    k_timed,
    k_release,
    k_swait,
    k_stry,
    k_ssignal,
    k_ssetmax
};
static char const* kind_name[] = {
    "acquire", "try_acquire", "try_acquire_until", "release", "swait", "stry_wait", "ssignal", "ssetmax"};

struct opdesc
{
    kind_t k;
    long n;          // release count / sliding limit
    long dl_ms;      // relative deadline for timed
    int pre_yields;  // yields before the call
};

struct actor_state
{
    std::atomic<int> blocking{0};    // 1: in an untimed blocking call, 2: in a timed call
    std::atomic<long long> since{0};
    std::atomic<long> arg{0};
    char pad[64];
};

struct sem_any
{
    int type;    // 0 counting, 1 binary, 2 sliding
    std::unique_ptr<pika::counting_semaphore<>> c;
    std::unique_ptr<pika::binary_semaphore<>> b;
    std::unique_ptr<pika::sliding_semaphore> s;
};

static std::atomic<long> est_permits{0};    // ledger of *returned* calls (driver's drain rule)
static std::atomic<long> est_lower{0};
static std::atomic<long> est_md{1};    // the sliding semaphore's configured distance as last set

static void do_op(sem_any& sem, int a, opdesc const& o, actor_state& st, bool on_pika)
{
    for (int i = 0; i < o.pre_yields; ++i)
    {
        if (on_pika) pika::this_thread::yield();
        else std::this_thread::yield();
    }
    auto dl_tp = std::chrono::steady_clock::now() + std::chrono::milliseconds(o.dl_ms);
    long long dl_us = o.k == k_timed ?
        std::chrono::duration_cast<std::chrono::microseconds>(dl_tp - vlog::g_t0).count() :
        0;
    st.arg = o.n;
    st.since = vlog::now_us();
    if (o.k == k_acquire || o.k == k_swait) st.blocking = 1;
    if (o.k == k_timed) st.blocking = 2;
    // "t" is sampled after the sequence number is taken: see SemTrace.tla
    ev("call").i("a", a).s("op", kind_name[o.k]).i("n", o.n).i("dl", dl_us).done_t();
    long res = 0;
    switch (o.k)
    {
    case k_acquire:
        if (sem.type == 0) sem.c->acquire();
        else sem.b->acquire();
        res = 1;
        break;
    case k_try: res = (sem.type == 0 ? sem.c->try_acquire() : sem.b->try_acquire()) ? 1 : 0; break;
    case k_timed:
        res = (sem.type == 0 ? sem.c->try_acquire_until(dl_tp) : sem.b->try_acquire_until(dl_tp)) ?
            1 :
            0;
        break;
    case k_release:
        if (sem.type == 0) sem.c->release(o.n);
        else sem.b->release(o.n);
        break;
    case k_swait:
        sem.s->wait(o.n);
        res = 1;
        break;
    case k_stry: res = sem.s->try_wait(o.n) ? 1 : 0; break;
    case k_ssignal: sem.s->signal(o.n); break;
    case k_ssetmax:
        sem.s->set_max_difference(o.n);    // (lower limit: the default 0)
        est_md.store(o.n);
        est_lower.store(0);
        break;
    }
    // ledger update strictly before the return record / blocking flag reset
    if ((o.k == k_acquire || o.k == k_try || o.k == k_timed) && res == 1) est_permits -= 1;
    if (o.k == k_release) est_permits += o.n;
    if (o.k == k_ssignal)
    {
        long cur = est_lower.load();
        while (cur < o.n && !est_lower.compare_exchange_weak(cur, o.n)) {}
    }
    ev("ret").i("a", a).i("res", res).done_t();
    st.blocking = 0;
}

int main(int argc, char** argv)
{
    if (argc < 5) return 2;
    std::string path = argv[1];
    std::uint64_t seed = std::strtoull(argv[2], nullptr, 10);
    int nhist = std::atoi(argv[3]);
    int perturb = std::atoi(argv[4]);
    vlog::init(path);
    vlog::start_watchdog(120000);
    if (perturb) vctl::install(seed, 25, 100, 300, "cv.,sem.,ssem.,mtx.");

    std::vector<char*> av;
    av.push_back(argv[0]);
    for (int i = 5; i < argc; ++i) av.push_back(argv[i]);
    int ac = (int) av.size();
    pika::init_params ip;
    pika::start(ac, av.data(), ip);

    vlog::rng R(seed * 7919 + 13);
    bool hung = false;

    for (int h = 0; h < nhist && !hung; ++h)
    {
        sem_any sem;
        sem.type = (int) R.below(3) == 0 ? 2 : ((int) R.below(4) == 0 ? 1 : 0);
        long p0 = sem.type == 1 ? (long) R.below(2) : (long) R.below(3);
        long md = 1 + (long) R.below(3), lo = (long) R.below(2);
        if (sem.type == 0) sem.c = std::make_unique<pika::counting_semaphore<>>(p0);
        if (sem.type == 1) sem.b = std::make_unique<pika::binary_semaphore<>>(p0);
        if (sem.type == 2) sem.s = std::make_unique<pika::sliding_semaphore>(md, lo);
        est_permits = p0;
        est_lower = lo;
        est_md = md;
        ev("init").i("p0", sem.type == 2 ? 0 : p0).i("md", md).i("lo", lo).i("type", sem.type).done();

        int nact = 2 + (int) R.below(4);
        bool feed_timed = R.chance(1, 2);
        std::vector<std::vector<opdesc>> scripts(nact);
        std::vector<bool> on_pika(nact);
        for (int a = 0; a < nact; ++a)
        {
            on_pika[a] = !R.chance(1, 4);
            int nops = 1 + (int) R.below(4);
            for (int j = 0; j < nops; ++j)
            {
                opdesc o{};
                o.pre_yields = (int) R.below(3);
                if (sem.type == 2)
                {
                    int r = (int) R.below(7);
                    o.k = r < 2 ? k_swait : (r < 4 ? k_stry : k_ssignal);
                    o.n = (long) R.below(6);
                    if (r == 6)
                    {
                        // the configured distance changes while others may be blocked; a signal follows, so
                        // that waiters look at the new distance
                        o.k = k_ssetmax;
                        o.n = 1 + (long) R.below(4);
                        scripts[a].push_back(o);
                        o.k = k_ssignal;
                        o.n = (long) R.below(6);
                        o.pre_yields = 0;
                    }
                }
                else
                {
                    int r = (int) R.below(10);
                    if (r < 3) o.k = k_acquire;
                    else if (r < 5) o.k = k_try;
                    else if (r < 7 && on_pika[a]) o.k = k_timed;
                    else o.k = k_release;
                    o.n = 1;
                    if (o.k == k_release) o.n = sem.type == 1 ? 1 : 1 + (long) R.below(2);
                    if (o.k == k_timed) o.dl_ms = 8 + (long) R.below(40);
                    // binary semaphore: never release above 1 (precondition of the API)
                    if (sem.type == 1 && o.k == k_release) o.k = k_try;
                }
                scripts[a].push_back(o);
            }
        }

        // "burst" shape: several blocked acquirers, then one actor releases back-to-back while the
        // first woken waiter may not have consumed its permit yet
        bool burst = sem.type == 0 && R.chance(1, 4);
        if (burst)
        {
            nact = 3 + (int) R.below(3);
            scripts.assign(nact, {});
            on_pika.assign(nact, true);
            for (int a = 0; a + 1 < nact; ++a) scripts[a].push_back(opdesc{k_acquire, 1, 0, 0});
            on_pika[nact - 1] = R.chance(1, 2);
            int split = (int) R.below(2);
            for (int a = 0; a + 1 < nact; ++a)
            {
                if (split && a + 2 < nact)
                {
                    scripts[nact - 1].push_back(opdesc{k_release, 2, 0, 0});
                    ++a;
                }
                else scripts[nact - 1].push_back(opdesc{k_release, 1, 0, 0});
            }
        }
        std::vector<actor_state> st(nact + 1);
        std::atomic<int> finished{0};
        std::vector<std::thread> os_threads;
        for (int a = 0; a < nact; ++a)
        {
            auto body = [&, a] {
                if (burst && a == nact - 1)
                {
                    // wait (bounded) until the acquirers are blocked
                    auto t = std::chrono::steady_clock::now() + std::chrono::milliseconds(20);
                    for (;;)
                    {
                        int nb = 0;
                        for (int b = 0; b + 1 < nact; ++b) nb += st[b].blocking.load() == 1;
                        if (nb == nact - 1 - (int) p0 || std::chrono::steady_clock::now() > t) break;
                        if (on_pika[a]) pika::this_thread::yield();
                        else std::this_thread::yield();
                    }
                }
                for (auto const& o : scripts[a]) do_op(sem, a + 1, o, st[a], on_pika[a]);
                ++finished;
            };
            if (on_pika[a]) ex::execute(ex::thread_pool_scheduler{}, body);
            else os_threads.emplace_back(body);
        }

        // driver (plain OS thread = main): drains blocked actors, detects hangs
        int const drv = 8;
        long long hang_since = -1;
        while (finished.load() < nact)
        {
            std::this_thread::sleep_for(std::chrono::microseconds(500));
            long long now = vlog::now_us();
            bool any_blocked = false, any_old = false;
            long want = -1;
            for (int a = 0; a < nact; ++a)
            {
                int b = st[a].blocking.load();
                if (b == 1 || (b == 2 && feed_timed))
                {
                    if (now - st[a].since.load() > 4000)
                    {
                        any_blocked = true;
                        want = std::max(want, st[a].arg.load());
                    }
                    if (now - st[a].since.load() > 4000000) any_old = true;
                }
            }
            if (!any_blocked)
            {
                hang_since = -1;
                continue;
            }
            bool could = sem.type == 2 ? false : est_permits.load() > 0;
            if (sem.type == 2)
            {
                // some blocked waiter is already within distance according to returned signals?
                for (int a = 0; a < nact; ++a)
                    if (st[a].blocking.load() == 1 && now - st[a].since.load() > 4000 &&
                        st[a].arg.load() - est_md.load() <= est_lower.load())
                        could = true;
            }
            if (could)
            {
                // someone should be able to proceed by itself: give it time, then declare a hang
                if (hang_since < 0) hang_since = now;
                if (now - hang_since > 4000000 && any_old)
                {
                    ev("quiescent").done_t();
                    hung = true;
                    break;
                }
                continue;
            }
            hang_since = -1;
            opdesc o{};
            if (sem.type == 2)
            {
                o.k = k_ssignal;
                o.n = std::max<long>(est_lower.load() + 1, want - est_md.load());
            }
            else
            {
                o.k = k_release;
                o.n = 1;
            }
            do_op(sem, drv, o, st[nact], false);
        }
        if (hung)
        {
            vlog::flush();
            _exit(0);
        }
        for (auto& t : os_threads) t.join();
        ev("reset").done();
    }

    pika::finalize();
    pika::stop();
    vlog::flush();
    return 0;
}
