// C14 conformance harness: histories of stop_source / stop_token / stop_callback operations from
// pika tasks and plain OS threads, validated against spec/StopAbs.tla (via StopTrace.tla).
//
// usage: stop_harness <trace.ndjson> <seed> <nhist> <perturb 0|1> [pika options]
#include <pika/execution.hpp>
#include <pika/init.hpp>
#include <pika/stop_token.hpp>
#include <pika/thread.hpp>

#include "vactor.hpp"
#include "vlog.hpp"

#include <atomic>
#include <cstring>
#include <chrono>
#include <functional>
#include <optional>
#include <thread>
#include <vector>

namespace ex = pika::execution::experimental;
using vlog::ev;

constexpr int NSRC = 4, NTOK = 2, NCB = 4;
constexpr int NCBX = 12;    // callbacks of a chase history (the other scenarios use 1..NCB)

struct cb_body;
using callback_t = pika::stop_callback<std::function<void()>>;

struct world
{
    std::optional<pika::stop_source> src[NSRC + 1];
    std::optional<pika::stop_token> tok[NTOK + 1];
    std::optional<callback_t> cb[NCBX + 1];
    std::atomic<int> cb_created[NCBX + 1];      // 1 after make_cb returned
    std::atomic<int> cb_claimed[NCBX + 1];      // destroy claimed (exactly one destroyer)
    int cb_behaviour[NCBX + 1];                 // 0 plain, 1 delay, 2 nested-destroy other, 3 self
    int cb_victim[NCBX + 1];
    std::atomic<int> cb_began[NCBX + 1];        // callback body entered
    std::atomic<int> chase_go{0};              // the chasing destroyer may start
    int mirror_src[NSRC + 1];                  // abstract state number held (harness-side, seq. phase)
    int nstates = 0;
    world()
    {
        for (int i = 0; i <= NSRC; ++i)
        {
            src[i].emplace(pika::nostopstate);
            mirror_src[i] = 0;
        }
        for (int i = 0; i <= NTOK; ++i) tok[i].emplace();
        for (int i = 0; i <= NCBX; ++i)
        {
            cb_created[i] = 0;
            cb_claimed[i] = 0;
            cb_began[i] = 0;
            cb_behaviour[i] = 0;
            cb_victim[i] = 0;
        }
    }
};

// st.rs.deq fires under the stop state's lock right after request_stop has taken a callback off the list; its
// first argument says whether the entry is already marked as removed.  That mark is what ~stop_callback reads
// under the same lock to decide between "unlink and return" and "wait for the running callback", so it must be
// set before the lock is released (StopStateImpl: RLoop clears `linked` while holding the lock).
static void monitor_hook(char const* site, void const* obj, std::uint64_t a, std::uint64_t b) noexcept
{
    if (a == 0 && std::strcmp(site, "st.rs.deq") == 0) ev("unmarked_dequeue").done();
    vctl::perturb(site, obj, a, b);
}

static void call(int a, char const* op, int h, int g, int c)
{
    ev("call").i("a", a).s("op", op).i("h", h).i("g", g).i("c", c).done();
}
static void ret(int a, long r) { ev("ret").i("a", a).i("res", r).done(); }

static void spin_us(int us)
{
    auto t = std::chrono::steady_clock::now() + std::chrono::microseconds(us);
    while (std::chrono::steady_clock::now() < t) {}
}

// body executed when callback c fires
static void run_cb(world* w, int c)
{
    int a = vact::get();
    int beh = w->cb_behaviour[c];
    int victim = w->cb_victim[c];
    w->cb_began[c].store(1, std::memory_order_relaxed);
    ev("cb_begin").i("a", a).i("c", c).done();
    if (beh == 1) spin_us(150);
    if (beh == 2 && victim != c && victim > 0)
    {
        int exp = 0;
        if (w->cb_created[victim].load() == 1 && w->cb_claimed[victim].compare_exchange_strong(exp, 1))
        {
            w->cb[victim].reset();
            ev("nested_destroy").i("a", a).i("c", victim).done();
        }
    }
    if (beh == 3)
    {
        int exp = 0;
        if (w->cb_created[c].load() == 1 && w->cb_claimed[c].compare_exchange_strong(exp, 1))
        {
            // destroy ourselves from inside: `w` and `c` are locals (copied out of the closure)
            w->cb[c].reset();
            ev("nested_destroy").i("a", a).i("c", c).done();
        }
    }
    ev("cb_end").i("a", a).i("c", c).done();
}

struct opdesc
{
    int kind;
    int h, g, c;
};
enum
{
    o_request,
    o_make,
    o_destroy_cb,
    o_destroy_src,
    o_req_tok,
    o_pos_tok,
    o_yield,
    o_chase_request,    // request_stop, announced to the chasing destroyer
    o_chase_destroy     // destroy callback c right when request_stop is about to dequeue it
};

static void make_cb(world& w, int a, int c, int t)
{
    call(a, "make_cb", t, 0, c);
    world* wp = &w;
    w.cb[c].emplace(*w.tok[t], std::function<void()>([wp, c] {
        world* w2 = wp;
        int c2 = c;
        run_cb(w2, c2);
    }));
    ret(a, 0);
    w.cb_created[c] = 1;
}

static bool destroy_cb(world& w, int a, int c, bool wait_created)
{
    if (wait_created)
    {
        auto t = std::chrono::steady_clock::now() + std::chrono::milliseconds(30);
        while (w.cb_created[c].load() != 1)
        {
            if (std::chrono::steady_clock::now() > t) return false;
            std::this_thread::yield();
        }
    }
    if (w.cb_created[c].load() != 1) return false;
    int exp = 0;
    if (!w.cb_claimed[c].compare_exchange_strong(exp, 1)) return false;
    call(a, "destroy_cb", 0, 0, c);
    w.cb[c].reset();
    ret(a, 0);
    return true;
}

// sequential handle algebra (single actor), random but respecting preconditions
static void handle_phase(world& w, vlog::rng& R, int a, int nops, bool epilogue = true)
{
    for (int i = 0; i < nops; ++i)
    {
        int k = (int) R.below(14);
        int h = 1 + (int) R.below(NSRC), g = 1 + (int) R.below(NSRC);
        int th = 1 + (int) R.below(NTOK), tg = 1 + (int) R.below(NTOK);
        switch (k)
        {
        case 0:
            if (w.mirror_src[h] != 0 || w.nstates >= 5) break;
            call(a, "new_src", h, 0, 0);
            w.src[h].reset();
            w.src[h].emplace();
            w.mirror_src[h] = ++w.nstates;
            ret(a, 0);
            break;
        case 1:
            if (w.mirror_src[h] != 0 || h == g) break;
            call(a, "copy_src", h, g, 0);
            w.src[h].reset();
            w.src[h].emplace(*w.src[g]);
            w.mirror_src[h] = w.mirror_src[g];
            ret(a, 0);
            break;
        case 2:
            if (w.mirror_src[h] != 0 || h == g) break;
            call(a, "move_src", h, g, 0);
            w.src[h].reset();
            w.src[h].emplace(std::move(*w.src[g]));
            w.mirror_src[h] = w.mirror_src[g];
            w.mirror_src[g] = 0;
            ret(a, 0);
            break;
        case 3:
        case 4:
            call(a, "assign_src", h, g, 0);
            {
                pika::stop_source& rhs = *w.src[g];
                *w.src[h] = rhs;
            }
            w.mirror_src[h] = w.mirror_src[g];
            ret(a, 0);
            break;
        case 5:
            // often between two sources that share a state
            if (R.chance(1, 2))
                for (int x = 1; x <= NSRC; ++x)
                    if (x != h && w.mirror_src[x] != 0 && w.mirror_src[x] == w.mirror_src[h]) g = x;
            if (h == g) break;
            call(a, "moveassign_src", h, g, 0);
            *w.src[h] = std::move(*w.src[g]);
            w.mirror_src[h] = w.mirror_src[g];
            w.mirror_src[g] = 0;
            ret(a, 0);
            break;
        case 6:
            call(a, "swap_src", h, g, 0);
            w.src[h]->swap(*w.src[g]);
            std::swap(w.mirror_src[h], w.mirror_src[g]);
            ret(a, 0);
            break;
        case 7:
            call(a, "destroy_src", h, 0, 0);
            w.src[h].reset();
            w.src[h].emplace(pika::nostopstate);
            w.mirror_src[h] = 0;
            ret(a, 0);
            break;
        case 8:
            call(a, "get_token", th, h, 0);
            *w.tok[th] = w.src[h]->get_token();
            ret(a, 0);
            break;
        case 9:
            if (R.chance(1, 2))
            {
                call(a, "assign_tok", th, tg, 0);
                pika::stop_token& rhs = *w.tok[tg];
                *w.tok[th] = rhs;
                ret(a, 0);
            }
            else if (th != tg)
            {
                call(a, "move_tok", th, tg, 0);
                *w.tok[th] = std::move(*w.tok[tg]);
                ret(a, 0);
            }
            break;
        case 10:
            call(a, "possible_tok", th, 0, 0);
            ret(a, w.tok[th]->stop_possible() ? 1 : 0);
            break;
        case 11:
            call(a, "requested_tok", th, 0, 0);
            ret(a, w.tok[th]->stop_requested() ? 1 : 0);
            break;
        case 12:
            if (R.chance(1, 2))
            {
                call(a, "possible_src", h, 0, 0);
                ret(a, w.src[h]->stop_possible() ? 1 : 0);
            }
            else
            {
                call(a, "requested_src", h, 0, 0);
                ret(a, w.src[h]->stop_requested() ? 1 : 0);
            }
            break;
        case 13:
            if (R.chance(1, 3))
            {
                call(a, "request_stop", h, 0, 0);
                bool r = w.src[h]->request_stop();
                ret(a, r ? 1 : 0);
            }
            break;
        }
    }
    if (!epilogue) return;
    // make sure handle operations between sources that SHARE a state occur: copy one, move-assign it
    // onto its origin (what std::vector<stop_source>::erase does)
    for (int h = 1; h <= NSRC; ++h)
        for (int g = 1; g <= NSRC; ++g)
            if (h != g && w.mirror_src[h] != 0 && w.mirror_src[g] == 0 && R.chance(1, 3))
            {
                call(a, "copy_src", g, h, 0);
                w.src[g].reset();
                w.src[g].emplace(*w.src[h]);
                w.mirror_src[g] = w.mirror_src[h];
                ret(a, 0);
                call(a, "moveassign_src", h, g, 0);
                *w.src[h] = std::move(*w.src[g]);
                w.mirror_src[h] = w.mirror_src[g];
                w.mirror_src[g] = 0;
                ret(a, 0);
            }
    // epilogue: every source goes away, then every token is asked - a source count that the handle
    // operations above left too high (or too low) shows here
    for (int h = 1; h <= NSRC; ++h)
    {
        call(a, "destroy_src", h, 0, 0);
        w.src[h].reset();
        w.src[h].emplace(pika::nostopstate);
        w.mirror_src[h] = 0;
        ret(a, 0);
    }
    for (int th = 1; th <= NTOK; ++th)
    {
        call(a, "possible_tok", th, 0, 0);
        ret(a, w.tok[th]->stop_possible() ? 1 : 0);
        call(a, "requested_tok", th, 0, 0);
        ret(a, w.tok[th]->stop_requested() ? 1 : 0);
    }
}

int main(int argc, char** argv)
{
    if (argc < 5) return 2;
    std::string path = argv[1];
    std::uint64_t seed = std::strtoull(argv[2], nullptr, 10);
    int nhist = std::atoi(argv[3]);
    int perturb = std::atoi(argv[4]);
    vlog::init(path);
    vlog::start_watchdog(120000);
    if (perturb) vctl::install(seed, 40, 100, 250, "st.");
    pika::verif::exchange_hook(&monitor_hook);

    std::vector<char*> av;
    av.push_back(argv[0]);
    for (int i = 5; i < argc; ++i) av.push_back(argv[i]);
    int ac = (int) av.size();
    pika::start(ac, av.data());

    vlog::rng R(seed * 104729 + 7);
    bool hung = false;

    for (int hi = 0; hi < nhist && !hung; ++hi)
    {
        auto wp = std::make_unique<world>();
        world& w = *wp;
        vact::set(9);
        bool concurrent = !R.chance(1, 3);
        if (!concurrent)
        {
            handle_phase(w, R, 9, 10 + (int) R.below(14));
        }
        else
        {
            // setup by the driver (actor 9): one state shared by source slots 1..3 (+4 sometimes a
            // second state), token 1 on it
            call(9, "new_src", 1, 0, 0);
            w.src[1].reset();
            w.src[1].emplace();
            ret(9, 0);
            for (int h = 2; h <= 3; ++h)
            {
                call(9, "copy_src", h, 1, 0);
                w.src[h].reset();
                w.src[h].emplace(*w.src[1]);
                ret(9, 0);
            }
            call(9, "get_token", 1, 1, 0);
            *w.tok[1] = w.src[1]->get_token();
            ret(9, 0);
            bool pre_requested = R.chance(1, 6);
            if (pre_requested)
            {
                call(9, "request_stop", 1, 0, 0);
                bool r = w.src[1]->request_stop();
                ret(9, r ? 1 : 0);
            }
            bool drop_sources = !pre_requested && R.chance(1, 8);

            int nact = 2 + (int) R.below(2);
            // race: four actors, every one of them requests stop while callbacks are being registered
            // and deregistered around it (requesters that find the lock bit taken by a registration)
            bool race = !drop_sources && R.chance(1, 3);
            if (race) nact = 4;
            // callbacks: each has one creator; a destroyer (another actor, the creator, a callback
            // body, or the final drain)
            int creator[NCB + 1] = {0}, destroyer[NCB + 1] = {0};
            for (int c = 1; c <= NCB; ++c)
            {
                creator[c] = 1 + (int) R.below(nact);
                int d = (int) R.below(4);
                destroyer[c] = d == 0 ? 0 : 1 + (int) R.below(nact);    // 0 = drain / callback body
                w.cb_behaviour[c] = (int) R.below(5);                   // 4 = plain too
                if (w.cb_behaviour[c] == 4) w.cb_behaviour[c] = 0;
                w.cb_victim[c] = 1 + (int) R.below(NCB);
            }
            // a victim of a nested destroy must not have another destroyer; at most one callback
            // body targets a given victim
            bool targeted[NCB + 1] = {false};
            for (int c = 1; c <= NCB; ++c)
                if (w.cb_behaviour[c] == 2)
                {
                    int v = w.cb_victim[c];
                    if (v == c || targeted[v] || w.cb_behaviour[v] == 3) w.cb_behaviour[c] = 1;
                    else
                    {
                        targeted[v] = true;
                        destroyer[v] = 0;
                    }
                }
            for (int c = 1; c <= NCB; ++c)
                if (w.cb_behaviour[c] == 3) destroyer[c] = 0;

            // chase: one actor registers all callbacks and requests stop, the other destroys the callbacks in
            // the order in which request_stop runs them (newest first), each one right when the previous one has
            // begun - the destructor's lock attempt meets request_stop between two callbacks
            bool chase = !drop_sources && !race && !pre_requested && R.chance(1, 3);
            if (chase)
            {
                nact = 2;
                for (int c = 1; c <= NCBX; ++c) w.cb_behaviour[c] = 0;
            }
            std::vector<std::vector<opdesc>> scripts(nact + 1);
            std::vector<bool> on_pika(nact + 1);
            if (chase)
            {
                for (int c = 1; c <= NCBX; ++c) scripts[1].push_back({o_make, 1, 0, c});
                scripts[1].push_back({o_chase_request, 1, 0, 0});
                // the destroyer either waits for the previous callback to begin (plus a swept delay) or simply
                // destroys one callback after the other as fast as it can
                int mode = (int) R.below(2);
                for (int c = NCBX; c >= 1; --c)
                    scripts[2].push_back({o_chase_destroy, mode, mode ? 0 : (int) R.below(700), c});
            }
            for (int a = 1; a <= nact && !chase; ++a)
            {
                // actors 1,2 are pika tasks, 3,4 are OS threads (see StopTrace.cfg OsActor)
                std::vector<opdesc>& s = scripts[a];
                for (int c = 1; c <= NCB; ++c)
                    if (creator[c] == a) s.push_back({o_make, 1, 0, c});
                if (!drop_sources && (race || R.chance(3, 4))) s.push_back({o_request, a <= 3 ? a : 1, 0, 0});
                if (drop_sources) s.push_back({o_destroy_src, a <= 3 ? a : 0, 0, 0});
                for (int c = 1; c <= NCB; ++c)
                    if (destroyer[c] == a) s.push_back({o_destroy_cb, 0, 0, c});
                s.push_back({R.chance(1, 2) ? o_req_tok : o_pos_tok, 1, 0, 0});
                // shuffle
                for (std::size_t i = s.size(); i > 1; --i) std::swap(s[i - 1], s[R.below(i)]);
                int ny = (int) R.below(3);
                for (int i = 0; i < ny; ++i)
                    s.insert(s.begin() + (long) R.below(s.size() + 1), opdesc{o_yield, 0, 0, 0});
            }
            // which concrete actor ids: choose kind per actor
            int ids[5] = {0, 0, 0, 0, 0};
            int next_pika = 1, next_os = 3;
            for (int a = 1; a <= nact; ++a)
            {
                bool pk = R.chance(1, 2);
                if (pk && next_pika <= 2) ids[a] = next_pika++;
                else if (next_os <= 4) ids[a] = next_os++;
                else ids[a] = next_pika++;
                on_pika[a] = ids[a] <= 2;
            }
            if (drop_sources && nact < 3)
            {
                // source slot 3 (and the driver's copy) must go too, or stop stays possible
                call(9, "destroy_src", 3, 0, 0);
                w.src[3].reset();
                w.src[3].emplace(pika::nostopstate);
                ret(9, 0);
            }

            std::atomic<int> finished{0};
            std::atomic<int> go{0};
            std::vector<std::thread> os_threads;
            for (int a = 1; a <= nact; ++a)
            {
                auto body = [&, a] {
                    int id = ids[a];
                    vact::set(id);
                    while (!go.load()) {}
                    for (auto const& o : scripts[a])
                    {
                        switch (o.kind)
                        {
                        case o_yield:
                            if (on_pika[a]) pika::this_thread::yield();
                            else std::this_thread::yield();
                            break;
                        case o_request:
                        {
                            call(id, "request_stop", o.h, 0, 0);
                            bool r = w.src[o.h]->request_stop();
                            ret(id, r ? 1 : 0);
                            break;
                        }
                        case o_chase_request:
                        {
                            call(id, "request_stop", o.h, 0, 0);
                            w.chase_go.store(1, std::memory_order_relaxed);
                            bool r = w.src[o.h]->request_stop();
                            ret(id, r ? 1 : 0);
                            break;
                        }
                        case o_chase_destroy:
                        {
                            auto& trigger = (o.c == NCBX || o.h == 1) ? w.chase_go : w.cb_began[o.c + 1];
                            auto t = std::chrono::steady_clock::now() + std::chrono::milliseconds(30);
                            while (trigger.load(std::memory_order_relaxed) == 0 && std::chrono::steady_clock::now() < t) {}
                            for (int sp = 0; sp < o.g; ++sp) asm volatile("" ::: "memory");
                            destroy_cb(w, id, o.c, true);
                            break;
                        }
                        case o_make: make_cb(w, id, o.c, 1); break;
                        case o_destroy_cb: destroy_cb(w, id, o.c, true); break;
                        case o_destroy_src:
                            if (o.h == 0) break;
                            call(id, "destroy_src", o.h, 0, 0);
                            w.src[o.h].reset();
                            w.src[o.h].emplace(pika::nostopstate);
                            ret(id, 0);
                            break;
                        case o_req_tok:
                            call(id, "requested_tok", 1, 0, 0);
                            ret(id, w.tok[1]->stop_requested() ? 1 : 0);
                            break;
                        case o_pos_tok:
                            call(id, "possible_tok", 1, 0, 0);
                            ret(id, w.tok[1]->stop_possible() ? 1 : 0);
                            break;
                        }
                    }
                    ++finished;
                };
                if (on_pika[a]) ex::execute(ex::thread_pool_scheduler{}, body);
                else os_threads.emplace_back(body);
            }
            go = 1;
            auto t0 = std::chrono::steady_clock::now();
            while (finished.load() < nact)
            {
                std::this_thread::sleep_for(std::chrono::microseconds(200));
                if (std::chrono::steady_clock::now() - t0 > std::chrono::seconds(12))
                {
                    ev("quiescent").done();
                    hung = true;
                    break;
                }
            }
            if (hung)
            {
                vlog::flush();
                _exit(0);
            }
            for (auto& t : os_threads) t.join();
            // drain: the driver (an OS thread) destroys what is left
            vact::set(9);
            for (int c = 1; c <= NCBX; ++c) destroy_cb(w, 9, c, false);
        }
        ev("reset").done();
    }

    pika::finalize();
    pika::stop();
    vlog::flush();
    return 0;
}
