// Actor identity that follows a pika task across worker threads (thread data slot) and falls
// back to a thread_local for plain OS threads.
#pragma once
#include <pika/threading_base/thread_data.hpp>
#include <pika/threading_base/thread_helpers.hpp>

namespace vact {
    inline thread_local int tl_actor = 0;

    __attribute__((noinline)) inline void set(int a)
    {
        if (pika::threads::detail::get_self_ptr())
            pika::threads::detail::set_thread_data(
                pika::threads::detail::get_self_id(), static_cast<std::size_t>(a));
        else
            tl_actor = a;
    }
    __attribute__((noinline)) inline int get()
    {
        if (pika::threads::detail::get_self_ptr())
            return static_cast<int>(
                pika::threads::detail::get_thread_data(pika::threads::detail::get_self_id()));
        return tl_actor;
    }
}    // namespace vact
