// Helpers that look at the runtime from the outside (pool thread counts by state): the quiescence
// watchdog the properties' observe_at lists.
#pragma once
#include <pika/modules/thread_manager.hpp>
#include <pika/runtime/runtime.hpp>
#include <pika/runtime/runtime_fwd.hpp>

#include "vlog.hpp"

namespace vpika {
    struct counts
    {
        long pending, active, suspended, staged, terminated;
    };
    inline pika::threads::detail::thread_manager* g_tm = nullptr;
    // must be called once from a pika task (the runtime pointer is thread-local)
    inline void init_from_task() { g_tm = &pika::detail::get_runtime().get_thread_manager(); }
    inline counts get_counts()
    {
        using pika::threads::detail::thread_schedule_state;
        counts c{-1, -1, -1, -1, -1};
        if (!g_tm) return c;
        auto& tm = *g_tm;
        c.pending = (long) tm.get_thread_count(thread_schedule_state::pending);
        c.active = (long) tm.get_thread_count(thread_schedule_state::active);
        c.suspended = (long) tm.get_thread_count(thread_schedule_state::suspended);
        c.staged = (long) tm.get_thread_count(thread_schedule_state::staged);
        c.terminated = (long) tm.get_thread_count(thread_schedule_state::terminated);
        return c;
    }
    inline void log_quiescent()
    {
        counts c = get_counts();
        vlog::ev("quiescent")
            .i("pending", c.pending)
            .i("active", c.active)
            .i("suspended", c.suspended)
            .i("staged", c.staged)
            .done_t();
    }
}    // namespace vpika
