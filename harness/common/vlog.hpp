// Event log + schedule perturbation controller shared by all conformance harnesses.
//
// * Every record gets a global sequence number from one atomic fetch_add, so the real-time order
//   "return of call X precedes invocation of call Y" is preserved in the log (a call record takes
//   its number before the call starts, a return record after the call has returned).
// * Records are kept in sharded in-memory buffers and written (sorted by seq) by flush(); a
//   terminate / fatal-signal handler flushes too, appending a {"e":"crash"} record, so a crash of
//   the code under test does not truncate the history.
// * The controller is installed behind pika's PIKA_VERIF_POINT hook and injects seeded random
//   delays at the hook sites (widening the few-instruction race windows).
#pragma once

#include <algorithm>
#include <execinfo.h>

#include <atomic>
#include <chrono>
#include <csignal>
#include <cstdint>
#include <cstdio>
#include <cstdlib>
#include <cstring>
#include <exception>
#include <functional>
#include <mutex>
#include <string>
#include <thread>
#include <unistd.h>
#include <vector>

namespace vlog {

    struct rec
    {
        std::uint64_t seq;
        std::string s;
    };

    struct shard
    {
        std::atomic_flag lk = ATOMIC_FLAG_INIT;
        std::vector<rec> v;
        char pad[64];
    };

    inline constexpr int nshards = 64;
    inline shard g_shards[nshards];
    inline std::atomic<std::uint64_t> g_seq{1};
    inline std::string g_path;
    inline std::chrono::steady_clock::time_point g_t0 = std::chrono::steady_clock::now();
    inline std::atomic<bool> g_flushed{false};

    inline std::int64_t now_us()
    {
        return std::chrono::duration_cast<std::chrono::microseconds>(
            std::chrono::steady_clock::now() - g_t0)
            .count();
    }
    inline std::int64_t now_ms() { return now_us() / 1000; }

    inline unsigned shard_index()
    {
        static thread_local unsigned idx = static_cast<unsigned>(
            std::hash<std::thread::id>()(std::this_thread::get_id()) % nshards);
        return idx;
    }

    // with_t: append "t":<microseconds>, sampled *after* the sequence number was taken, so
    // t >= the real time at which the record was ordered
    __attribute__((noinline)) inline std::uint64_t emit_raw(std::string body, bool with_t = false)
    {
        // seq is taken first: the record is ordered at this instant
        std::uint64_t seq = g_seq.fetch_add(1, std::memory_order_seq_cst);
        if (with_t)
        {
            body += ",\"t\":";
            body += std::to_string(now_us());
        }
        shard& sh = g_shards[shard_index()];
        while (sh.lk.test_and_set(std::memory_order_acquire)) {}
        sh.v.push_back(rec{seq, std::move(body)});
        sh.lk.clear(std::memory_order_release);
        return seq;
    }

    // builder:  vlog::ev("call").i("a", 1).s("op", "acquire").done();
    struct ev
    {
        std::string b;
        explicit ev(char const* name)
        {
            b.reserve(96);
            b += "\"e\":\"";
            b += name;
            b += "\"";
        }
        ev& i(char const* k, long long v)
        {
            b += ",\"";
            b += k;
            b += "\":";
            b += std::to_string(v);
            return *this;
        }
        ev& s(char const* k, char const* v)
        {
            b += ",\"";
            b += k;
            b += "\":\"";
            b += v;
            b += "\"";
            return *this;
        }
        ev& s(char const* k, std::string const& v) { return s(k, v.c_str()); }
        ev& bo(char const* k, bool v)
        {
            b += ",\"";
            b += k;
            b += "\":";
            b += v ? "true" : "false";
            return *this;
        }
        // list of ints
        template <typename C>
        ev& li(char const* k, C const& c)
        {
            b += ",\"";
            b += k;
            b += "\":[";
            bool first = true;
            for (auto const& x : c)
            {
                if (!first) b += ",";
                first = false;
                b += std::to_string(static_cast<long long>(x));
            }
            b += "]";
            return *this;
        }
        ev& raw(char const* k, std::string const& json)
        {
            b += ",\"";
            b += k;
            b += "\":";
            b += json;
            return *this;
        }
        std::uint64_t done() { return emit_raw(std::move(b)); }
        std::uint64_t done_t() { return emit_raw(std::move(b), true); }
    };

    inline void flush_to(FILE* f, bool take_locks)
    {
        std::vector<rec const*> all;
        for (auto& sh : g_shards)
        {
            if (take_locks)
                while (sh.lk.test_and_set(std::memory_order_acquire)) {}
            for (auto const& r : sh.v) all.push_back(&r);
        }
        std::sort(all.begin(), all.end(), [](rec const* a, rec const* b) { return a->seq < b->seq; });
        for (auto* r : all) std::fprintf(f, "{\"seq\":%llu,%s}\n", (unsigned long long) r->seq, r->s.c_str());
        if (take_locks)
            for (auto& sh : g_shards) sh.lk.clear(std::memory_order_release);
    }

    inline void flush()
    {
        if (g_flushed.exchange(true)) return;
        FILE* f = g_path.empty() ? stdout : std::fopen(g_path.c_str(), "a");
        if (!f) f = stdout;
        flush_to(f, true);
        std::fflush(f);
        if (f != stdout) std::fclose(f);
        // allow further flushes of new records (append mode): clear buffers
        for (auto& sh : g_shards)
        {
            while (sh.lk.test_and_set(std::memory_order_acquire)) {}
            sh.v.clear();
            sh.lk.clear(std::memory_order_release);
        }
        g_flushed = false;
    }

    inline void crash_flush(char const* why, int sig)
    {
        static std::atomic<bool> once{false};
        if (once.exchange(true)) _exit(70);
        FILE* f = g_path.empty() ? stdout : std::fopen(g_path.c_str(), "a");
        if (!f) f = stdout;
        flush_to(f, false);
        std::fprintf(f, "{\"seq\":%llu,\"e\":\"crash\",\"why\":\"%s\",\"sig\":%d}\n",
            (unsigned long long) g_seq.fetch_add(1), why, sig);
        std::fflush(f);
        if (std::getenv("VERIF_BACKTRACE"))
        {
            // diagnostic aid: raw backtrace on stderr (symbolise with addr2line / gdb)
            void* bt[48];
            int n = ::backtrace(bt, 48);
            ::backtrace_symbols_fd(bt, n, 2);
        }
        _exit(70);
    }

    inline void on_signal(int sig) { crash_flush("signal", sig); }
    inline void on_terminate() { crash_flush("terminate", 0); }

    inline void init(std::string path)
    {
        g_path = std::move(path);
        if (!g_path.empty())
        {
            FILE* f = std::fopen(g_path.c_str(), "w");
            if (f) std::fclose(f);
        }
        g_t0 = std::chrono::steady_clock::now();
        std::set_terminate(on_terminate);
        // a library that calls exit() on an internal error must not lose the history either
        std::atexit([] {
            static bool done = false;
            if (done) return;
            done = true;
            FILE* f = g_path.empty() ? stdout : std::fopen(g_path.c_str(), "a");
            if (!f) return;
            flush_to(f, false);
            std::fprintf(f, "{\"seq\":%llu,\"e\":\"proc_exit\"}\n", (unsigned long long) g_seq.fetch_add(1));
            std::fflush(f);
        });
        for (int s : {SIGSEGV, SIGABRT, SIGBUS, SIGFPE, SIGILL}) std::signal(s, on_signal);
    }

    // ------------------------------------------------------------------------------------------
    // deterministic per-thread PRNG (splitmix64)
    struct rng
    {
        std::uint64_t s;
        explicit rng(std::uint64_t seed)
          : s(seed)
        {
        }
        std::uint64_t next()
        {
            std::uint64_t z = (s += 0x9e3779b97f4a7c15ull);
            z = (z ^ (z >> 30)) * 0xbf58476d1ce4e5b9ull;
            z = (z ^ (z >> 27)) * 0x94d049bb133111ebull;
            return z ^ (z >> 31);
        }
        std::uint64_t below(std::uint64_t n) { return n ? next() % n : 0; }
        bool chance(unsigned num, unsigned den) { return below(den) < num; }
    };

    // debugging aid: with VERIF_HANG_PAUSE set, a harness that detected a hang stops here so that a
    // debugger can be attached
    inline void hang_pause()
    {
        if (std::getenv("VERIF_HANG_PAUSE"))
        {
            std::fprintf(stderr, "HANG pid=%d\n", (int) getpid());
            for (;;) ::pause();
        }
    }

    // ------------------------------------------------------------------------------------------
    // watchdog: if the harness writes no record for `ms` milliseconds (no progress - a slow but progressing
    // run on a loaded machine is not a hang), write a {"e":"hang"} record, flush, exit 3
    inline void start_watchdog(int ms)
    {
        std::thread([ms] {
            std::uint64_t last = g_seq.load();
            auto t0 = std::chrono::steady_clock::now();
            for (;;)
            {
                std::this_thread::sleep_for(std::chrono::milliseconds(250));
                std::uint64_t cur = g_seq.load();
                auto now = std::chrono::steady_clock::now();
                if (cur != last)
                {
                    last = cur;
                    t0 = now;
                    continue;
                }
                if (now - t0 < std::chrono::milliseconds(ms)) continue;
                ev("hang").i("ms", ms).done();
                FILE* f = g_path.empty() ? stdout : std::fopen(g_path.c_str(), "a");
                if (!f) f = stdout;
                flush_to(f, false);
                std::fflush(f);
                _exit(3);
            }
        }).detach();
    }

}    // namespace vlog

#if defined(PIKA_VERIF)
# include <pika/config/verif_point.hpp>

namespace vctl {
    // Seeded random perturbation at hook sites. Site filter: a prefix list (comma separated) or
    // empty = all sites. Delay: with probability num/den, either sched_yield, a short busy spin
    // or a sleep of up to max_us microseconds.
    inline std::atomic<std::uint64_t> g_seed{0};
    inline std::atomic<unsigned> g_num{0}, g_den{100}, g_max_us{200};
    inline char g_filter[256] = "";
    // "hot" sites: a second, usually longer and more likely, delay distribution for a few sites whose window
    // needs a whole task to run in between (e.g. between a new task becoming visible and its bookkeeping)
    inline char g_hot[128] = "";
    inline std::atomic<unsigned> g_hot_num{0}, g_hot_max_us{0};
    inline std::atomic<std::uint64_t> g_hits{0}, g_delays{0};

    inline bool site_selected(char const* site)
    {
        if (!g_filter[0]) return true;
        char const* p = g_filter;
        while (*p)
        {
            char const* q = std::strchr(p, ',');
            std::size_t n = q ? static_cast<std::size_t>(q - p) : std::strlen(p);
            if (n && std::strncmp(site, p, n) == 0) return true;
            if (!q) break;
            p = q + 1;
        }
        return false;
    }

    inline void perturb(char const* site, void const*, std::uint64_t, std::uint64_t) noexcept
    {
        g_hits.fetch_add(1, std::memory_order_relaxed);
        if (!g_num.load(std::memory_order_relaxed)) return;
        if (!site_selected(site)) return;
        static thread_local vlog::rng r(g_seed.load() ^
            (std::hash<std::thread::id>()(std::this_thread::get_id()) * 0x9e3779b97f4a7c15ull));
        bool hot = g_hot[0] && std::strncmp(site, g_hot, std::strlen(g_hot)) == 0;
        if (!r.chance(hot ? g_hot_num.load(std::memory_order_relaxed) : g_num.load(std::memory_order_relaxed),
                g_den.load(std::memory_order_relaxed)))
            return;
        g_delays.fetch_add(1, std::memory_order_relaxed);
        unsigned kind = static_cast<unsigned>(r.below(4));
        unsigned us = static_cast<unsigned>(r.below(
            (hot ? g_hot_max_us.load(std::memory_order_relaxed) : g_max_us.load(std::memory_order_relaxed)) + 1));
        if (hot) kind = 2;
        if (kind == 0) { sched_yield(); }
        else if (kind == 1)
        {
            auto t = std::chrono::steady_clock::now() + std::chrono::microseconds(us % 20);
            while (std::chrono::steady_clock::now() < t) {}
        }
        else { std::this_thread::sleep_for(std::chrono::microseconds(us)); }
    }

    inline void install(std::uint64_t seed, unsigned num, unsigned den, unsigned max_us,
        char const* filter = "")
    {
        g_seed = seed;
        g_num = num;
        g_den = den;
        g_max_us = max_us;
        // the runner can redirect the perturbation to other hook sites (e.g. the state-word hooks)
        if (char const* e = std::getenv("VERIF_PERTURB_SITES")) filter = e;
        if (char const* e = std::getenv("VERIF_PERTURB_MAXUS")) g_max_us = (unsigned) std::atoi(e);
        if (char const* e = std::getenv("VERIF_PERTURB_PCT")) g_num = (unsigned) std::atoi(e);
        std::strncpy(g_filter, filter ? filter : "", sizeof(g_filter) - 1);
        pika::verif::exchange_hook(&perturb);
    }
    inline void hot(char const* site_prefix, unsigned num, unsigned max_us)
    {
        std::strncpy(g_hot, site_prefix, sizeof(g_hot) - 1);
        g_hot_num = num;
        g_hot_max_us = max_us;
    }
    inline void uninstall() { pika::verif::exchange_hook(nullptr); }
}    // namespace vctl
#endif
