#include <pika/execution.hpp>
#include <pika/init.hpp>
#include <pika/thread.hpp>
#include <pika/execution_base/this_thread.hpp>
#include <atomic>
#include <cstdio>
#include <thread>
#include <chrono>
namespace ex = pika::execution::experimental;
int main(int argc, char** argv)
{
    pika::start(argc, argv);
    std::atomic<int> flag{0}, done{0};
    std::atomic<long> spins{0};
    int nspin = 3;
    for (int i = 0; i < nspin; ++i)
        ex::execute(ex::thread_pool_scheduler{}, [&] { while (!flag.load()) { pika::this_thread::yield(); ++spins; } ++done; });
    ex::execute(ex::thread_pool_scheduler{}, [&] { for (int i = 0; i < 5; ++i) pika::this_thread::yield(); flag = 1; ++done; });
    auto t0 = std::chrono::steady_clock::now();
    while (done.load() < nspin + 1 && std::chrono::steady_clock::now() - t0 < std::chrono::seconds(3)) std::this_thread::sleep_for(std::chrono::milliseconds(1));
    std::printf("done=%d spins=%ld\n", done.load(), spins.load());
    if (done.load() < nspin + 1) _exit(1);
    pika::finalize(); pika::stop();
}
