// C02 conformance harness for the bare suspend / resume path: a target task registers itself as a
// waiter (under a spinlock, like every pika facility does), releases the lock and suspends; a
// waker (pika task on another worker or plain OS thread) pops the registration and resumes the
// agent - possibly before the target has finished switching off its worker.  Histories are
// validated against spec/WakeAbs.tla.
//
// usage: wake_harness <trace.ndjson> <seed> <nhist> <perturb 0|1> [pika options]
#include <pika/execution.hpp>
#include <pika/execution_base/agent_ref.hpp>
#include <pika/execution_base/this_thread.hpp>
#include <pika/init.hpp>
#include <pika/thread.hpp>

#include "vlog.hpp"
#include "vpika.hpp"

#include <atomic>
#include <functional>
#include <chrono>
#include <mutex>
#include <thread>
#include <vector>

namespace ex = pika::execution::experimental;
using vlog::ev;
using clk = std::chrono::steady_clock;

constexpr int MAXR = 6;
struct target_state
{
    pika::concurrency::detail::spinlock mtx;
    pika::execution::detail::agent_ref reg[MAXR + 1];
    bool has_reg[MAXR + 1] = {};
    pika::execution::detail::agent_ref dup_ctx[MAXR + 1];
    std::atomic<int> dup_ready[MAXR + 1];
    std::atomic<int> woken[MAXR + 1];
    std::atomic<int> dup_state[MAXR + 1];    // duplicate waker of a round: 0 none, 1 expected, 2 done
    std::atomic<int> inside{0};              // the target's body is running (double execution detector)
    pika::threads::detail::thread_id_type tid;
    bool waker_os[MAXR + 1] = {};
    bool spawn_inside[MAXR + 1] = {};
    std::function<void()> waker[MAXR + 1];
    target_state()
    {
        for (auto& w : woken) w = 0;
        for (auto& d : dup_state) d = 0;
        for (auto& d : dup_ready) d = 0;
    }
};

// record mode: log every state-word hook event that concerns a target task
static std::atomic<void const*> g_targets[8];
// history number a target slot belongs to: a hook event that is logged late (the logging thread was
// descheduled between matching the target and taking the sequence number) must not be attributed to
// the next history
static std::atomic<int> g_target_epoch[8];
static std::atomic<int> g_epoch{0};
// identity of whoever executes a hooked step: the pika task (helper tasks have no harness actor id)
// or the OS thread; small numbers handed out on first use
static long long actor_key() noexcept
{
    static std::atomic<long long> next{1};
    if (auto* td = pika::threads::detail::get_self_id_data())
    {
        // thread objects are recycled: the key lives in the task's thread-data slot
        std::size_t k = td->get_thread_data();
        if (k >= (std::size_t(1) << 40)) return (long long) (k >> 40);
        long long n = next++;
        td->set_thread_data((std::size_t(n) << 40) | k);
        return n;
    }
    static thread_local long long mine = 0;
    if (!mine) mine = next++;
    return mine;
}
static void record_hook(char const* site, void const* obj, std::uint64_t a, std::uint64_t b) noexcept
{
    int idx = -1, e1 = 0;
    for (int i = 0; i < 8; ++i)
    {
        int e = g_target_epoch[i].load();
        if (obj && g_targets[i].load() == obj)
        {
            idx = i;
            e1 = e;
        }
    }
    if (idx >= 0 && g_target_epoch[idx].load() != e1) idx = -1;
    if (idx >= 0)
        ev("hk").i("ep", e1).s("site", site).i("t", idx + 1).i("a", (long long) (a & 0xffffffffu)).i("ah", (long long) (a >> 32)).i("b", (long long) (b & 0xffffffffu)).i("bh", (long long) (b >> 32)).i("w", (long long) pika::get_worker_thread_num()).i("k", actor_key()).done();
    vctl::perturb(site, obj, a, b);
}

int main(int argc, char** argv)
{
    if (argc < 5) return 2;
    vlog::init(argv[1]);
    std::uint64_t seed = std::strtoull(argv[2], nullptr, 10);
    int nhist = std::atoi(argv[3]);
    int perturb = std::atoi(argv[4]);
    vlog::start_watchdog(150000);
    if (perturb) vctl::install(seed, 30, 100, 300, "agent.yield,sl.run.end,sl.store,sts.,sas.");
    bool record = std::getenv("VERIF_RECORD_HOOKS") != nullptr;
    if (record) pika::verif::exchange_hook(&record_hook);
    std::vector<char*> av;
    av.push_back(argv[0]);
    for (int i = 5; i < argc; ++i) av.push_back(argv[i]);
    int ac = (int) av.size();
    pika::start(ac, av.data());
    vlog::rng R(seed * 69069 + 5);
    {
        std::atomic<int> ok{0};
        ex::execute(ex::thread_pool_scheduler{}, [&] {
            vpika::init_from_task();
            ok = 1;
        });
        while (!ok.load()) std::this_thread::yield();
    }

    for (int h = 0; h < nhist; ++h)
    {
        int ntargets = 1 + (int) R.below(3);
        int rounds = 1 + (int) R.below(4);
        if (record)
        {
            // step-level mode: one target, a fixed number of wait rounds (spec/WakeStepTrace.tla)
            ntargets = 1;
            rounds = 3;
        }
        ev("init").i("targets", ntargets).i("rounds", rounds).i("ep", ++g_epoch).done();
        std::vector<std::unique_ptr<target_state>> ts;
        for (int t = 0; t < ntargets; ++t) ts.push_back(std::make_unique<target_state>());
        std::atomic<int> finished{0};
        std::atomic<long long> progress{0};
        std::vector<std::thread> os_threads;
        int nactors = 0;
        for (int t = 0; t < ntargets; ++t)
        {
            target_state* S = ts[t].get();
            int body_yields = record ? 0 : (int) R.below(3);
            // one waker per round; kind chosen at random
            for (int i = 1; i <= rounds; ++i)
            {
                bool os = R.chance(1, 3);
                int spin = (int) R.below(4);
                auto waker = [&, S, t, i, os, spin] {
                    // wait for the registration
                    for (;;)
                    {
                        std::unique_lock<pika::concurrency::detail::spinlock> l(S->mtx);
                        if (S->has_reg[i])
                        {
                            auto ctx = S->reg[i];
                            S->has_reg[i] = false;
                            S->dup_ctx[i] = ctx;
                            S->dup_ready[i] = 1;
                            ev("wake").i("t", t + 1).i("r", i).i("os", os).i("k", record ? actor_key() : 0).done();
                            S->woken[i] = 1;
                            for (int s = 0; s < spin * 50; ++s) asm volatile("" ::: "memory");
                            ctx.resume();    // under the lock, like condition_variable::notify_one
                            ev("wake_done").i("t", t + 1).i("r", i).done();
                            l.unlock();
                            ++progress;
                            break;
                        }
                        l.unlock();
                        std::this_thread::yield();    // only OS threads ever get here
                    }
                    ++finished;
                };
                // a second, independent wake-up of the same wait (like a timer racing the notifier): an OS
                // thread that resumes the same agent at about the same time, outside any lock
                if (!record && R.chance(1, 3))
                {
                    S->dup_state[i] = 1;
                    int dspin = (int) R.below(600);
                    os_threads.emplace_back([&, S, i, dspin] {
                        while (!S->dup_ready[i].load()) {}
                        for (int s = 0; s < dspin; ++s) asm volatile("" ::: "memory");
                        S->dup_ctx[i].resume();
                        S->dup_state[i] = 2;
                        ++finished;
                    });
                    ++nactors;
                }
                ++nactors;
                S->waker_os[i] = os;
                S->spawn_inside[i] = R.chance(1, 2);
                if (os) os_threads.emplace_back(waker);
                else S->waker[i] = waker;
            }
            // the target task
            ++nactors;
            ex::execute(ex::thread_pool_scheduler{}, [&, S, t, rounds, body_yields] {
                S->tid = pika::threads::detail::get_self_id();
                if (record)
                {
                    // from here on every hooked step on this task's state word is logged; the word
                    // as the running task sees it is the initial state of the step-level trace
                    auto st0 = pika::threads::detail::get_thread_id_data(S->tid)->get_state();
                    ev("tstart").i("t", t + 1).i("st", (int) st0.state()).i("tag", st0.tag()).i("w", (long long) pika::get_worker_thread_num()).done();
                }
                g_target_epoch[t] = g_epoch.load();
                g_targets[t] = pika::threads::detail::get_thread_id_data(S->tid);
                for (int i = 1; i <= rounds; ++i)
                {
                    for (int y = 0; y < body_yields; ++y) pika::this_thread::yield();
                    {
                        std::lock_guard<pika::concurrency::detail::spinlock> l(S->mtx);
                        S->reg[i] = pika::execution::this_thread::detail::agent();
                        S->has_reg[i] = true;
                        ev("register").i("t", t + 1).i("r", i).i("w", (long long) pika::get_worker_thread_num()).done();
                        // a pika-task waker is created by the target itself (no task ever polls:
                        // tasks that busy-yield can starve a wake-up issued from another thread,
                        // see DESIGN.md); sometimes before, sometimes after releasing the lock
                        if (!S->waker_os[i] && S->spawn_inside[i])
                            ex::execute(ex::thread_pool_scheduler{}, S->waker[i]);
                    }
                    if (!S->waker_os[i] && !S->spawn_inside[i])
                        ex::execute(ex::thread_pool_scheduler{}, S->waker[i]);
                    // the lock is released: the waker may pop and resume from here on.  Like
                    // condition_variable::wait we always suspend at least once per registration
                    // (the waker resumes exactly once), re-suspend after a spurious resume, and
                    // re-take the lock afterwards (the waker resumes while holding it, so the
                    // agent stays valid until resume() has returned)
                    do {
                        ev("suspend").i("t", t + 1).i("r", i).done();
                        S->inside = 0;
                        pika::execution::this_thread::detail::suspend("wake_harness");
                        if (S->inside.exchange(1) != 0) ev("double_run").i("t", t + 1).i("r", i).done();
                        ++progress;
                    } while (!S->woken[i].load());
                    // the round ends only when the duplicate waker, if any, is done with the agent (its
                    // resume may have been absorbed by the notifier's: it must not be waited for by
                    // suspending; the waker is a plain OS thread, so this short spin cannot starve it)
                    while (S->dup_state[i].load() == 1) {}
                    {
                        std::lock_guard<pika::concurrency::detail::spinlock> l(S->mtx);
                    }
                    ev("resumed").i("t", t + 1).i("r", i).done();
                    ++progress;
                }
                ++finished;
            });
        }
        long long last = -1;
        auto last_change = clk::now();
        bool hung = false;
        while (finished.load() < nactors)
        {
            std::this_thread::sleep_for(std::chrono::microseconds(300));
            long long p = progress.load();
            if (p != last)
            {
                last = p;
                last_change = clk::now();
            }
            else if (clk::now() - last_change > std::chrono::seconds(12))
            {
                vpika::log_quiescent();
                for (int t = 0; t < ntargets; ++t)
                {
                    auto st = pika::threads::detail::get_thread_id_data(ts[t]->tid)->get_state();
                    ev("tstate").i("t", t + 1).i("st", (int) st.state()).i("tag", st.tag()).done();
                }
                hung = true;
                break;
            }
        }
        if (hung)
        {
            vlog::flush();
            vlog::hang_pause();
            _exit(0);
        }
        for (auto& th : os_threads) th.join();
        for (auto& g : g_targets) g = nullptr;
        ev("reset").done();
    }
    pika::finalize();
    pika::stop();
    vlog::flush();
    return 0;
}
