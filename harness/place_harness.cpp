// C10 conformance harness: three pools (default: local-priority, "s": static, "t": abp) and the
// std_thread_scheduler; random pipelines of schedule / continues_on / transfer_just / execute / bulk
// crossing the pools, hinted multi-phase tasks on the static pool, submitted from inside and
// outside the runtime.  Every callable logs where it runs; validated against spec/PlaceAbs.tla.
//
// usage: place_harness <trace.ndjson> <seed> <nhist> <perturb 0|1>
#include <pika/execution.hpp>
#include <pika/init.hpp>
#include <pika/modules/resource_partitioner.hpp>
#include <pika/semaphore.hpp>
#include <pika/thread.hpp>
#include <pika/execution_base/this_thread.hpp>
#include <pika/threading_base/scheduler_base.hpp>
#include <pika/threading_base/scheduler_mode.hpp>
#include <pika/threading_base/thread_pool_base.hpp>

#include "vlog.hpp"

#include <sys/syscall.h>
#include <unistd.h>

#include <atomic>
#include <chrono>
#include <thread>
#include <vector>

namespace ex = pika::execution::experimental;
namespace tt = pika::this_thread::experimental;
using clk = std::chrono::steady_clock;
using vlog::ev;

static long my_tid() { return (long) syscall(SYS_gettid); }
// identity of the execution context: the pika task (if any) and the OS thread.  A callable runs
// "inline" if it executes in the same pika task (or, outside the runtime, on the same OS thread) as
// the code that submitted it.
struct who
{
    std::size_t task;    // unique token of the pika task (0 = not a pika task)
    long tid;
};
// thread objects are recycled, so a task is identified by a token kept in its thread-data slot
// (a freshly bound task starts with data 0 and draws a new token on first use)
static std::atomic<std::size_t> g_token{1};
static who me()
{
    if (!pika::threads::detail::get_self_ptr()) return who{0, my_tid()};
    std::size_t t = pika::this_thread::get_thread_data();
    if (t == 0)
    {
        t = g_token.fetch_add(1);
        pika::this_thread::set_thread_data(t);
    }
    return who{t, my_tid()};
}
static bool same_context(who a, who b) { return a.task ? a.task == b.task : (!b.task && a.tid == b.tid); }
static char const* POOLS[] = {"default", "s", "t"};
static std::atomic<int> g_runs{0};

// id: which callable of the history this is (section * 100 + index; bulk elements add their index * 1000), so
// that a dropped or repeated execution can be attributed
static void log_run(int exp, int hint, int prio, who const* submitter = nullptr, int id = -1)
{
    bool is_inline = submitter && same_context(me(), *submitter);
    bool pk = pika::threads::detail::get_self_ptr() != nullptr;
    char const* pool = "none";
    long w = -1;
    if (pk)
    {
        auto* p = pika::this_thread::get_pool();
        pool = p ? p->get_pool_name().c_str() : "none";
        w = (long) pika::get_local_worker_thread_num();
    }
    ev("run").s("exp", POOLS[exp]).s("pool", pool).i("w", w).i("tid", my_tid()).i("pika", pk).i("inline", is_inline).i("hint", hint).i("prio", prio).i("id", id).done();
    ++g_runs;
}


int main(int argc, char** argv)
{
    if (argc < 5) return 2;
    vlog::init(argv[1]);
    std::uint64_t seed = std::strtoull(argv[2], nullptr, 10);
    int nhist = std::atoi(argv[3]);
    int perturb = std::atoi(argv[4]);
    vlog::start_watchdog(170000);
    if (perturb)
        vctl::install(seed, 25, 100, 250, "tq.,sl.got,sl.active,sl.run.end,sb.select_pu,cv.wait.unlocked,agent.yield,sts.,sas.");
    pika::init_params ip;
    ip.cfg = {"pika.os_threads=7"};
    ip.rp_callback = [&](auto& rp, pika::program_options::variables_map const&) {
        // both non-stealing policies take turns
        rp.create_thread_pool("s",
            seed % 2 ? pika::resource::scheduling_policy::static_priority : pika::resource::scheduling_policy::static_);
        rp.create_thread_pool("t", pika::resource::scheduling_policy::abp_priority_fifo);
        int k = 0;
        for (auto const& d : rp.sockets())
            for (auto const& c : d.cores())
                for (auto const& p : c.pus())
                {
                    if (k >= 2 && k < 5) rp.add_resource(p, "s");
                    else if (k >= 5 && k < 7) rp.add_resource(p, "t");
                    ++k;
                }
    };
    char const* av[] = {argv[0], nullptr};
    pika::start(nullptr, 1, av, ip);
    ex::thread_pool_scheduler sch[3] = {ex::thread_pool_scheduler{&pika::resource::get_thread_pool("default")},
        ex::thread_pool_scheduler{&pika::resource::get_thread_pool("s")},
        ex::thread_pool_scheduler{&pika::resource::get_thread_pool("t")}};
    int const NW[3] = {2, 3, 2};
    vlog::rng R(seed * 40692 + 17);

    for (int hi = 0; hi < nhist; ++hi)
    {
        g_runs = 0;
        int expected_runs = 0;
        // now and then the application switches stealing off and on again for every pool at run time (the usual
        // bracket around a phase that must not migrate); a static policy stays non-stealing through that
        if (R.chance(1, 6))
        {
            using pika::threads::scheduler_mode;
            for (char const* pn : POOLS)
            {
                auto* sc = pika::resource::get_thread_pool(pn).get_scheduler();
                sc->remove_scheduler_mode(scheduler_mode::enable_stealing);
                sc->add_scheduler_mode(scheduler_mode::enable_stealing);
            }
        }
        // 1. a pipeline crossing pools: schedule(p0) | then | continues_on(p1) | then | ... | bulk
        auto pipeline = [&](bool from_task) {
            int nst = 2 + (int) R.below(4);
            int p = (int) R.below(3);
            ex::unique_any_sender<> s;
            // `last` = context in which the previous stage ran (initially: the submitter)
            auto last = std::make_shared<who>(me());
            auto stage = [last](int pool, int id) {
                who prev = *last;
                log_run(pool, -1, 0, &prev, id);
                *last = me();
            };
            if (R.chance(1, 3)) s = ex::transfer_just(sch[p]) | ex::then([stage, p] { stage(p, 100); });
            else s = ex::schedule(sch[p]) | ex::then([stage, p] { stage(p, 100); });
            ++expected_runs;
            for (int i = 1; i < nst; ++i)
            {
                int q = (int) R.below(3);
                int k = (int) R.below(4);
                if (k == 0)
                {
                    int n = 1 + (int) R.below(6);
                    s = std::move(s) | ex::continues_on(sch[q]) | ex::bulk(n, [q, last, i](int k) {
                        log_run(q, -1, 0, nullptr, 100 + i + 1000 * (k + 1));
                        *last = who{0, -1};    // (after a bulk the completing context is one of the chunk tasks)
                    });
                    expected_runs += n;
                }
                else
                {
                    s = std::move(s) | ex::continues_on(sch[q]) | ex::then([stage, q, i] { stage(q, 100 + i); });
                    ++expected_runs;
                }
            }
            (void) from_task;
            tt::sync_wait(std::move(s));
        };
        if (R.chance(1, 2)) pipeline(false);
        else
        {
            // started from a task of some pool (continuation of continues_on must still hop)
            int p = (int) R.below(3);
            std::atomic<int> fin{0};
            {
                who sub = me();
                ex::execute(sch[p], [&, p, sub] {
                    log_run(p, -1, 0, &sub, 190);
                    pipeline(true);
                    fin = 1;
                });
            }
            ++expected_runs;
            while (!fin.load()) std::this_thread::sleep_for(std::chrono::microseconds(100));
        }
        // 2. execute from a worker of the same pool must not run inline
        {
            int p = (int) R.below(3);
            std::atomic<int> fin{0};
            {
                who sub = me();
                ex::execute(sch[p], [&, p, sub] {
                    log_run(p, -1, 0, &sub, 201);
                    who sub2 = me();
                    ex::execute(sch[p], [&, p, sub2] {
                        log_run(p, -1, 0, &sub2, 202);
                        fin = 1;
                    });
                });
            }
            expected_runs += 2;
            while (!fin.load()) std::this_thread::sleep_for(std::chrono::microseconds(100));
        }
        // 3. hinted multi-phase tasks on the static pool (every phase on the hinted worker), and on
        //    the stealing pools (any worker of the pool), high priority ones too
        {
            int nt = 2 + (int) R.below(5);
            std::atomic<int> fin{0};
            // between phases a task either yields or blocks on a semaphore that this (non-pika)
            // thread releases - possibly while the task is still switching off its worker
            std::vector<std::unique_ptr<pika::counting_semaphore<>>> sems;
            std::vector<int> nblocks(nt, 0);
            // about[i]: how many times task i has announced that it is about to block
            std::vector<std::unique_ptr<std::atomic<int>>> about;
            for (int i = 0; i < nt; ++i) about.push_back(std::make_unique<std::atomic<int>>(0));
            for (int i = 0; i < nt; ++i) sems.push_back(std::make_unique<pika::counting_semaphore<>>(0));
            // sometimes all hinted tasks of the static pool go to ONE worker that is kept busy by a
            // non-yielding task while its neighbours are idle (nobody may take them over)
            int busy_hint = R.chance(1, 3) ? (int) R.below(NW[1]) : -1;
            if (busy_hint >= 0)
            {
                ++nt;
                sems.push_back(std::make_unique<pika::counting_semaphore<>>(0));
                about.push_back(std::make_unique<std::atomic<int>>(0));
                nblocks.push_back(0);
                auto sb = ex::with_hint(sch[1],
                    pika::execution::thread_schedule_hint(
                        pika::execution::thread_schedule_hint_mode::thread, (std::int16_t) busy_hint));
                expected_runs += 1;
                who sub = me();
                int spin_us = 200 + (int) R.below(400);
                ex::execute(sb, [&, busy_hint, sub, spin_us] {
                    log_run(1, busy_hint, 0, &sub, 399);
                    auto t = clk::now() + std::chrono::microseconds(spin_us);
                    while (clk::now() < t) {}
                    ++fin;
                });
            }
            for (int i = 0; i < nt - (busy_hint >= 0 ? 1 : 0); ++i)
            {
                int p = R.chance(2, 3) ? 1 : (int) R.below(3);
                int hint = (int) R.below(NW[p]);
                if (busy_hint >= 0 && p == 1) hint = busy_hint;
                int prio = R.chance(1, 5) ? 1 : 0;
                int phases = 1 + (int) R.below(4);
                bool blocking = R.chance(1, 2);
                // between phases a non-blocking task either yields once or backs off the way contended spinlocks,
                // barriers and yield_while do: from the 16th round on with the "pending_boost" state
                int boost = (!blocking && R.chance(1, 2)) ? 17 + (int) R.below(30) : 0;
                if (blocking) nblocks[i] = phases - 1;
                auto s1 = ex::with_hint(sch[p],
                    pika::execution::thread_schedule_hint(
                        pika::execution::thread_schedule_hint_mode::thread, (std::int16_t) hint));
                auto s2 = ex::with_priority(s1,
                    prio ? pika::execution::thread_priority::high : pika::execution::thread_priority::normal);
                expected_runs += phases;
                who sub = me();
                auto* sem = sems[i].get();
                auto* ab = about[i].get();
                ex::execute(s2, [&, i, p, hint, prio, phases, sub, blocking, sem, ab, boost] {
                    for (int ph = 0; ph < phases; ++ph)
                    {
                        log_run(p, hint, prio, &sub, 300 + i + 1000 * ph);
                        if (ph + 1 < phases)
                        {
                            if (blocking)
                            {
                                ++*ab;
                                sem->acquire();
                            }
                            else if (boost > 0)
                            {
                                int left = boost;
                                pika::util::yield_while([&left] { return --left > 0; }, "place_harness");
                            }
                            else pika::this_thread::yield();
                        }
                    }
                    ++fin;
                });
            }
            {
                // release the blocked tasks one permit at a time; usually right when the task is about to
                // block, so that the wake-up finds it registered but still switching off its worker
                std::vector<int> released(nt, 0);
                bool more = true;
                auto t0 = clk::now();
                while (more && clk::now() - t0 < std::chrono::seconds(10))
                {
                    more = false;
                    for (int i = 0; i < nt; ++i)
                        if (nblocks[i] > 0)
                        {
                            more = true;
                            bool aligned = R.chance(3, 4);
                            if (aligned && about[i]->load() <= released[i]) continue;    // not there yet
                            for (int sp = (int) R.below(aligned ? 4000 : 200); sp > 0; --sp) asm volatile("" ::: "memory");
                            sems[i]->release();
                            ++released[i];
                            --nblocks[i];
                        }
                }
                // (give-up path of the loop above: release whatever is left)
                for (int i = 0; i < nt; ++i)
                    for (; nblocks[i] > 0; --nblocks[i]) sems[i]->release();
            }
            while (fin.load() < nt) std::this_thread::sleep_for(std::chrono::microseconds(100));
        }
        // 4. std_thread_scheduler: a fresh non-pika thread
        if (R.chance(1, 2))
        {
            long stid = my_tid();
            tt::sync_wait(ex::schedule(ex::std_thread_scheduler{}) | ex::then([stid] {
                ev("runstd").i("tid", my_tid()).i("pika", pika::threads::detail::get_self_ptr() != nullptr).i("inline", 0).i("stid", stid).done();
            }));
        }
        (void) expected_runs;
        ev("reset").i("runs", g_runs.load()).i("expected", expected_runs).done();
    }
    pika::finalize();
    pika::stop();
    vlog::flush();
    return 0;
}
