// C20 conformance harness: single rank, self-addressed messages.  N receives are posted through
// pika's transform_mpi adaptor (all completion modes, polling enabled/disabled in balanced pairs),
// the matching messages are sent later one at a time, every continuation checks that its message
// had been sent and that the payload is visible, and pika::wait() is called while requests are
// still in flight.  Histories are validated against spec/MpiAbs.tla.
//
// usage: mpi_harness <trace.ndjson> <seed> <nhist> <perturb 0|1> [pika options]
#include <pika/execution.hpp>
#include <pika/init.hpp>
#include <pika/mpi.hpp>
#include <pika/thread.hpp>

#include "vlog.hpp"

#include <mpi.h>

#include <atomic>
#include <chrono>
#include <memory>
#include <string>
#include <thread>
#include <vector>

namespace ex = pika::execution::experimental;
namespace tt = pika::this_thread::experimental;
namespace mpi = pika::mpi::experimental;
using vlog::ev;
using clk = std::chrono::steady_clock;

struct slot
{
    std::vector<int> buf;
    std::atomic<int> sent{0};
    std::atomic<int> signalled{0};
};

int main(int argc, char** argv)
{
    if (argc < 5) return 2;
    vlog::init(argv[1]);
    std::uint64_t seed = std::strtoull(argv[2], nullptr, 10);
    int nhist = std::atoi(argv[3]);
    int perturb = std::atoi(argv[4]);
    vlog::start_watchdog(45000);
    if (perturb) vctl::install(seed, 20, 100, 150, "mpi.,gac.,agent.yield,sl.run.end,sts.");
    int provided = 0;
    MPI_Init_thread(&argc, &argv, MPI_THREAD_MULTIPLE, &provided);
    std::vector<char*> av;
    av.push_back(argv[0]);
    bool with_pool = false;
    for (int i = 5; i < argc; ++i)
    {
        if (std::string(argv[i]) == "--verif-mpi-pool") with_pool = true;
        else av.push_back(argv[i]);
    }
    int ac = (int) av.size();
    pika::init_params ip;
    if (with_pool)
    {
        // a dedicated single-worker polling pool (on one rank pika would decide not to create it, so it
        // is forced, the way pika's own pool_creation test does)
        ip.rp_callback = [](pika::resource::partitioner& rp, pika::program_options::variables_map const&) {
            mpi::detail::create_pool(rp, "", mpi::polling_pool_creation_mode::mode_force_create);
        };
    }
    pika::start(nullptr, ac, av.data(), ip);
    int const pool_on = mpi::detail::get_pool_enabled() ? 1 : 0;
    vlog::rng R(seed * 1566083941 + 9);
    MPI_Comm comm = MPI_COMM_WORLD;

    for (int hi = 0; hi < nhist; ++hi)
    {
        // completion mode: method (0..3) * 8 + flag bits (request_inline, completion_inline, high_priority)
        int method = (int) R.below(4);
        int flags = (int) R.below(8);
        int mode = method * 8 + flags;
        if (char const* fm = std::getenv("VERIF_MPI_MODE")) mode = std::atoi(fm);
        static int const NS[] = {1, 2, 8, 31, 32, 33, 48, 5, 64, 3};
        int n = NS[R.below(10)];
        int len = R.chance(1, 4) ? 4096 : (int) (1 + R.below(16));
        if (char const* fn = std::getenv("VERIF_MPI_N")) n = std::atoi(fn);
        if (char const* fl = std::getenv("VERIF_MPI_LEN")) len = std::atoi(fl);
        bool use_wait = R.chance(3, 4);
        int slow = R.chance(1, 2) ? 100 + (int) R.below(1500) : 0;
        ev("init").i("mode", mode).i("n", n).i("len", len).i("pool", pool_on).done();
        mpi::detail::set_completion_mode((std::size_t) mode);
        std::vector<std::unique_ptr<slot>> slots;
        for (int k = 0; k < n; ++k)
        {
            auto s = std::make_unique<slot>();
            s->buf.assign(len, -1);
            slots.push_back(std::move(s));
        }
        std::atomic<int> nsig{0};
        std::atomic<int> posted{0};
        {
            // polling is enabled from a pika task for the duration of the history; no task of the
            // harness stays alive meanwhile, so that pika::wait() depends on the MPI requests alone
            std::unique_ptr<mpi::enable_polling> ep;
            tt::sync_wait(ex::schedule(ex::thread_pool_scheduler{}) | ex::then([&] {
                ep = std::make_unique<mpi::enable_polling>();
                // every request is posted by its own task: in the yield_while / suspend_resume
                // modes the posting task itself waits for the completion
                for (int k = 0; k < n; ++k)
                {
                    slot* s = slots[k].get();
                    ex::execute(ex::thread_pool_scheduler{}, [s, k, len, comm, &nsig, &posted, slow] {
                        ev("post").i("k", k + 1).done();
                        ++posted;
                        auto snd = mpi::transform_mpi(
                                       ex::just(s->buf.data(), len, MPI_INT, 0, 1000 + k, comm), MPI_Irecv) |
                            ex::then([s, k, len, &nsig, slow](auto&&...) {
                                // a continuation that takes its time: pika::wait() must still wait for it
                                if (slow)
                                {
                                    auto t = clk::now() + std::chrono::microseconds(50 + (k * 37) % slow);
                                    while (clk::now() < t) {}
                                }
                                bool ok = s->sent.load() == 1;
                                for (int j = 0; j < len && ok; ++j) ok = s->buf[j] == k * 7 + j;
                                ev("signal").i("k", k + 1).i("ok", ok).done();
                                ++s->signalled;
                                ++nsig;
                            });
                        ex::start_detached(std::move(snd));
                    });
                }
            }));
            auto t0 = clk::now();
            while (posted.load() < n && clk::now() - t0 < std::chrono::seconds(20))
                std::this_thread::sleep_for(std::chrono::microseconds(200));
            std::this_thread::sleep_for(std::chrono::milliseconds(1));    // let the Irecvs be issued
            std::thread waiter;
            std::atomic<int> wait_done{0};
            if (use_wait)
            {
                // pika::wait() from outside while all requests are still in flight
                waiter = std::thread([&] {
                    ev("wait_call").done();
                    pika::wait();
                    ev("wait_ret").done();
                    wait_done = 1;
                });
                std::this_thread::sleep_for(std::chrono::milliseconds(2));
            }
            // send the messages, newest first or in random order, one at a time
            std::vector<int> order(n);
            bool newest_first = R.chance(1, 2);
            for (int k = 0; k < n; ++k) order[k] = newest_first ? n - 1 - k : k;
            if (R.chance(1, 3))
                for (int k = n; k > 1; --k) std::swap(order[k - 1], order[R.below(k)]);
            for (int k : order)
            {
                slot* s = slots[k].get();
                std::vector<int> msg(len);
                for (int j = 0; j < len; ++j) msg[j] = k * 7 + j;
                ev("send").i("k", k + 1).done();
                s->sent = 1;
                MPI_Send(msg.data(), len, MPI_INT, 0, 1000 + k, comm);
                if (R.chance(1, 3)) std::this_thread::sleep_for(std::chrono::microseconds(100));
            }
            t0 = clk::now();
            while ((nsig.load() < n || (use_wait && !wait_done.load())) &&
                clk::now() - t0 < std::chrono::seconds(10))
                std::this_thread::sleep_for(std::chrono::microseconds(200));
            if (nsig.load() < n || (use_wait && !wait_done.load()))
            {
                ev("quiescent").i("signalled", nsig.load()).i("n", n).done();
                vlog::flush();
                vlog::hang_pause();
                _exit(0);
            }
            if (waiter.joinable()) waiter.join();
            tt::sync_wait(ex::schedule(ex::thread_pool_scheduler{}) | ex::then([&] { ep.reset(); }));
            // a late second signal would show up here
            std::this_thread::sleep_for(std::chrono::microseconds(300));
        }
        ev("reset").done();
        vlog::flush();
    }
    pika::finalize();
    pika::stop();
    MPI_Finalize();
    vlog::flush();
    return 0;
}
