// C13 conformance harness: pika::thread / pika::jthread handles driven by owner tasks (spawn,
// interrupt, request_stop, exit callbacks, join / detach / destroy at varying times) with bodies
// that return immediately, yield, block, watch a stop token or use interruption points.
// Histories are validated against spec/ThreadAbs.tla.
//
// usage: thread_harness <trace.ndjson> <seed> <nhist> <perturb 0|1> [pika options]
#include <pika/execution.hpp>
#include <pika/init.hpp>
#include <pika/semaphore.hpp>
#include <pika/thread.hpp>
#include <pika/threading/jthread.hpp>

#include "vlog.hpp"

#include <atomic>
#include <chrono>
#include <memory>
#include <optional>
#include <thread>
#include <vector>

namespace ex = pika::execution::experimental;
using vlog::ev;
using clk = std::chrono::steady_clock;

static void call(int a, char const* op, int h) { ev("call").i("a", a).s("op", op).i("h", h).done(); }
static void ret(int a, long r) { ev("ret").i("a", a).i("res", r).done(); }

struct hdesc
{
    int body;        // 0 immediate 1 yields+ipoints 2 blocks on semaphore 3 stop-aware 4 nested 5 disable scope
    int yields;
    bool jthread;
    int pre_join_yields;
    int end;         // 0 join 1 detach 2 join twice 3 destroy (jthread) 4 joinable then join
    bool interrupt;
    bool user_cb;
    int interrupt_after;
    int join_spin;    // busy iterations between spawn and join (join swept across the target's exit)
};

struct world
{
    std::optional<pika::thread> th[5];
    std::optional<pika::jthread> jt[5];
    std::unique_ptr<pika::counting_semaphore<>> sem[5];
    std::unique_ptr<pika::counting_semaphore<>> sem2[5];
    std::atomic<int> body_done[5];
    std::atomic<int> cb_accepted[5];
};
static std::atomic<int> g_cb_ran[5];

// interruption point executed by the body of handle h (actor 4+h)
static void ipoint(int h, bool enabled)
{
    int a = 4 + h;
    call(a, "ipoint", h);
    try
    {
        pika::this_thread::interruption_point();
    }
    catch (pika::thread_interrupted const&)
    {
        ret(a, 1);
        throw;
    }
    ret(a, 0);
}
// a yield is an interruption point as well
static void yield_ip(int h, bool enabled)
{
    int a = 4 + h;
    call(a, "ipoint", h);
    try
    {
        pika::this_thread::yield();
    }
    catch (pika::thread_interrupted const&)
    {
        ret(a, 1);
        throw;
    }
    ret(a, 0);
}

static void body(world* w, int h, hdesc d, pika::stop_token st)
{
    ev("body_begin").i("h", h).done();
    struct at_end
    {
        world* w;
        int h;
        ~at_end()
        {
            ev("body_end").i("h", h).done();
            w->body_done[h] = 1;
        }
    } e{w, h};
    switch (d.body)
    {
    case 0: break;
    case 1:
        for (int i = 0; i < d.yields; ++i)
        {
            ipoint(h, true);
            yield_ip(h, true);
        }
        break;
    case 2: w->sem[h]->acquire(); break;
    case 6:
    {
        // blocks at an interruption point that only an interruption can end (nobody releases)
        int a = 4 + h;
        call(a, "block", h);
        try
        {
            w->sem[h]->acquire();
        }
        catch (pika::thread_interrupted const&)
        {
            ret(a, 1);
            throw;
        }
        ret(a, 0);    // woken without an interruption: not explainable
        break;
    }
    case 7:
    {
        // interrupted while blocked, handles the interruption, then blocks again on something that IS
        // released: the thread must be woken a second time and finish
        int a = 4 + h;
        call(a, "block", h);
        bool interrupted = false;
        try
        {
            w->sem[h]->acquire();
        }
        catch (pika::thread_interrupted const&)
        {
            interrupted = true;
        }
        ret(a, interrupted ? 1 : 0);
        call(a, "acq", h);
        try
        {
            w->sem2[h]->acquire();
            ret(a, 1);
        }
        catch (pika::exception const& e)
        {
            // known finding: the wake-up of the interruption that was already delivered (and handled) above
            // can arrive late and abort THIS wait with yield_aborted; left uncaught it would take the worker
            // thread down with it
            ret(a, e.get_error() == pika::error::yield_aborted ? -3 : -9);
        }
        break;
    }
    case 8:
    {
        // blocked on a permit; the owner releases the permit and interrupts the thread right afterwards: the
        // thread is woken (it is pending in a run queue) when the interruption arrives
        int a = 4 + h;
        call(a, "acq", h);
        try
        {
            w->sem2[h]->acquire();
            ret(a, 1);
        }
        catch (pika::thread_interrupted const&)
        {
            ret(a, 2);
        }
        catch (pika::exception const& e)
        {
            ret(a, e.get_error() == pika::error::yield_aborted ? -3 : -9);
        }
        break;
    }
    case 3:
        for (int i = 0; i < 200000; ++i)
        {
            int a = 4 + h;
            call(a, "stop_seen", h);
            bool v = st.stop_requested();
            ret(a, v ? 1 : 0);
            if (v || !d.jthread) break;
            pika::this_thread::yield();
        }
        break;
    case 4:
    {
        std::atomic<int> inner{0};
        pika::thread t([&] {
            pika::this_thread::yield();
            inner = 1;
        });
        t.join();
        if (!inner.load()) ev("inner_join_early").i("h", h).done();    // rejected by the spec
        break;
    }
    case 5:
    {
        {
            call(4 + h, "int_disable", h);
            std::optional<pika::this_thread::disable_interruption> di;
            di.emplace();
            ret(4 + h, 1);
            for (int i = 0; i < d.yields; ++i)
            {
                ipoint(h, false);
                yield_ip(h, false);
            }
            call(4 + h, "int_restore", h);
            di.reset();
            ret(4 + h, 1);
        }
        for (int i = 0; i < d.yields + 1; ++i)
        {
            ipoint(h, true);
            yield_ip(h, true);
        }
        break;
    }
    }
}

int main(int argc, char** argv)
{
    if (argc < 5) return 2;
    vlog::init(argv[1]);
    std::uint64_t seed = std::strtoull(argv[2], nullptr, 10);
    int nhist = std::atoi(argv[3]);
    int perturb = std::atoi(argv[4]);
    vlog::start_watchdog(170000);
    if (perturb) vctl::install(seed, 30, 100, 300, "join.,exitcb.,agent.yield,sl.run.end,sl.store,sts.,sas.");
    std::vector<char*> av;
    av.push_back(argv[0]);
    for (int i = 5; i < argc; ++i) av.push_back(argv[i]);
    int ac = (int) av.size();
    pika::start(ac, av.data());
    vlog::rng R(seed * 22695477 + 1);

    // join storm: a short thread is created and joined, the join swept across the target's exit; every
    // create/join pair is its own tiny history
    auto run_mini = [&](int spin) {
        auto wp = std::make_unique<world>();
        world* w = wp.get();
        ev("init").i("nh", 1).done();
        w->body_done[1] = 0;
        w->cb_accepted[1] = 0;
        g_cb_ran[1] = 0;
        hdesc d{};
        d.body = 0;
        std::atomic<int> fin{0};
        ex::execute(ex::thread_pool_scheduler{}, [&, w, d, spin] {
            call(1, "spawn", 1);
            w->th[1].emplace([w, d] { body(w, 1, d, pika::stop_token{}); });
            ret(1, 1);
            for (int i = 0; i < spin; ++i) asm volatile("" ::: "memory");
            call(1, "join", 1);
            w->th[1]->join();
            ret(1, w->body_done[1].load() ? 1 : -7);
            fin = 1;
        });
        auto t0 = clk::now();
        while (!fin.load())
        {
            std::this_thread::sleep_for(std::chrono::microseconds(100));
            if (clk::now() - t0 > std::chrono::seconds(12))
            {
                ev("quiescent").done();
                vlog::flush();
                vlog::hang_pause();
                _exit(0);
            }
        }
        ev("reset").done();
    };

    for (int hi = 0; hi < nhist; ++hi)
    {
        if (R.chance(1, 8))
        {
            for (int k = 0; k < 40; ++k) run_mini((int) R.below(9000));
            continue;
        }
        auto wp = std::make_unique<world>();
        world* w = wp.get();
        int nh = 1 + (int) R.below(4);
        ev("init").i("nh", nh).done();
        std::vector<hdesc> ds(nh + 1);
        for (int h = 1; h <= nh; ++h)
        {
            hdesc& d = ds[h];
            d.jthread = R.chance(1, 3);
            d.body = (int) R.below(10);
            if (d.body == 9) d.body = 8;
            if (d.body == 3 && !d.jthread) d.body = 1;
            if ((d.body == 6 || d.body == 7 || d.body == 8) && d.jthread) d.body = 1;
            d.yields = 1 + (int) R.below(4);
            d.pre_join_yields = (int) R.below(5);
            d.interrupt = (d.body == 1 || d.body == 5) && R.chance(1, 2);
            d.interrupt_after = (int) R.below(3);
            if (d.body == 6 || d.body == 7)
            {
                d.interrupt = true;    // the only thing that ends the (first) wait
                d.interrupt_after = (int) R.below(6);
            }
            d.user_cb = R.chance(1, 6);
            d.end = d.jthread ? (R.chance(1, 2) ? 3 : 0) : (int) R.below(5);
            if (d.end == 3 && !d.jthread) d.end = 0;
            if (d.body == 3) d.end = 3;                      // only destruction stops it
            if (d.body == 2 && d.end == 1) d.end = 0;
            if (d.body == 6 || d.body == 7 || d.body == 8) d.end = R.chance(1, 2) ? 0 : 4;
            if (d.body == 8) d.interrupt = false;    // issued by the release-then-interrupt step instead
            d.join_spin = 0;
            if (!d.jthread && R.chance(2, 5))
            {
                // quick join: a short body, joined right away - the join lands around the target's exit
                d.body = R.chance(1, 2) ? 0 : 1;
                d.yields = 1;
                d.interrupt = false;
                d.user_cb = false;
                d.pre_join_yields = 0;
                d.end = 0;
                d.join_spin = (int) R.below(12000);
            }
            w->sem[h] = std::make_unique<pika::counting_semaphore<>>(0);
            w->sem2[h] = std::make_unique<pika::counting_semaphore<>>(0);
            w->body_done[h] = 0;
            w->cb_accepted[h] = 0;
            g_cb_ran[h] = 0;
        }
        std::atomic<int> finished{0};
        std::atomic<long long> progress{0};
        for (int h = 1; h <= nh; ++h)
        {
            hdesc d = ds[h];
            ex::execute(ex::thread_pool_scheduler{}, [&, w, h, d] {
                int a = h;    // owner actor
                call(a, "spawn", h);
                if (d.jthread)
                    w->jt[h].emplace([w, h, d](pika::stop_token st) { body(w, h, d, st); });
                else w->th[h].emplace([w, h, d] { body(w, h, d, pika::stop_token{}); });
                ret(a, 1);
                ++progress;
                auto id = d.jthread ? w->jt[h]->native_handle() : w->th[h]->native_handle();
                if (d.user_cb)
                {
                    call(a, "reg_cb", h);
                    bool ok = pika::threads::detail::add_thread_exit_callback(
                        id, [h] {
                            ev("exitcb").i("h", h).done();
                            ++g_cb_ran[h];
                        });
                    ret(a, ok ? 1 : 0);
                    if (ok) w->cb_accepted[h] = 1;
                }
                for (int i = 0; i < d.interrupt_after; ++i) pika::this_thread::yield();
                if (d.interrupt)
                {
                    call(a, "interrupt", h);
                    try
                    {
                        if (d.jthread) pika::thread::interrupt(w->jt[h]->get_id());
                        else w->th[h]->interrupt();
                        ret(a, 1);
                    }
                    catch (pika::exception const& e)
                    {
                        ret(a, e.get_error() == pika::error::thread_not_interruptable ? -4 : -9);
                    }
                }
                if (d.body == 2)
                {
                    for (int i = 0; i < (int) d.pre_join_yields / 2; ++i) pika::this_thread::yield();
                    w->sem[h]->release();
                }
                if (d.body == 8)
                {
                    for (int i = 0; i < d.interrupt_after; ++i) pika::this_thread::yield();
                    call(a, "release", h);
                    w->sem2[h]->release();
                    ret(a, 1);
                    for (int i = 0; i < (int) (d.pre_join_yields * 97 + h * 31) % 400; ++i) asm volatile("" ::: "memory");
                    call(a, "interrupt", h);
                    try
                    {
                        w->th[h]->interrupt();
                        ret(a, 1);
                    }
                    catch (pika::exception const& e)
                    {
                        ret(a, e.get_error() == pika::error::thread_not_interruptable ? -4 : -9);
                    }
                }
                if (d.body == 7)
                {
                    for (int i = 0; i < 1 + d.pre_join_yields; ++i) pika::this_thread::yield();
                    call(a, "release", h);
                    w->sem2[h]->release();
                    ret(a, 1);
                }
                for (int i = 0; i < d.pre_join_yields; ++i) pika::this_thread::yield();
                for (int i = 0; i < d.join_spin; ++i) asm volatile("" ::: "memory");
                ++progress;
                auto do_join = [&]() {
                    call(a, "join", h);
                    try
                    {
                        if (d.jthread) w->jt[h]->join();
                        else w->th[h]->join();
                        // the 'body finished' flag read right after join returns
                        ret(a, w->body_done[h].load() ? 1 : -7);
                    }
                    catch (pika::exception const&)
                    {
                        ret(a, -1);
                    }
                    ++progress;
                };
                switch (d.end)
                {
                case 0: do_join(); break;
                case 1:
                    call(a, "detach", h);
                    w->th[h]->detach();
                    ret(a, 1);
                    // keep the world alive until the detached body is done
                    while (!w->body_done[h].load()) pika::this_thread::yield();
                    break;
                case 2:
                    do_join();
                    do_join();    // second join: error
                    break;
                case 3:
                    call(a, "destroy_j", h);
                    w->jt[h].reset();
                    ret(a, w->body_done[h].load() ? 1 : -7);
                    break;
                case 4:
                    call(a, "joinable", h);
                    ret(a, w->th[h]->joinable() ? 1 : 0);
                    do_join();
                    call(a, "joinable", h);
                    ret(a, w->th[h]->joinable() ? 1 : 0);
                    break;
                }
                // make sure every handle is joined before it is destroyed
                if (d.jthread && w->jt[h] && w->jt[h]->joinable())
                {
                    call(a, "destroy_j", h);
                    w->jt[h].reset();
                    ret(a, w->body_done[h].load() ? 1 : -7);
                }
                // the history ends only when the thread is completely gone (exit callbacks included)
                // (unbounded: a bounded wait let a late callback leak into the next history when the
                // worker running it was descheduled by the OS; the outer watchdog handles a real hang)
                while (g_cb_ran[h].load() < w->cb_accepted[h].load()) pika::this_thread::yield();
                ++progress;
                ++finished;
            });
        }
        long long last = -1;
        auto last_change = clk::now();
        while (finished.load() < nh)
        {
            std::this_thread::sleep_for(std::chrono::microseconds(300));
            long long p = progress.load();
            if (p != last)
            {
                last = p;
                last_change = clk::now();
            }
            else if (clk::now() - last_change > std::chrono::seconds(12))
            {
                ev("quiescent").done();
                vlog::flush();
                vlog::hang_pause();
                _exit(0);
            }
        }
        ev("reset").done();
    }
    pika::finalize();
    pika::stop();
    vlog::flush();
    return 0;
}
