// C06 / C07 conformance harness: histories of one mutex (pika::mutex, timed_mutex,
// recursive_mutex, spinlock) and one condition variable (condition_variable /
// condition_variable_any) used by pika tasks (and OS threads for the spinlock), validated against
// spec/MutexCvAbs.tla (via MutexCvTrace.tla).
//
// usage: sync_harness <trace.ndjson> <seed> <nhist> <perturb 0|1> <mode: mutex|cv|both> [pika options]
#include <pika/condition_variable.hpp>
#include <pika/execution.hpp>
#include <pika/init.hpp>
#include <pika/mutex.hpp>
#include <pika/stop_token.hpp>
#include <pika/synchronization/recursive_mutex.hpp>
#include <pika/thread.hpp>

#include "vlog.hpp"

#include <atomic>
#include <chrono>
#include <memory>
#include <mutex>
#include <thread>
#include <vector>

namespace ex = pika::execution::experimental;
using vlog::ev;
using clk = std::chrono::steady_clock;

// type-erased BasicLockable over the mutex kinds
struct any_mutex
{
    // a user lock whose unlock() returns slowly (legal: the waits are templated on the lock type).  Set
    // by the owner right before a condition-variable wait, consumed by the unlock inside that wait: any
    // gap between "user lock released" and "registered as waiter" is stretched to microseconds
    int linger_us = 0;
    void linger()
    {
        int l = linger_us;
        linger_us = 0;
        if (l > 0)
        {
            auto t = clk::now() + std::chrono::microseconds(l);
            while (clk::now() < t) {}
        }
    }
    virtual ~any_mutex() = default;
    virtual void lock() = 0;
    virtual bool try_lock() = 0;
    virtual bool try_lock_until(clk::time_point) { return false; }
    virtual void unlock() = 0;
};
template <typename M>
struct mutex_of : any_mutex
{
    M m;
    void lock() override { m.lock(); }
    bool try_lock() override { return m.try_lock(); }
    void unlock() override
    {
        int l = linger_us;
        linger_us = 0;
        m.unlock();
        if (l > 0)
        {
            auto t = clk::now() + std::chrono::microseconds(l);
            while (clk::now() < t) {}
        }
    }
};
// inner lock for recursive_mutex_impl<Mutex> whose unlock() returns slowly now and then (legal: the
// template is instantiated with a user-provided lock type)
struct linger_spinlock
{
    pika::concurrency::detail::spinlock l;
    unsigned n = 0;
    void lock() { l.lock(); }
    bool try_lock() { return l.try_lock(); }
    void unlock()
    {
        bool slow = (++n % 3) == 0;
        l.unlock();
        if (slow)
        {
            auto t = clk::now() + std::chrono::microseconds(15);
            while (clk::now() < t) {}
        }
    }
};
struct timed_of : any_mutex
{
    pika::timed_mutex m;
    void lock() override { m.lock(); }
    bool try_lock() override { return m.try_lock(); }
    bool try_lock_until(clk::time_point t) override { return m.try_lock_until(t); }
    void unlock() override
    {
        int l = linger_us;
        linger_us = 0;
        m.unlock();
        if (l > 0)
        {
            auto t = clk::now() + std::chrono::microseconds(l);
            while (clk::now() < t) {}
        }
    }
};

enum okind
{
    o_lock,
    o_try,
    o_try_until,
    o_unlock,
    o_wait,
    o_wait_until,
    o_wait_pred,
    o_wait_until_pred,
    o_wait_stop,
    o_wait_until_stop,
    o_notify_one,
    o_notify_all,
    o_set_flag,
    o_request_stop,
    o_yield,
    o_loop_wait    // harness-level: while(!flag) wait();
};
static char const* kname[] = {"lock", "try_lock", "try_lock_until", "unlock", "wait", "wait_until",
    "wait_pred", "wait_until_pred", "wait_stop", "wait_until_stop", "notify_one", "notify_all",
    "set_flag", "request_stop", "yield", "loop_wait"};

struct opdesc
{
    okind k;
    long dl_ms;
    bool need_lock_held;    // skip unless we hold the lock (set for ops inside a try-section)
};

struct world
{
    std::unique_ptr<any_mutex> mtx;
    int mkind;    // 0 mutex 1 timed 2 recursive 3 spin
    bool use_any;
    pika::condition_variable cv;
    pika::condition_variable_any cva;
    pika::stop_source ss;
    bool flag = false;
    long data = 0;    // plain variable protected by the mutex
};

struct actor_ctx
{
    int id;
    bool on_pika;
    int held = 0;    // how many times this actor holds the mutex (harness-side bookkeeping)
    int linger = 0;  // slow user-lock unlock inside this actor's waits (microseconds)
};

static long long to_us(clk::time_point tp)
{
    return std::chrono::duration_cast<std::chrono::microseconds>(tp - vlog::g_t0).count();
}

static void call(int a, okind k, long long dl) { ev("call").i("a", a).s("op", kname[k]).i("dl", dl).done_t(); }
static void ret(int a, long r, long val = -1) { ev("ret").i("a", a).i("res", r).i("val", val).done_t(); }

static long err_code(pika::exception const& e)
{
    if (e.get_error() == pika::error::deadlock) return -2;
    if (e.get_error() == pika::error::lock_error) return -3;
    return -9;
}

static void do_op(world& w, actor_ctx& A, opdesc const& o)
{
    int a = A.id;
    auto dl_tp = clk::now() + std::chrono::milliseconds(o.dl_ms);
    long long dl = to_us(dl_tp);
    switch (o.k)
    {
    case o_yield:
        if (o.dl_ms > 0)    // a plain busy delay of o.dl_ms iterations
        {
            for (long i = 0; i < o.dl_ms; ++i) asm volatile("" ::: "memory");
            return;
        }
        if (A.on_pika) pika::this_thread::yield();
        else std::this_thread::yield();
        return;
    case o_lock:
        call(a, o_lock, 0);
        try
        {
            w.mtx->lock();
            ++A.held;
            ret(a, 1, w.data);
        }
        catch (pika::exception const& e)
        {
            ret(a, err_code(e));
        }
        return;
    case o_try:
    case o_try_until:
    {
        call(a, o.k, o.k == o_try_until ? dl : 0);
        bool ok = o.k == o_try ? w.mtx->try_lock() : w.mtx->try_lock_until(dl_tp);
        if (ok) ++A.held;
        ret(a, ok ? 1 : 0, ok ? w.data : -1);
        return;
    }
    case o_unlock:
        if (o.need_lock_held && A.held == 0) return;
        if (A.held > 0) ++w.data;    // the write of this critical section
        call(a, o_unlock, 0);
        try
        {
            w.mtx->unlock();
            if (A.held > 0) --A.held;
            ret(a, 1);
        }
        catch (pika::exception const& e)
        {
            ret(a, err_code(e));
        }
        return;
    case o_set_flag:
        if (A.held == 0) return;
        call(a, o_set_flag, 0);
        w.flag = true;
        ret(a, 1);
        return;
    case o_notify_one:
        call(a, o_notify_one, 0);
        if (w.use_any) w.cva.notify_one();
        else w.cv.notify_one();
        ret(a, 1);
        return;
    case o_notify_all:
        call(a, o_notify_all, 0);
        if (w.use_any) w.cva.notify_all();
        else w.cv.notify_all();
        ret(a, 1);
        return;
    case o_request_stop:
        call(a, o_request_stop, 0);
        w.ss.request_stop();
        ret(a, 1);
        return;
    default: break;
    }
    // waits: must hold the lock exactly once
    if (A.held != 1) return;
    std::unique_lock<any_mutex> lk(*w.mtx, std::adopt_lock);
    auto pred = [&w] { return w.flag; };
    if (A.linger > 0) w.mtx->linger_us = A.linger;
    switch (o.k)
    {
    case o_loop_wait:
        while (!w.flag)
        {
            call(a, o_wait, 0);
            if (w.use_any) w.cva.wait(lk);
            else w.cv.wait(lk);
            ret(a, 1);
        }
        break;
    case o_wait:
        call(a, o_wait, 0);
        if (w.use_any) w.cva.wait(lk);
        else w.cv.wait(lk);
        ret(a, 1);
        break;
    case o_wait_until:
    {
        call(a, o_wait_until, dl);
        pika::cv_status s = w.use_any ? w.cva.wait_until(lk, dl_tp) : w.cv.wait_until(lk, dl_tp);
        ret(a, s == pika::cv_status::no_timeout ? 1 : 0);
        break;
    }
    case o_wait_pred:
        call(a, o_wait_pred, 0);
        if (w.use_any) w.cva.wait(lk, pred);
        else w.cv.wait(lk, pred);
        ret(a, 1);
        break;
    case o_wait_until_pred:
    {
        call(a, o_wait_until_pred, dl);
        bool r = w.use_any ? w.cva.wait_until(lk, dl_tp, pred) : w.cv.wait_until(lk, dl_tp, pred);
        ret(a, r ? 1 : 0);
        break;
    }
    case o_wait_stop:
    {
        call(a, o_wait_stop, 0);
        bool r = w.cva.wait(lk, w.ss.get_token(), pred);
        ret(a, r ? 1 : 0);
        break;
    }
    case o_wait_until_stop:
    {
        call(a, o_wait_until_stop, dl);
        bool r = w.cva.wait_until(lk, w.ss.get_token(), dl_tp, pred);
        ret(a, r ? 1 : 0);
        break;
    }
    default: break;
    }
    lk.release();
}

int main(int argc, char** argv)
{
    if (argc < 6) return 2;
    vlog::init(argv[1]);
    std::uint64_t seed = std::strtoull(argv[2], nullptr, 10);
    int nhist = std::atoi(argv[3]);
    int perturb = std::atoi(argv[4]);
    std::string mode = argv[5];
    // a timed wait on a plain OS thread that is notified before its deadline deadlocks (known
    // finding, see DESIGN.md): only generated in the dedicated "+ostimed" mode
    bool ostimed = mode.find("+ostimed") != std::string::npos;
    // "+focus": every history is one of two focused condition-variable scenarios (see below)
    bool focus = mode.find("+focus") != std::string::npos;
    if (ostimed || focus) mode = mode.substr(0, mode.find('+'));
    vlog::start_watchdog(150000);
    if (perturb) vctl::install(seed, 25, 100, 300, "cv.,mtx.,st.");
    // focus mode: long holds of the internal lock by notifiers (delays while they pop / resume waiters)
    if (perturb && focus) vctl::install(seed, 50, 100, 200, "cv.notifyall.pop,cv.notify.pop");

    std::vector<char*> av;
    av.push_back(argv[0]);
    for (int i = 6; i < argc; ++i) av.push_back(argv[i]);
    int ac = (int) av.size();
    pika::start(ac, av.data());

    vlog::rng R(seed * 48271 + 11);
    static char const* mkname[] = {"mutex", "timed", "recursive", "spin"};

    for (int h = 0; h < nhist; ++h)
    {
        auto wp = std::make_unique<world>();
        world& w = *wp;
        bool cvmode = mode == "cv" || (mode == "both" && R.chance(1, 2));
        w.mkind = (int) R.below(4);
        if (cvmode && w.mkind == 2) w.mkind = 0;    // cv waits need depth 1: no recursive mutex
        switch (w.mkind)
        {
        case 0: w.mtx = std::make_unique<mutex_of<pika::mutex>>(); break;
        case 1: w.mtx = std::make_unique<timed_of>(); break;
        case 2:
            if (R.chance(1, 2)) w.mtx = std::make_unique<mutex_of<pika::detail::recursive_mutex_impl<>>>();
            else w.mtx = std::make_unique<mutex_of<pika::detail::recursive_mutex_impl<linger_spinlock>>>();
            break;
        default: w.mtx = std::make_unique<mutex_of<pika::concurrency::detail::spinlock>>(); break;
        }
        w.use_any = R.chance(1, 2);
        std::size_t init_pos = 0;
        (void) init_pos;

        int nact = 2 + (int) R.below(2);
        std::vector<std::vector<opdesc>> scripts(nact);
        std::vector<bool> on_pika(nact, true);
        bool stop_waits = false;
        for (int a = 0; a < nact; ++a)
        {
            if (w.mkind == 3 && R.chance(1, 3)) on_pika[a] = false;
            auto& s = scripts[a];
            int nblocks = 1 + (int) R.below(3);
            for (int b = 0; b < nblocks; ++b)
            {
                int ny = (int) R.below(3);
                for (int i = 0; i < ny; ++i) s.push_back({o_yield, 0, false});
                int r = (int) R.below(cvmode ? 12 : 7);
                // timed mutex: make blocked timed attempts common (holder keeps the lock across
                // several yields, contenders use try_lock_until)
                if (!cvmode && w.mkind == 1 && R.chance(1, 2)) r = R.chance(1, 2) ? 3 : 20;
                if (!cvmode && w.mkind == 0 && R.chance(1, 4)) r = 20;
                if (r == 20)
                {
                    s.push_back({o_lock, 0, false});
                    int hold = 2 + (int) R.below(6);
                    for (int i = 0; i < hold; ++i) s.push_back({o_yield, 0, false});
                    s.push_back({o_unlock, 0, false});
                    continue;
                }
                if (r <= 1 || (r >= 9 && !cvmode))
                {
                    // plain critical section, possibly yielding inside (task may migrate)
                    s.push_back({o_lock, 0, false});
                    if (w.mkind == 2 && R.chance(1, 2))
                    {
                        s.push_back({o_lock, 0, false});
                        s.push_back({o_unlock, 0, false});
                    }
                    // (a spinlock must not be held across a yield: documented precondition)
                    if (w.mkind < 2 && R.chance(1, 2)) s.push_back({o_yield, 0, false});
                    s.push_back({o_unlock, 0, false});
                }
                else if (r == 2)
                {
                    s.push_back({o_try, 0, false});
                    s.push_back({o_unlock, 0, true});
                }
                else if (r == 3 && w.mkind == 1)
                {
                    s.push_back({o_try_until, 5 + (long) R.below(30), false});
                    if (R.chance(1, 2)) s.push_back({o_yield, 0, true});
                    s.push_back({o_unlock, 0, true});
                }
                else if (r == 4 && w.mkind <= 1 && R.chance(1, 2))
                {
                    // misuse the API promises to detect: re-lock an owned mutex
                    s.push_back({o_lock, 0, false});
                    s.push_back({o_lock, 0, false});    // -> deadlock error
                    s.push_back({o_unlock, 0, false});
                }
                else if (r == 5 && w.mkind <= 1 && R.chance(1, 2))
                {
                    s.push_back({o_unlock, 0, false});    // foreign/unowned unlock -> lock_error
                }
                else if (r <= 6)
                {
                    s.push_back({o_lock, 0, false});
                    if (w.mkind < 2) s.push_back({o_yield, 0, false});
                    s.push_back({o_unlock, 0, false});
                }
                else if (r == 7)
                {
                    s.push_back({o_lock, 0, false});
                    s.push_back({o_loop_wait, 0, false});
                    s.push_back({o_unlock, 0, false});
                }
                else if (r == 8)
                {
                    s.push_back({o_lock, 0, false});
                    s.push_back({R.chance(1, 2) ? o_wait_pred : o_wait_until_pred,
                        10 + (long) R.below(40), false});
                    s.push_back({o_unlock, 0, false});
                }
                else if (r == 9)
                {
                    s.push_back({o_lock, 0, false});
                    s.push_back({o_wait_until, 5 + (long) R.below(30), false});
                    s.push_back({o_unlock, 0, false});
                }
                else if (r == 10 && w.use_any)
                {
                    stop_waits = true;
                    s.push_back({o_lock, 0, false});
                    s.push_back({R.chance(1, 2) ? o_wait_stop : o_wait_until_stop,
                        10 + (long) R.below(40), false});
                    s.push_back({o_unlock, 0, false});
                }
                else
                {
                    s.push_back({R.chance(1, 2) ? o_notify_one : o_notify_all, 0, false});
                }
            }
        }
        // hand-over chain (timed mutex): a holder keeps the lock for a while; behind it wait a timed attempt
        // with a generous deadline and blocking lockers.  Whoever is notified must either take the lock and
        // pass it on, or - if it gives up - not swallow the hand-over
        if (!cvmode && w.mkind == 1 && R.chance(1, 4))
        {
            for (int a = 0; a < nact; ++a) scripts[a].clear();
            // actor 0: holder
            scripts[0].push_back({o_lock, 0, false});
            int hold = 4 + (int) R.below(6);
            for (int i = 0; i < hold; ++i) scripts[0].push_back({o_yield, 0, false});
            scripts[0].push_back({o_unlock, 0, false});
            for (int a = 1; a < nact; ++a)
            {
                int pre = 1 + (int) R.below(3);
                for (int i = 0; i < pre; ++i) scripts[a].push_back({o_yield, 0, false});
                if (a == 1 || R.chance(1, 3))
                {
                    scripts[a].push_back({o_try_until, 3 + (long) R.below(12), false});
                    scripts[a].push_back({o_unlock, 0, true});
                }
                else
                {
                    scripts[a].push_back({o_lock, 0, false});
                    scripts[a].push_back({o_unlock, 0, false});
                }
            }
        }
        // re-entrant storm (recursive mutex): nested lock / try_lock inside the outer critical section, many
        // hand-overs between the actors; the depth bookkeeping must follow the owner
        if (!cvmode && w.mkind == 2 && R.chance(1, 2))
        {
            for (int a = 0; a < nact; ++a)
            {
                auto& s = scripts[a];
                s.clear();
                int n = 5 + (int) R.below(8);
                for (int i = 0; i < n; ++i)
                {
                    s.push_back({o_lock, 0, false});
                    if (R.chance(2, 3))
                    {
                        s.push_back({R.chance(1, 2) ? o_lock : o_try, 0, false});
                        s.push_back({o_unlock, 0, false});
                    }
                    s.push_back({o_unlock, 0, false});
                }
            }
        }
        // try_lock storm: every actor hammers try_lock (and short timed attempts) on the same mutex
        // at the same time; each attempt that reports success must really own the lock
        if (!cvmode && R.chance(1, 3))
        {
            for (int a = 0; a < nact; ++a)
            {
                auto& s = scripts[a];
                s.clear();
                int n = 6 + (int) R.below(8);
                for (int i = 0; i < n; ++i)
                {
                    if (w.mkind == 1 && R.chance(1, 4)) s.push_back({o_try_until, 1 + (long) R.below(3), false});
                    else if (R.chance(1, 6))
                    {
                        s.push_back({o_lock, 0, false});
                        s.push_back({o_unlock, 0, false});
                        continue;
                    }
                    else s.push_back({o_try, 0, false});
                    s.push_back({o_unlock, 0, true});
                }
            }
        }
        bool stopstorm = cvmode && !ostimed && (focus ? R.chance(1, 2) : R.chance(1, 3));
        if (cvmode && focus && !stopstorm)
        {
            // queued setter: the waiters hold the user lock for a while before they wait, so the setter is
            // already queued on it and sets the predicate and notifies the instant a waiter releases it
            if (w.mkind >= 2)
            {
                w.mkind = (int) R.below(2);
                if (w.mkind == 0) w.mtx = std::make_unique<mutex_of<pika::mutex>>();
                else w.mtx = std::make_unique<timed_of>();
            }
            nact = 1 + (int) R.below(2);
            scripts.assign(nact, {});
            on_pika.assign(nact, true);
            for (int a = 0; a < nact; ++a)
            {
                scripts[a].push_back({o_lock, 0, false});
                int hold = 2 + (int) R.below(4);
                for (int i = 0; i < hold; ++i) scripts[a].push_back({o_yield, 0, false});
                scripts[a].push_back({R.chance(1, 2) ? o_loop_wait : o_wait_pred, 0, false});
                scripts[a].push_back({o_unlock, 0, false});
            }
        }
        if (stopstorm)
        {
            // all actors wait with a stop token and a predicate that never becomes true; a stopper
            // notifies a few times (so waiters go round their loop) and then requests stop
            w.use_any = true;
            stop_waits = true;
            nact = focus ? 4 : 3 + (int) R.below(2);
            scripts.assign(nact, {});
            on_pika.assign(nact, true);
            for (int a = 0; a + 1 < nact; ++a)
            {
                if (w.mkind == 3 && R.chance(1, 4)) on_pika[a] = false;
                int rounds = 1 + (int) R.below(2);
                for (int i = 0; i < rounds; ++i)
                {
                    scripts[a].push_back({o_lock, 0, false});
                    scripts[a].push_back({(R.chance(1, 3) && on_pika[a]) ? o_wait_until_stop : o_wait_stop,
                        300, false});
                    scripts[a].push_back({o_unlock, 0, false});
                }
            }
            auto& s = scripts[nact - 1];
            int nn = focus ? 5 + (int) R.below(20) : (int) R.below(4);
            bool burst = focus || R.chance(1, 2);
            for (int i = 0; i < nn; ++i)
            {
                if (!burst) s.push_back({o_yield, 0, false});
                s.push_back({R.chance(1, 2) ? o_notify_all : o_notify_one, 0, false});
            }
            if (burst)    // woken waiters re-enter their loop while the stop request arrives
            {
                for (int i = 0; i < 2; ++i) s.push_back({o_notify_all, 0, false});
                // the stop request is swept across the moment the woken waiters come round their loop
                if (R.chance(1, 2)) s.push_back({o_yield, 1 + (long) R.below(focus ? 30000 : 6000), false});
            }
            s.push_back({o_request_stop, 0, false});
        }
        for (int a = 0; a < nact; ++a)
        {
            if (on_pika[a]) continue;
            if (ostimed)
            {
                // make sure the shape is there: one timed wait on the OS thread
                if (cvmode)
                {
                    scripts[a].insert(scripts[a].begin(),
                        {opdesc{o_lock, 0, false}, opdesc{o_wait_until_pred, 400, false},
                            opdesc{o_unlock, 0, false}});
                }
                continue;
            }
            for (auto& o : scripts[a])
            {
                if (o.k == o_wait_until) o.k = o_loop_wait;
                else if (o.k == o_wait_until_pred) o.k = o_wait_pred;
                else if (o.k == o_wait_until_stop) o.k = o_wait_stop;
            }
        }
        if (cvmode && !stopstorm)
        {
            // the setter (an extra actor that never waits itself): makes the predicate true under
            // the lock and then notifies everybody, so every waiter is owed a wake-up; sometimes a
            // stop request comes first
            scripts.emplace_back();
            on_pika.push_back(true);
            auto& s = scripts.back();
            int ny = (int) R.below(4);
            for (int i = 0; i < ny; ++i) s.push_back({o_yield, 0, false});
            if (stop_waits && R.chance(1, 2)) s.push_back({o_request_stop, 0, false});
            s.push_back({o_lock, 0, false});
            s.push_back({o_set_flag, 0, false});
            s.push_back({o_unlock, 0, false});
            if (R.chance(1, 2)) s.push_back({o_notify_all, 0, false});
            else
                for (int i = 0; i < nact + 1; ++i) s.push_back({o_notify_one, 0, false});
            ++nact;
        }

        {
            std::vector<int> os_ids;
            for (int a = 0; a < nact; ++a)
                if (!on_pika[a]) os_ids.push_back(a + 1);
            ev("init").s("mk", mkname[w.mkind]).i("any", w.use_any).li("os", os_ids).done();
        }
        std::atomic<int> finished{0}, go{0};
        std::atomic<long long> progress{0};
        std::vector<std::thread> os_threads;
        std::vector<int> lingers(nact, 0);
        for (int a = 0; a < nact; ++a)
            if (cvmode && (focus || R.chance(1, 3))) lingers[a] = 10 + (int) R.below(focus ? 220 : 150);
        for (int a = 0; a < nact; ++a)
        {
            auto body = [&, a] {
                actor_ctx A{a + 1, on_pika[a], 0};
                A.linger = lingers[a];
                while (!go.load())
                {
                    if (A.on_pika) pika::this_thread::yield();
                }
                for (auto const& o : scripts[a])
                {
                    do_op(w, A, o);
                    ++progress;
                }
                // never leave the mutex locked
                while (A.held > 0)
                {
                    opdesc u{o_unlock, 0, false};
                    do_op(w, A, u);
                }
                ++finished;
            };
            if (on_pika[a]) ex::execute(ex::thread_pool_scheduler{}, body);
            else os_threads.emplace_back(body);
        }
        go = 1;
        long long last = -1;
        auto last_change = clk::now();
        bool hung = false;
        while (finished.load() < nact)
        {
            std::this_thread::sleep_for(std::chrono::microseconds(300));
            long long p = progress.load();
            if (p != last)
            {
                last = p;
                last_change = clk::now();
            }
            else if (clk::now() - last_change > std::chrono::seconds(12))
            {
                ev("quiescent").done_t();
                hung = true;
                break;
            }
        }
        if (hung)
        {
            vlog::flush();
            vlog::hang_pause();
            _exit(0);
        }
        for (auto& t : os_threads) t.join();
        ev("reset").done();
    }
    pika::finalize();
    pika::stop();
    vlog::flush();
    return 0;
}
