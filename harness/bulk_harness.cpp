// C11 conformance harness: bulk(sender, n, f) on thread_pool_schedulers of two pools (so that local
// and global worker numbers differ), many shapes (0, 1, around multiples of chunk x workers, primes,
// large), several shape types, throwing index sets; predecessor values are checked in every call and
// in the completion.  Small shapes log every call, large ones a measured summary.
// Histories are validated against spec/BulkAbs.tla.
//
// usage: bulk_harness <trace.ndjson> <seed> <nbulks> <perturb 0|1> <huge 0|1>
#include <pika/execution.hpp>
#include <pika/init.hpp>
#include <pika/modules/resource_partitioner.hpp>
#include <pika/thread.hpp>
#include <pika/threading_base/thread_pool_base.hpp>

#include "vlog.hpp"

#include <atomic>
#include <chrono>
#include <condition_variable>
#include <memory>
#include <mutex>
#include <set>
#include <stdexcept>
#include <thread>
#include <vector>

namespace ex = pika::execution::experimental;
using vlog::ev;
using clk = std::chrono::steady_clock;

struct idx_error : std::runtime_error
{
    long long i;
    explicit idx_error(long long i)
      : std::runtime_error("idx")
      , i(i)
    {
    }
};

struct result
{
    std::mutex m;
    std::condition_variable cv;
    int nsig = 0;
    int channel = 0;    // 1 value 2 error 3 stopped
    bool vok = false;
    long long erri = -1;
    long long returned_at_signal = -1;
};

struct run_state
{
    unsigned long long n = 0;
    bool small = false;
    std::set<long long> throwers;
    std::vector<std::atomic<unsigned char>> counts;    // per index (n <= 2^26)
    struct alignas(64) wcount
    {
        unsigned long long c = 0, s = 0;
        std::atomic<unsigned long long> r{0};
    };
    unsigned long long total_returned() const
    {
        unsigned long long t = 0;
        for (auto const& w : wc) t += w.r.load(std::memory_order_relaxed);
        return t;
    }
    wcount wc[16];
    std::atomic<unsigned long long> oob{0};
    // "together": all calls of f return at (nearly) the same instant, so the chunk tasks finish together
    bool together = false;
    std::atomic<unsigned long long> arrived{0};
    std::atomic<int> vbad{0};
    result res;
};

struct recv
{
    PIKA_STDEXEC_RECEIVER_CONCEPT
    run_state* rs;
    void signal(int ch, bool vok, long long erri) noexcept
    {
        long long ret_now = (long long) rs->total_returned();
        if (rs->small)
            ev("done").s("ch", ch == 1 ? "value" : (ch == 2 ? "error" : "stopped")).i("vok", vok).i("erri", erri).done();
        std::lock_guard<std::mutex> l(rs->res.m);
        if (rs->res.nsig == 0)
        {
            rs->res.channel = ch;
            rs->res.vok = vok;
            rs->res.erri = erri;
            rs->res.returned_at_signal = ret_now;
        }
        ++rs->res.nsig;
        rs->res.cv.notify_all();
    }
    void set_value(int a, std::string b) && noexcept { signal(1, a == 4711 && b == "payload", -1); }
    void set_error(std::exception_ptr ep) && noexcept
    {
        long long i = -2;
        try
        {
            std::rethrow_exception(ep);
        }
        catch (idx_error const& e)
        {
            i = e.i;
        }
        catch (...)
        {
        }
        signal(2, false, i);
    }
    void set_stopped() && noexcept { signal(3, false, -1); }
    constexpr ex::empty_env get_env() const& noexcept { return {}; }
};

template <typename Shape>
static void run_bulk(run_state& rs, ex::thread_pool_scheduler sched, bool from_outside)
{
    auto f = [&rs](Shape i, int a, std::string const& b) {
        unsigned long long ui = (unsigned long long) i;
        bool vok = a == 4711 && b == "payload";
        if (!vok) rs.vbad = 1;
        if (rs.small) ev("f").i("i", (long long) i).i("vok", vok).done();
        if (ui >= rs.n) ++rs.oob;
        else if (!rs.counts.empty()) rs.counts[ui].fetch_add(1, std::memory_order_relaxed);
        // aggregated per-worker counters for shapes too large for a per-index table
        if (rs.counts.empty())
        {
            auto w = pika::get_worker_thread_num() % 16;
            rs.wc[w].c += 1;
            rs.wc[w].s += ui;
        }
        bool thr = rs.throwers.count((long long) i) != 0;
        if (rs.small) ev("fret").i("i", (long long) i).done();
        {
            auto& r = rs.wc[pika::get_worker_thread_num() % 16].r;
            r.store(r.load(std::memory_order_relaxed) + 1, std::memory_order_relaxed);
        }
        if (rs.together)
        {
            rs.arrived.fetch_add(1, std::memory_order_relaxed);
            for (int spin = 0; spin < 40000 && rs.arrived.load(std::memory_order_relaxed) < rs.n; ++spin) {}
        }
        if (thr) throw idx_error((long long) i);
    };
    auto s = ex::just(4711, std::string("payload")) | ex::continues_on(sched) | ex::bulk((Shape) rs.n, f);
    auto op = ex::connect(std::move(s), recv{&rs});
    (void) from_outside;
    ex::start(op);
    std::unique_lock<std::mutex> l(rs.res.m);
    if (!rs.res.cv.wait_for(l, std::chrono::seconds(rs.n > (1ull << 30) ? 120 : 20), [&] { return rs.res.nsig > 0; }))
    {
        ev("quiescent").done();
        vlog::flush();
        vlog::hang_pause();
        _exit(0);
    }
    // give stragglers a moment so that a second signal / late call would be seen
    l.unlock();
    std::this_thread::sleep_for(std::chrono::microseconds(300));
}

// ---- burst: many tiny bulk operations back to back, one index per worker, all calls returning together; the
// operation states stay alive until the end of the burst so that a late second completion is counted
struct burst_op_state
{
    std::atomic<int> nsig{0};
    std::atomic<int> calls[8];
    std::atomic<int> arrived{0};
    std::atomic<int> returned{0};
    std::atomic<int> early{0};
    int n = 0;
};
struct burst_recv
{
    PIKA_STDEXEC_RECEIVER_CONCEPT
    burst_op_state* st;
    void set_value() && noexcept
    {
        if (st->returned.load() != st->n) st->early = 1;
        ++st->nsig;
    }
    void set_error(std::exception_ptr) && noexcept
    {
        st->early = 1;
        ++st->nsig;
    }
    void set_stopped() && noexcept
    {
        st->early = 1;
        ++st->nsig;
    }
    constexpr ex::empty_env get_env() const& noexcept { return {}; }
};
static void run_burst(ex::thread_pool_scheduler sched, int W, int nops)
{
    auto mk = [&](burst_op_state* st) {
        return ex::connect(ex::schedule(sched) | ex::bulk(st->n,
                               [st](int i) {
                                   st->calls[i & 7].fetch_add(1, std::memory_order_relaxed);
                                   st->arrived.fetch_add(1, std::memory_order_relaxed);
                                   for (int spin = 0; spin < 20000 && st->arrived.load(std::memory_order_relaxed) < st->n; ++spin) {}
                                   st->returned.fetch_add(1, std::memory_order_relaxed);
                               }),
            burst_recv{st});
    };
    using op_t = decltype(mk(nullptr));
    // operation states are not movable: constructed in place from the prvalue (guaranteed elision)
    struct holder
    {
        op_t op;
        holder(decltype(mk)& f, burst_op_state* st)
          : op(f(st))
        {
        }
    };
    std::vector<std::unique_ptr<burst_op_state>> sts;
    std::vector<std::unique_ptr<holder>> ops;
    for (int k = 0; k < nops; ++k)
    {
        auto st = std::make_unique<burst_op_state>();
        st->n = W;
        for (auto& c : st->calls) c = 0;
        ops.push_back(std::make_unique<holder>(mk, st.get()));
        sts.push_back(std::move(st));
    }
    long hung = 0;
    for (int k = 0; k < nops; ++k)
    {
        ex::start(ops[k]->op);
        auto t0 = std::chrono::steady_clock::now();
        while (sts[k]->nsig.load() == 0)
        {
            if (std::chrono::steady_clock::now() - t0 > std::chrono::seconds(12))
            {
                hung = 1;
                break;
            }
        }
        if (hung) break;
    }
    std::this_thread::sleep_for(std::chrono::milliseconds(1));
    long sig_bad = 0, idx_bad = 0, early = 0;
    for (auto& st : sts)
    {
        if (hung && st->nsig.load() == 0) continue;
        if (st->nsig.load() != 1) ++sig_bad;
        for (int i = 0; i < 8; ++i)
            if (st->calls[i].load() != (i < st->n ? 1 : 0)) ++idx_bad;
        early += st->early.load();
    }
    ev("burst").i("ops", nops).i("n", W).i("sig_bad", sig_bad).i("idx_bad", idx_bad).i("early", early).i("hung", hung).done();
    if (hung)
    {
        ev("quiescent").done();
        vlog::flush();
        vlog::hang_pause();
        _exit(0);
    }
}

int main(int argc, char** argv)
{
    if (argc < 6) return 2;
    vlog::init(argv[1]);
    std::uint64_t seed = std::strtoull(argv[2], nullptr, 10);
    int nb = std::atoi(argv[3]);
    int perturb = std::atoi(argv[4]);
    int huge = std::atoi(argv[5]);
    vlog::start_watchdog(huge ? 1500000 : 170000);
    if (perturb) vctl::install(seed, 25, 100, 100, "ciq.,tq.schedule");
    pika::init_params ip;
    ip.cfg = {"pika.os_threads=6"};
    ip.rp_callback = [&](auto& rp, pika::program_options::variables_map const&) {
        rp.create_thread_pool("p2", pika::resource::scheduling_policy::local_priority_fifo);
        int added = 0;
        for (auto const& d : rp.sockets())
            for (auto const& c : d.cores())
                for (auto const& p : c.pus())
                    if (added >= 2 && added < 6)
                    {
                        rp.add_resource(p, "p2");
                        ++added;
                    }
                    else ++added;
    };
    char const* av[] = {argv[0], nullptr};
    pika::start(nullptr, 1, av, ip);
    auto sched_default = ex::thread_pool_scheduler{&pika::resource::get_thread_pool("default")};
    auto sched_p2 = ex::thread_pool_scheduler{&pika::resource::get_thread_pool("p2")};
    vlog::rng R(seed * 2147483629 + 7);

    for (int b = 0; b < nb; ++b)
    {
        if (!huge && R.chance(1, 12))
        {
            bool p2 = R.chance(3, 4);
            run_burst(p2 ? sched_p2 : sched_default, p2 ? 4 : 2, 150);
            continue;
        }
        bool on_p2 = R.chance(1, 2);
        int W = on_p2 ? 4 : 2;
        unsigned long long n;
        int shape_kind = (int) R.below(12);
        switch (shape_kind)
        {
        case 0: n = 0; break;
        case 1: n = 1; break;
        case 2: n = (unsigned long long) W * 8 * (1ull << R.below(4)) + R.below(3) - 1; break;
        case 3: n = (unsigned long long) W - 1 + R.below(3); break;
        case 4: n = 257; break;
        case 5: n = 8ull * W + 1; break;
        case 6: n = 16ull * W + 3; break;
        case 7: n = 1 + R.below(64); break;
        case 8: n = 1000 + R.below(100000); break;
        case 9:
        case 10: n = (unsigned long long) W; break;    // one index per worker
        default: n = R.below(48); break;
        }
        int stype = (int) R.below(5);
        if (huge)
        {
            static unsigned long long const H[] = {(1ull << 31) - 1, (1ull << 31) + 1, (1ull << 32) + 5,
                (1ull << 27) + 3, (1ull << 32) - 1};
            n = H[b % 5];
            stype = n >= (1ull << 31) ? (b % 2 ? 3 : 4) : (int) R.below(5);
            on_p2 = true;
            W = 4;
        }
        auto rsp = std::make_unique<run_state>();
        run_state& rs = *rsp;
        rs.n = n;
        rs.small = n <= 64;
        rs.together = n >= 2 && n <= (unsigned long long) W && R.chance(3, 4);
        if (n <= (1ull << 26)) rs.counts = std::vector<std::atomic<unsigned char>>(n);
        int tk = huge ? 0 : (int) R.below(6);
        if (n > 0)
        {
            if (tk == 1) rs.throwers.insert(0);
            if (tk == 2) rs.throwers.insert((long long) n - 1);
            if (tk == 3)
                for (int w = 0; w < W; ++w) rs.throwers.insert((long long) (R.below(n)));
            if (tk == 4 && n <= 64)
                for (unsigned long long i = 0; i < n; ++i) rs.throwers.insert((long long) i);
        }
        if (rs.small)
        {
            std::vector<long long> thr(rs.throwers.begin(), rs.throwers.end());
            ev("begin").i("n", (long long) n).li("thr", thr).i("p2", on_p2).i("stype", stype).done();
        }
        auto sched = on_p2 ? sched_p2 : sched_default;
        switch (stype)
        {
        case 0: run_bulk<int>(rs, sched, true); break;
        case 1: run_bulk<unsigned>(rs, sched, true); break;
        case 2: run_bulk<long>(rs, sched, true); break;
        case 3: run_bulk<std::size_t>(rs, sched, true); break;
        default: run_bulk<std::int64_t>(rs, sched, true); break;
        }
        if (rs.small) { ev("end").done(); }
        else
        {
            bool once_ok = true, cnt_ok = true;
            if (!rs.counts.empty())
            {
                unsigned long long c = 0;
                for (auto& x : rs.counts)
                {
                    unsigned v = x.load();
                    if (v > 1) once_ok = false;
                    c += v;
                    if (v == 0) cnt_ok = false;
                }
            }
            else
            {
                unsigned long long c = 0, s = 0;
                for (auto& w : rs.wc)
                {
                    c += w.c;
                    s += w.s;
                }
                unsigned long long es = (n % 2 == 0) ? (n / 2) * (n - 1) : n * ((n - 1) / 2);
                cnt_ok = c == n && s == es;
                once_ok = c <= n;
            }
            bool err_in_thr = rs.res.channel == 2 && rs.throwers.count(rs.res.erri) != 0;
            ev("summary")
                .i("n0", (long long) (n & 0xfffff))
                .i("n1", (long long) (n >> 20))
                .i("cnt_ok", cnt_ok)
                .i("once_ok", once_ok)
                .i("oob", rs.oob.load() ? 1 : 0)
                .i("nsig", rs.res.nsig)
                .s("ch", rs.res.channel == 1 ? "value" : (rs.res.channel == 2 ? "error" : "stopped"))
                .i("vok", rs.res.vok && !rs.vbad.load())
                .i("after_last", rs.res.returned_at_signal == (long long) rs.total_returned())
                .i("nthr", (long long) rs.throwers.size())
                .i("err_in_thr", err_in_thr)
                .i("p2", on_p2)
                .i("stype", stype)
                .done();
        }
        if (b % 20 == 19) ev("reset").done();
    }
    ev("reset").done();
    pika::finalize();
    pika::stop();
    vlog::flush();
    return 0;
}
