// C18 conformance harness (spec -> implementation): replays operation sequences enumerated by TLC
// from spec/WrapperAbs.tla on the real wrappers and compares, after every step, what the spec says
// must be observable: emptiness of every slot, the result of an invocation (or the defined error for
// an empty wrapper) and the number of live contained objects.
//
// usage: wrap_harness <kind> <cases.txt> <results.ndjson>
//   kind: function | unique_function | any_sender | unique_any_sender
//   cases.txt: one case per line, steps separated by ';', a step = "op i j big live res e1 e2 [e3]"
#include <pika/execution.hpp>
#include <pika/execution_base/any_sender.hpp>
#include <pika/functional/function.hpp>
#include <pika/functional/unique_function.hpp>

#include <atomic>
#include <cstdio>
#include <cstring>
#include <fstream>
#include <iostream>
#include <memory>
#include <optional>
#include <sstream>
#include <string>
#include <vector>

namespace ex = pika::execution::experimental;

static std::atomic<int> g_live{0};
// identity ledger: every contained object has a serial number that is registered while the object is
// alive; destroying an object twice, or one that was never constructed (storage swapped bitwise and then
// destroyed through the wrong wrapper), is recorded here even if the live count happens to balance
#include <set>
static std::set<long> g_ids;
static long g_next_serial = 1;
static int g_ledger_errors = 0;
static long ledger_new()
{
    long id = g_next_serial++;
    g_ids.insert(id);
    return id;
}
static void ledger_del(long id)
{
    if (g_ids.erase(id) != 1) ++g_ledger_errors;
}

// contained object: counts its instances; identity travels with the value
template <int Pad>
struct payload
{
    int val = 0;
    int calls = 0;
    long serial = 0;
    char pad[Pad > 0 ? Pad : 1] = {};
    explicit payload(int v)
      : val(v)
      , serial(ledger_new())
    {
        ++g_live;
    }
    payload(payload const& o)
      : val(o.val)
      , calls(o.calls)
      , serial(ledger_new())
    {
        ++g_live;
    }
    payload(payload&& o) noexcept
      : val(o.val)
      , calls(o.calls)
      , serial(ledger_new())
    {
        ++g_live;
    }
    payload& operator=(payload const& o)
    {
        val = o.val;
        calls = o.calls;
        return *this;
    }
    payload& operator=(payload&& o) noexcept
    {
        val = o.val;
        calls = o.calls;
        return *this;
    }
    ~payload()
    {
        --g_live;
        ledger_del(serial);
    }
    int operator()() { return val * 100 + calls++; }
};

// move-only variants for the unique wrappers
template <int Pad>
struct mo_payload : payload<Pad>
{
    using payload<Pad>::payload;
    mo_payload(mo_payload&&) = default;
    mo_payload& operator=(mo_payload&&) = default;
    mo_payload(mo_payload const&) = delete;
    mo_payload& operator=(mo_payload const&) = delete;
};

struct int_receiver
{
    PIKA_STDEXEC_RECEIVER_CONCEPT
    int* out;
    void set_value(int v) && noexcept { *out = v; }
    void set_error(std::exception_ptr) && noexcept { *out = -2; }
    void set_stopped() && noexcept { *out = -3; }
    constexpr ex::empty_env get_env() const& noexcept { return {}; }
};

template <typename P>
struct psender
{
    PIKA_STDEXEC_SENDER_CONCEPT
    P p;
    template <template <typename...> class Tuple, template <typename...> class Variant>
    using value_types = Variant<Tuple<int>>;
    template <template <typename...> class Variant>
    using error_types = Variant<std::exception_ptr>;
    static constexpr bool sends_done = false;
    using completion_signatures = ex::completion_signatures<ex::set_value_t(int), ex::set_error_t(std::exception_ptr)>;
    template <typename R>
    struct op
    {
        P p;
        std::decay_t<R> r;
        void start() & noexcept { ex::set_value(std::move(r), p()); }
    };
    template <typename R>
    op<R> connect(R&& r) &&
    {
        return op<R>{std::move(p), std::forward<R>(r)};
    }
    template <typename R, typename PP = P, typename = std::enable_if_t<std::is_copy_constructible_v<PP>>>
    op<R> connect(R&& r) const&
    {
        return op<R>{p, std::forward<R>(r)};
    }
};

// a sender that completes with an L-VALUE REFERENCE to a string it keeps in a cell shared by its copies
// (like then(f) with f returning T& into a cache): the wrapper must deliver a copy and leave the cell alone
struct str_receiver
{
    PIKA_STDEXEC_RECEIVER_CONCEPT
    std::string* out;
    int* sig;
    void set_value(std::string v) && noexcept
    {
        *out = std::move(v);
        *sig = 1;
    }
    void set_error(std::exception_ptr) && noexcept { *sig = 2; }
    void set_stopped() && noexcept { *sig = 3; }
    constexpr ex::empty_env get_env() const& noexcept { return {}; }
};
template <typename P>
struct rsender
{
    PIKA_STDEXEC_SENDER_CONCEPT
    P p;
    std::shared_ptr<std::string> cell;
    template <template <typename...> class Tuple, template <typename...> class Variant>
    using value_types = Variant<Tuple<std::string&>>;
    template <template <typename...> class Variant>
    using error_types = Variant<std::exception_ptr>;
    static constexpr bool sends_done = false;
    using completion_signatures =
        ex::completion_signatures<ex::set_value_t(std::string&), ex::set_error_t(std::exception_ptr)>;
    template <typename R>
    struct op
    {
        P p;
        std::shared_ptr<std::string> cell;
        std::decay_t<R> r;
        void start() & noexcept
        {
            (void) p();
            ex::set_value(std::move(r), *cell);
        }
    };
    template <typename R>
    op<R> connect(R&& r) &&
    {
        return op<R>{std::move(p), cell, std::forward<R>(r)};
    }
    template <typename R, typename PP = P, typename = std::enable_if_t<std::is_copy_constructible_v<PP>>>
    op<R> connect(R&& r) const&
    {
        return op<R>{p, cell, std::forward<R>(r)};
    }
};
static std::string cell_text(int v) { return "value-" + std::to_string(v) + "-0123456789abcdefghijklmnopqrstuvwxyz"; }

enum kind_t
{
    k_function,
    k_unique_function,
    k_any_sender,
    k_unique_any_sender,
    k_any_sender_ref,
    k_unique_any_sender_ref
};

struct step
{
    std::string op;
    int i, j, big, live, res;
    std::vector<int> empty;
};

template <kind_t K>
struct traits;
template <>
struct traits<k_function>
{
    using W = pika::util::detail::function<int()>;
    static W make(int v, bool big) { return big ? W(payload<96>(v)) : W(payload<0>(v)); }
    static int invoke(W& w) { return w(); }
    static constexpr bool copyable = true;
};
template <>
struct traits<k_unique_function>
{
    using W = pika::util::detail::unique_function<int()>;
    static W make(int v, bool big) { return big ? W(mo_payload<96>(v)) : W(mo_payload<0>(v)); }
    static int invoke(W& w) { return w(); }
    static constexpr bool copyable = false;
};
template <>
struct traits<k_any_sender>
{
    using W = ex::any_sender<int>;
    static W make(int v, bool big)
    {
        return big ? W(psender<payload<96>>{payload<96>(v)}) : W(psender<payload<0>>{payload<0>(v)});
    }
    static int invoke(W& w)
    {
        int out = -9;
        auto o = ex::connect(w, int_receiver{&out});    // l-value connect: copies the contained sender
        ex::start(o);
        return out;
    }
    static constexpr bool copyable = true;
};
template <>
struct traits<k_unique_any_sender>
{
    using W = ex::unique_any_sender<int>;
    static W make(int v, bool big)
    {
        return big ? W(psender<mo_payload<96>>{mo_payload<96>(v)}) :
                     W(psender<mo_payload<0>>{mo_payload<0>(v)});
    }
    static int invoke(W& w)
    {
        int out = -9;
        {
            auto o = ex::connect(std::move(w), int_receiver{&out});
            ex::start(o);
        }
        return out;
    }
    static constexpr bool copyable = false;
};

// the same wrappers around reference-sending senders.  An invocation yields val * 100 (a fresh copy of the
// contained sender is connected each time, so its call counter starts at 0) if the delivered string is the
// cell's text AND the cell is unchanged afterwards, -8 otherwise
static std::vector<std::shared_ptr<std::string>> g_cells;    // cell of the object created with val v
static int ref_result(int sig, std::string const& got)
{
    if (sig != 1) return -2;
    for (std::size_t v = 1; v < g_cells.size(); ++v)
        if (g_cells[v] && got == cell_text((int) v)) return *g_cells[v] == cell_text((int) v) ? (int) v * 100 : -8;
    return -8;
}
template <>
struct traits<k_any_sender_ref>
{
    using W = ex::any_sender<std::string>;
    template <typename P>
    static W mk(int v)
    {
        if ((int) g_cells.size() <= v) g_cells.resize(v + 1);
        g_cells[v] = std::make_shared<std::string>(cell_text(v));
        return W(rsender<P>{P(v), g_cells[v]});
    }
    static W make(int v, bool big) { return big ? mk<payload<96>>(v) : mk<payload<0>>(v); }
    static int invoke(W& w)
    {
        std::string out;
        int sig = 0;
        auto o = ex::connect(w, str_receiver{&out, &sig});
        ex::start(o);
        return ref_result(sig, out);
    }
    static constexpr bool copyable = true;
};
template <>
struct traits<k_unique_any_sender_ref>
{
    using W = ex::unique_any_sender<std::string>;
    template <typename P>
    static W mk(int v)
    {
        if ((int) g_cells.size() <= v) g_cells.resize(v + 1);
        g_cells[v] = std::make_shared<std::string>(cell_text(v));
        return W(rsender<P>{P(v), g_cells[v]});
    }
    static W make(int v, bool big) { return big ? mk<mo_payload<96>>(v) : mk<mo_payload<0>>(v); }
    static int invoke(W& w)
    {
        std::string out;
        int sig = 0;
        {
            auto o = ex::connect(std::move(w), str_receiver{&out, &sig});
            ex::start(o);
        }
        return ref_result(sig, out);
    }
    static constexpr bool copyable = false;
};

template <kind_t K>
static std::string run_case(std::vector<step> const& steps, int nslots)
{
    using T = traits<K>;
    using W = typename T::W;
    int base = g_live.load();
    int ledger_base = g_ledger_errors;
    std::string err;
    {
        std::vector<W> w(nslots + 1);
        int nextid = 1;
        for (std::size_t k = 0; k < steps.size() && err.empty(); ++k)
        {
            step const& s = steps[k];
            int res = 0;
            try
            {
                if (s.op == "make") w[s.i] = T::make(nextid++, s.big != 0);
                else if (s.op == "copy")
                {
                    if constexpr (T::copyable)
                    {
                        W const& src = w[s.j];
                        bool will_copy = s.i != s.j && !src.empty();
                        w[s.i] = src;
                        if (will_copy) ++nextid;
                    }
                }
                else if (s.op == "move") w[s.i] = std::move(w[s.j]);
                else if (s.op == "reset") w[s.i].reset();
                else if (s.op == "swap")
                {
                    // the wrapper's own swap where it has one (alternating with the generic std::swap)
                    if constexpr (K == k_function || K == k_unique_function)
                    {
                        if ((k + s.i) % 2 == 0) w[s.i].swap(w[s.j]);
                        else
                        {
                            using std::swap;
                            swap(w[s.i], w[s.j]);
                        }
                    }
                    else
                    {
                        using std::swap;
                        swap(w[s.i], w[s.j]);
                    }
                }
                else if (s.op == "invoke") res = T::invoke(w[s.i]);
            }
            catch (pika::exception const& e)
            {
                res = e.get_error() == pika::error::bad_function_call ? -1 : -5;
            }
            catch (...)
            {
                res = -6;
            }
            std::ostringstream o;
            if (s.op == "invoke" && res != s.res) o << "step " << k << " invoke result " << res << " expected " << s.res;
            for (int i = 1; i <= nslots && o.str().empty(); ++i)
            {
                bool e = w[i].empty();
                bool b = static_cast<bool>(w[i]);
                if (e != (s.empty[i - 1] != 0) || b == e)
                    o << "step " << k << " (" << s.op << " " << s.i << " " << s.j << ") slot " << i << " empty()=" << e
                      << " bool=" << b << " expected empty=" << s.empty[i - 1];
            }
            if (o.str().empty() && g_live.load() - base != s.live)
                o << "step " << k << " (" << s.op << " " << s.i << " " << s.j << ") live objects " << (g_live.load() - base)
                  << " expected " << s.live;
            err = o.str();
        }
    }
    if (err.empty() && g_ledger_errors != ledger_base)
        err = "end: a contained object was destroyed twice or a never-constructed object was destroyed";
    if (err.empty() && g_live.load() != base)
    {
        std::ostringstream o;
        o << "end: " << (g_live.load() - base) << " contained objects not destroyed exactly once";
        err = o.str();
    }
    return err;
}

int main(int argc, char** argv)
{
    if (argc < 4) return 2;
    std::string kind = argv[1];
    std::ifstream in(argv[2]);
    FILE* out = std::fopen(argv[3], "w");
    if (!in || !out) return 2;
    std::string line;
    long idx = 0, bad = 0;
    while (std::getline(in, line))
    {
        ++idx;
        std::vector<step> steps;
        std::stringstream ls(line);
        std::string part;
        int nslots = 0;
        while (std::getline(ls, part, ';'))
        {
            std::stringstream ps(part);
            step s;
            ps >> s.op >> s.i >> s.j >> s.big >> s.live >> s.res;
            int e;
            while (ps >> e) s.empty.push_back(e);
            nslots = (int) s.empty.size();
            steps.push_back(s);
        }
        std::string err;
        if (kind == "function") err = run_case<k_function>(steps, nslots);
        else if (kind == "unique_function") err = run_case<k_unique_function>(steps, nslots);
        else if (kind == "any_sender") err = run_case<k_any_sender>(steps, nslots);
        else if (kind == "unique_any_sender") err = run_case<k_unique_any_sender>(steps, nslots);
        else if (kind == "any_sender_ref") err = run_case<k_any_sender_ref>(steps, nslots);
        else if (kind == "unique_any_sender_ref") err = run_case<k_unique_any_sender_ref>(steps, nslots);
        else return 2;
        if (!err.empty())
        {
            ++bad;
            std::string esc;
            for (char c : err) esc += (c == '"' ? '\'' : c);
            std::fprintf(out, "{\"case\":%ld,\"error\":\"%s\"}\n", idx, esc.c_str());
        }
    }
    std::fprintf(out, "{\"done\":%ld,\"bad\":%ld}\n", idx, bad);
    std::fclose(out);
    return 0;
}
