// C03 step-level harness for the shared state behind ensure_started / split: the hooked steps of the
// completing thread and of every consumer's start() (ss.done.flag, ss.done.locked, ss.add.locked,
// ss.add.store), the start of every consumer and every delivered signal are recorded and validated by
// TLC against spec/SharedStateImpl.tla (spec/SharedStateStepTrace.tla).  No runtime is needed: the
// predecessor completes on a plain thread, every consumer is started by its own thread, and the
// start times are swept across the completion.
//
// usage: ss_harness <trace.ndjson> <seed> <nhist> <perturb 0|1>
#include <pika/execution.hpp>

#include "vlog.hpp"

#include <atomic>
#include <chrono>
#include <memory>
#include <optional>
#include <thread>
#include <vector>

namespace ex = pika::execution::experimental;
using vlog::ev;
using clk = std::chrono::steady_clock;

static thread_local int tl_actor = 0;    // 100 = completer, 1..3 = consumer k, 0 = main
static void record_hook(char const* site, void const* obj, std::uint64_t a, std::uint64_t b) noexcept
{
    if (site[0] == 's' && site[1] == 's' && site[2] == '.') ev("hk").s("site", site).i("x", tl_actor).done();
    vctl::perturb(site, obj, a, b);
}

static void spin_us(unsigned us)
{
    auto t = clk::now() + std::chrono::microseconds(us);
    while (clk::now() < t) {}
}

// leaf whose completion comes from its own thread after a delay
struct async_leaf
{
    PIKA_STDEXEC_SENDER_CONCEPT
    unsigned delay_us;
    std::shared_ptr<std::vector<std::thread>> threads;
    template <template <typename...> class Tuple, template <typename...> class Variant>
    using value_types = Variant<Tuple<int>>;
    template <template <typename...> class Variant>
    using error_types = Variant<std::exception_ptr>;
    static constexpr bool sends_done = false;
    using completion_signatures = ex::completion_signatures<ex::set_value_t(int), ex::set_error_t(std::exception_ptr)>;
    template <typename R>
    struct op
    {
        unsigned delay_us;
        std::shared_ptr<std::vector<std::thread>> threads;
        std::decay_t<R> r;
        void start() & noexcept
        {
            threads->emplace_back([this] {
                tl_actor = 100;
                spin_us(delay_us);
                ex::set_value(std::move(r), 7);
            });
        }
    };
    template <typename R>
    op<R> connect(R&& r) &&
    {
        return op<R>{delay_us, threads, std::forward<R>(r)};
    }
    template <typename R>
    op<R> connect(R&& r) const&
    {
        return op<R>{delay_us, threads, std::forward<R>(r)};
    }
};

struct k_receiver
{
    PIKA_STDEXEC_RECEIVER_CONCEPT
    int k;
    std::atomic<int>* delivered;
    template <typename... Ts>
    void set_value(Ts&&...) && noexcept
    {
        ev("deliver").i("k", k).i("x", tl_actor).done();
        ++*delivered;
    }
    void set_error(std::exception_ptr) && noexcept
    {
        ev("deliver").i("k", k).i("x", tl_actor).i("err", 1).done();
        ++*delivered;
    }
    void set_stopped() && noexcept
    {
        ev("deliver").i("k", k).i("x", tl_actor).i("stopped", 1).done();
        ++*delivered;
    }
    constexpr ex::empty_env get_env() const& noexcept { return {}; }
};

template <typename Sender>
static void run_consumers(Sender&& snd, int K, vlog::rng& R, std::atomic<int>& delivered,
    std::shared_ptr<std::vector<std::thread>> const& completers)
{
    using S = std::decay_t<Sender>;
    using op_t = decltype(ex::connect(std::declval<S>(), std::declval<k_receiver>()));
    std::vector<std::optional<op_t>> ops(K + 1);
    for (int k = 1; k <= K; ++k)
    {
        if constexpr (std::is_copy_constructible_v<S>)
        {
            S copy = snd;
            ops[k].emplace(pika::detail::with_result_of(
                [&] { return ex::connect(std::move(copy), k_receiver{k, &delivered}); }));
        }
        else
        {
            ops[k].emplace(pika::detail::with_result_of(
                [&] { return ex::connect(std::move(snd), k_receiver{k, &delivered}); }));
        }
    }
    std::atomic<int> go{0};
    std::vector<std::thread> ts;
    for (int k = 1; k <= K; ++k)
    {
        unsigned d = (unsigned) R.below(200);
        ts.emplace_back([&, k, d] {
            tl_actor = k;
            while (!go.load()) {}
            spin_us(d);
            ev("start").i("k", k).done();
            ex::start(*ops[k]);
            ev("start_ret").i("k", k).done();
        });
    }
    go = 1;
    for (auto& t : ts) t.join();
    // every consumer must be signalled; a lost continuation shows up here
    auto t0 = clk::now();
    while (delivered.load() < K && clk::now() - t0 < std::chrono::seconds(12))
        std::this_thread::sleep_for(std::chrono::microseconds(200));
    if (delivered.load() < K)
    {
        ev("quiescent").i("delivered", delivered.load()).i("consumers", K).done();
        vlog::flush();
        vlog::hang_pause();
        _exit(0);
    }
    for (auto& t : *completers) t.join();
    completers->clear();
}

int main(int argc, char** argv)
{
    if (argc < 5) return 2;
    vlog::init(argv[1]);
    std::uint64_t seed = std::strtoull(argv[2], nullptr, 10);
    int nhist = std::atoi(argv[3]);
    int perturb = std::atoi(argv[4]);
    vlog::start_watchdog(170000);
    if (perturb) vctl::install(seed, 50, 100, 120, "ss.");
    pika::verif::exchange_hook(&record_hook);
    vlog::rng R(seed * 2654435761u + 11);
    for (int h = 0; h < nhist; ++h)
    {
        int kind = (int) R.below(2);    // 0 ensure_started, 1 split
        int K = kind == 0 ? 1 : 1 + (int) R.below(3);
        auto completers = std::make_shared<std::vector<std::thread>>();
        std::atomic<int> delivered{0};
        unsigned delay = (unsigned) R.below(200);
        ev("init").i("kind", kind).i("consumers", K).done();
        if (kind == 0)
            run_consumers(ex::ensure_started(async_leaf{delay, completers}), K, R, delivered, completers);
        else run_consumers(ex::split(async_leaf{delay, completers}), K, R, delivered, completers);
        ev("reset").done();
        vlog::flush();
    }
    vlog::flush();
    return 0;
}
