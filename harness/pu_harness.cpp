// C19 conformance harness: a second thread pool "w" (3 workers, elastic or not, several scheduling
// policies) whose processing units and the pool itself are suspended and resumed from OS threads
// and from tasks of the default pool while hinted and unhinted work is submitted to it.
// Histories are validated against spec/PuAbs.tla.
//
// usage: pu_harness <trace.ndjson> <seed> <nhist> <perturb 0|1> <policy index 0..5> <elastic 0|1>
#include <pika/execution.hpp>
#include <pika/init.hpp>
#include <pika/modules/resource_partitioner.hpp>
#include <pika/modules/schedulers.hpp>
#include <pika/thread.hpp>
#include <pika/threading_base/scheduler_mode.hpp>
#include <pika/threading_base/thread_pool_base.hpp>

#include "vlog.hpp"

#include <atomic>
#include <chrono>
#include <thread>
#include <vector>

namespace ex = pika::execution::experimental;
using vlog::ev;
using clk = std::chrono::steady_clock;

static void call(int a, char const* op, long w) { ev("call").i("a", a).s("op", op).i("w", w).done(); }
static void ret(int a, long r) { ev("ret").i("a", a).i("res", r).done(); }

int main(int argc, char** argv)
{
    if (argc < 7) return 2;
    vlog::init(argv[1]);
    std::uint64_t seed = std::strtoull(argv[2], nullptr, 10);
    int nhist = std::atoi(argv[3]);
    int perturb = std::atoi(argv[4]);
    int pol = std::atoi(argv[5]);
    bool elastic = std::atoi(argv[6]) != 0;
    vlog::start_watchdog(170000);
    if (perturb) vctl::install(seed, 30, 100, 300, "sb.,pool.,tq.schedule,tq.pop,sl.got");

    static pika::resource::scheduling_policy const POL[] = {pika::resource::scheduling_policy::static_,
        pika::resource::scheduling_policy::local_priority_fifo,
        pika::resource::scheduling_policy::static_priority, pika::resource::scheduling_policy::local,
        pika::resource::scheduling_policy::abp_priority_fifo,
        pika::resource::scheduling_policy::shared_priority};
    bool steals = !(pol == 0 || pol == 2);
    constexpr int NW = 3;
    pika::init_params ip;
    ip.cfg = {"pika.os_threads=5"};
    ip.rp_callback = [&](auto& rp, pika::program_options::variables_map const&) {
        using pika::threads::scheduler_mode;
        auto mode = scheduler_mode::default_mode;
        if (elastic) mode = mode | scheduler_mode::enable_elasticity;
        rp.create_thread_pool("w", POL[pol], mode);
        int added = 0;
        for (auto const& d : rp.sockets())
            for (auto const& c : d.cores())
                for (auto const& p : c.pus())
                    if (added < NW)
                    {
                        rp.add_resource(p, "w");
                        ++added;
                    }
    };
    char const* av[] = {argv[0], nullptr};
    pika::start(nullptr, 1, av, ip);
    pika::threads::detail::thread_pool_base& tp = pika::resource::get_thread_pool("w");
    pika::threads::detail::thread_pool_base& dtp = pika::resource::get_thread_pool("default");
    auto wsched = ex::thread_pool_scheduler{&tp};
    auto dsched = ex::thread_pool_scheduler{&dtp};
    vlog::rng R(seed * 134775813 + 1);

    for (int hi = 0; hi < nhist; ++hi)
    {
        ev("init").i("elastic", elastic).i("pol", pol).i("steals", steals).done();
        std::atomic<int> ndone{0};
        int nsub = 0;
        bool suspended[NW] = {false, false, false};
        auto submit = [&](int hint) {
            int t = ++nsub;
            ev("submit").i("t", t).i("hint", hint).done();
            auto body = [t, &ndone] {
                ev("run").i("t", t).i("w", (long long) pika::get_local_worker_thread_num()).done();
                ++ndone;
            };
            if (hint >= 0)
                ex::execute(ex::with_hint(wsched,
                                pika::execution::thread_schedule_hint(
                                    pika::execution::thread_schedule_hint_mode::thread, (std::int16_t) hint)),
                    body);
            else ex::execute(wsched, body);
        };
        // run `f` (which issues calls as actor a) either on this OS thread or on a default-pool task
        auto on_actor = [&](int a, auto f) {
            if (a == 1) { f(); }
            else
            {
                std::atomic<int> fin{0};
                ex::execute(dsched, [&] {
                    f();
                    fin = 1;
                });
                auto t0 = clk::now();
                while (!fin.load())
                {
                    std::this_thread::sleep_for(std::chrono::microseconds(200));
                    if (clk::now() - t0 > std::chrono::seconds(12))
                    {
                        ev("quiescent").done();
                        vlog::flush();
                        _exit(0);
                    }
                }
            }
        };
        int nsteps = 4 + (int) R.below(8);
        for (int s = 0; s < nsteps && nsub < 20; ++s)
        {
            int a = 1 + (int) R.below(2);
            int k = (int) R.below(10);
            int w = (int) R.below(NW);
            bool use_ec = R.chance(1, 2);
            int nrun = 0;
            for (bool b : suspended) nrun += !b;
            if (k < 3)
            {
                // suspend a PU (never the last running one: the pool must keep making progress)
                if (elastic && (suspended[w] || nrun <= 1)) continue;
                on_actor(a, [&] {
                    call(a, "suspend_pu", w);
                    long r = 1;
                    if (use_ec)
                    {
                        pika::error_code ec(pika::throwmode::lightweight);
                        tp.suspend_processing_unit_direct((std::size_t) w, ec);
                        if (ec) r = -1;
                    }
                    else
                    {
                        try
                        {
                            tp.suspend_processing_unit_direct((std::size_t) w);
                        }
                        catch (pika::exception const&)
                        {
                            r = -1;
                        }
                    }
                    ret(a, r);
                });
                if (elastic) suspended[w] = true;
            }
            else if (k < 5)
            {
                on_actor(a, [&] {
                    call(a, "resume_pu", w);
                    tp.resume_processing_unit_direct((std::size_t) w);
                    ret(a, 1);
                });
                suspended[w] = false;
            }
            else if (k == 5 && elastic)
            {
                // concurrent: one thread suspends while another submits hinted work to that PU
                if (suspended[w] || nrun <= 1) continue;
                std::thread sub([&] {
                    for (int i = 0; i < 3; ++i) submit(w);
                });
                call(1, "suspend_pu", w);
                tp.suspend_processing_unit_direct((std::size_t) w);
                ret(1, 1);
                sub.join();
                suspended[w] = true;
            }
            else if (k == 6)
            {
                // whole pool (from outside): suspend, submit while suspended, resume
                call(1, "suspend_pool", 0);
                tp.suspend_direct();
                ret(1, 1);
                int n = (int) R.below(3);
                for (int i = 0; i < n; ++i) submit(R.chance(1, 2) ? (int) R.below(NW) : -1);
                call(1, "resume_pool", 0);
                tp.resume_direct();
                ret(1, 1);
                for (bool& b : suspended) b = false;
            }
            else if (k == 8 && steals && elastic)
            {
                // work parked on sleeping workers must be taken over by the workers that are resumed: the
                // whole pool is suspended, tasks are submitted, only a part of the pool is resumed, and the
                // tasks must complete (and a later pool suspend must return) without resuming the rest
                call(1, "suspend_pool", 0);
                tp.suspend_direct();
                ret(1, 1);
                for (bool& b : suspended) b = true;
                int n = 2 + (int) R.below(4);
                for (int i = 0; i < n; ++i) submit(R.chance(1, 2) ? -1 : (int) R.below(NW));
                int first = (int) R.below(NW);
                int nres = 1 + (int) R.below(NW - 1);
                for (int i = 0; i < nres; ++i)
                {
                    int rw = (first + i) % NW;
                    on_actor(a, [&] {
                        call(a, "resume_pu", rw);
                        tp.resume_processing_unit_direct((std::size_t) rw);
                        ret(a, 1);
                    });
                    suspended[rw] = false;
                }
                ev("await").done();
                auto t0 = clk::now();
                while (ndone.load() < nsub)
                {
                    std::this_thread::sleep_for(std::chrono::microseconds(200));
                    if (clk::now() - t0 > std::chrono::seconds(12))
                    {
                        ev("quiescent").i("done", ndone.load()).i("submitted", nsub).done();
                        vlog::flush();
                        vlog::hang_pause();
                        _exit(0);
                    }
                }
                ev("awaited").done();
                if (R.chance(1, 2))
                {
                    call(1, "suspend_pool", 0);
                    tp.suspend_direct();
                    ret(1, 1);
                    call(1, "resume_pool", 0);
                    tp.resume_direct();
                    ret(1, 1);
                    for (bool& b : suspended) b = false;
                }
            }
            else if (k == 7 && !steals && elastic)
            {
                // a non-stealing pool must refuse to suspend one of its own PUs from inside
                std::atomic<int> fin{0};
                ex::execute(wsched, [&] {
                    call(3, "suspend_pu_self", w);
                    pika::error_code ec(pika::throwmode::lightweight);
                    tp.suspend_processing_unit_direct((std::size_t) w, ec);
                    ret(3, ec ? -1 : 1);
                    fin = 1;
                });
                auto t0 = clk::now();
                while (!fin.load() && clk::now() - t0 < std::chrono::seconds(12))
                    std::this_thread::sleep_for(std::chrono::microseconds(200));
            }
            else
            {
                int n = 1 + (int) R.below(3);
                for (int i = 0; i < n; ++i) submit(R.chance(2, 3) ? (int) R.below(NW) : -1);
            }
        }
        // end: resume everything, then every task must have run
        for (int w = 0; w < NW; ++w)
        {
            call(1, "resume_pu", w);
            tp.resume_processing_unit_direct((std::size_t) w);
            ret(1, 1);
        }
        auto t0 = clk::now();
        while (ndone.load() < nsub)
        {
            std::this_thread::sleep_for(std::chrono::microseconds(200));
            if (clk::now() - t0 > std::chrono::seconds(12))
            {
                ev("quiescent").i("done", ndone.load()).i("submitted", nsub).done();
                vlog::flush();
                vlog::hang_pause();
                _exit(0);
            }
        }
        ev("reset").done();
    }
    pika::finalize();
    pika::stop();
    vlog::flush();
    return 0;
}
