// C01 / C05 conformance harness: several runtime incarnations per process (different worker counts
// and scheduling policies), each running a random task forest (fan-out, chains, yields, blocking
// on children, priorities, stack sizes, submitters inside and outside the runtime) under a random
// life-cycle script (wait / suspend / resume / finalize / stop, with or without an entry function).
// A hook monitor watches the scheduling loop for a task object run by two workers at once.
// Histories are validated against spec/LifeAbs.tla (via LifeTrace.tla).
//
// usage: life_harness <trace.ndjson> <seed> <nincarnations> <perturb 0|1> [fixed pika options]
#include <pika/execution.hpp>
#include <pika/init.hpp>
#include <pika/semaphore.hpp>
#include <pika/thread.hpp>

#include "vlog.hpp"

#include <atomic>
#include <chrono>
#include <functional>
#include <memory>
#include <thread>
#include <vector>

namespace ex = pika::execution::experimental;
using vlog::ev;
using clk = std::chrono::steady_clock;

// ---------------------------------------------------------------------------------------------
// single-runner monitor fed by the sl.run.begin / sl.run.end hooks
struct slot
{
    std::atomic<void const*> obj{nullptr};
    std::atomic<int> running{0};
};
static slot g_slots[8192];
static slot* find_slot(void const* obj)
{
    std::size_t h = (reinterpret_cast<std::uintptr_t>(obj) >> 6) % 8192;
    for (std::size_t i = 0; i < 8192; ++i)
    {
        slot& s = g_slots[(h + i) % 8192];
        void const* cur = s.obj.load(std::memory_order_acquire);
        if (cur == obj) return &s;
        if (cur == nullptr)
        {
            void const* exp = nullptr;
            if (s.obj.compare_exchange_strong(exp, obj)) return &s;
            if (exp == obj) return &s;
        }
    }
    return nullptr;
}
static std::atomic<long> g_phases{0};
static void monitor_hook(char const* site, void const* obj, std::uint64_t a, std::uint64_t b) noexcept
{
    if (site[0] == 's' && site[1] == 'l' && site[3] == 'r')    // sl.run.begin / sl.run.end
    {
        slot* s = find_slot(obj);
        if (s)
        {
            if (site[7] == 'b')
            {
                g_phases.fetch_add(1, std::memory_order_relaxed);
                if (s->running.exchange(1) != 0) ev("double_run").i("w", (long long) a).done();
            }
            else { s->running.store(0); }
        }
    }
    vctl::perturb(site, obj, a, b);
}

// ---------------------------------------------------------------------------------------------
struct tdesc
{
    int id;
    int parent;
    int yields;
    std::vector<int> children;
    bool wait_children;    // block on a semaphore until all children have finished
    int prio;              // 0 normal 1 high 2 low
    int stack;             // 0 default 1 small 2 medium 3 large
    int spin;
    int boost;             // number of back-off yields (yield_k, k >= 16: "pending_boost" yields)
    int relay;             // > 0: the body is a relay of that many tiny tasks, each creating its successor right before
                           // it finishes (at every hand-over exactly one task exists, just created); the task
                           // counts as finished when the last link has run
    bool late_spawn;       // children are created one at a time at the END of the body, with gaps: the parent
                           // is then often the only task alive while a child comes and goes
};

struct program
{
    std::vector<tdesc> t;    // index = id (0 unused)
    std::vector<std::unique_ptr<pika::counting_semaphore<>>> sem;
    std::atomic<int> done{0};
};

static void run_task(program* P, int id);

static void submit(program* P, int id, int parent, int ext)
{
    tdesc const& d = P->t[id];
    ev("submit").i("t", id).i("p", parent).i("x", ext).done();
    auto sched = ex::thread_pool_scheduler{};
    auto s1 = ex::with_priority(sched,
        d.prio == 1 ? pika::execution::thread_priority::high :
            d.prio == 2                                      ? pika::execution::thread_priority::low :
                                                               pika::execution::thread_priority::normal);
    auto s2 = ex::with_stacksize(s1,
        d.stack == 1     ? pika::execution::thread_stacksize::small_ :
            d.stack == 2 ? pika::execution::thread_stacksize::medium :
            d.stack == 3 ? pika::execution::thread_stacksize::large :
                           pika::execution::thread_stacksize::default_);
    ex::execute(s2, [P, id] { run_task(P, id); });
}

static void finish_task(program* P, int id)
{
    tdesc const& d = P->t[id];
    ev("exit").i("t", id).done();
    if (d.parent > 0 && P->t[d.parent].wait_children) P->sem[d.parent]->release();
    ++P->done;
}

static void relay_link(program* P, int id, int left)
{
    if (left <= 0)
    {
        finish_task(P, id);
        return;
    }
    ex::execute(ex::thread_pool_scheduler{}, [P, id, left] { relay_link(P, id, left - 1); });
}

static void run_task(program* P, int id)
{
    tdesc const& d = P->t[id];
    ev("enter").i("t", id).i("w", (long long) pika::get_worker_thread_num()).done();
    if (d.relay > 0)
    {
        relay_link(P, id, d.relay);
        return;
    }
    for (int s = 0; s < d.spin * 100; ++s) asm volatile("" ::: "memory");
    if (!d.late_spawn)
        for (int c : d.children) submit(P, c, id, 0);
    for (int y = 0; y < d.yields; ++y)
    {
        ev("pe").i("t", id).done();
        pika::this_thread::yield();
        ev("pb").i("t", id).i("w", (long long) pika::get_worker_thread_num()).done();
    }
    if (d.boost > 0)
    {
        // the back-off used by contended spinlocks / yield_while / barrier: from the 16th round on the
        // task yields with the "pending_boost" state and is rescheduled with boosted priority
        int left = 16 + d.boost;
        ev("pe").i("t", id).done();
        pika::util::yield_while([&left] { return --left > 0; }, "life_harness");
        ev("pb").i("t", id).i("w", (long long) pika::get_worker_thread_num()).done();
    }
    if (d.wait_children)
    {
        for (std::size_t k = 0; k < d.children.size(); ++k)
        {
            ev("pe").i("t", id).done();
            P->sem[id]->acquire();
            ev("pb").i("t", id).i("w", (long long) pika::get_worker_thread_num()).done();
        }
    }
    if (d.late_spawn)
        for (int c : d.children)
        {
            submit(P, c, id, 0);
            for (int s = 0; s < 4000 + d.spin * 3000; ++s) asm volatile("" ::: "memory");
        }
    finish_task(P, id);
}

static std::unique_ptr<program> make_program(vlog::rng& R, int ntasks)
{
    auto P = std::make_unique<program>();
    P->t.resize(ntasks + 1);
    P->sem.resize(ntasks + 1);
    // "trickle": one root that creates all other tasks one at a time at the end of its body, each of them short:
    // again and again the root is the only task alive while a child is created, runs and terminates
    bool trickle = R.chance(1, 4);
    for (int i = 1; i <= ntasks; ++i)
    {
        tdesc& d = P->t[i];
        d.id = i;
        // parent: 0 (root, submitted from outside or by the entry function) or an earlier task
        d.parent = (i == 1 || R.chance(1, 4)) ? 0 : 1 + (int) R.below(i - 1);
        if (trickle && i > 1) d.parent = 1;
        d.yields = (int) R.below(4);
        d.wait_children = R.chance(1, 3);
        d.prio = R.chance(1, 5) ? 1 + (int) R.below(2) : 0;
        d.stack = R.chance(1, 4) ? 1 + (int) R.below(3) : 0;
        d.spin = (int) R.below(3);
        d.boost = R.chance(1, 4) ? 1 + (int) R.below(40) : 0;
        if (trickle && i > 1)
        {
            d.yields = (int) R.below(2);
            d.wait_children = false;
            d.boost = 0;
            d.spin = 0;
        }
        if (d.parent > 0) P->t[d.parent].children.push_back(i);
    }
    for (int i = 1; i <= ntasks; ++i)
    {
        P->t[i].late_spawn = !P->t[i].children.empty() && R.chance(1, 3);
        if (trickle && i == 1 && !P->t[i].children.empty()) P->t[i].late_spawn = true;
        if (P->t[i].late_spawn) P->t[i].wait_children = false;
    }
    // some childless tasks are relays
    bool relays = R.chance(1, 3);
    for (int i = 1; i <= ntasks; ++i)
    {
        P->t[i].relay = 0;
        if (relays && P->t[i].children.empty() && R.chance(1, 3)) P->t[i].relay = 100 + (int) R.below(1200);
    }
    for (int i = 1; i <= ntasks; ++i)
        if (P->t[i].wait_children) P->sem[i] = std::make_unique<pika::counting_semaphore<>>(0);
    return P;
}

static char const* SCHED[] = {"local-priority-fifo", "local", "static", "static-priority",
    "abp-priority-fifo", "abp-priority-lifo", "local-priority-lifo", "shared-priority"};

// run `f` (a blocking life-cycle call) with a hang watchdog
template <typename F>
static bool guarded(char const* what, F&& f)
{
    std::atomic<int> finished{0};
    std::thread wd([&] {
        auto t0 = clk::now();
        long last = g_phases.load();
        while (!finished.load())
        {
            std::this_thread::sleep_for(std::chrono::milliseconds(2));
            long p = g_phases.load();
            if (p != last)
            {
                last = p;
                t0 = clk::now();
            }
            if (clk::now() - t0 > std::chrono::seconds(12))
            {
                ev("quiescent").s("in", what).done();
                vlog::flush();
                vlog::hang_pause();
                _exit(0);
            }
        }
    });
    f();
    finished = 1;
    wd.join();
    return true;
}

int main(int argc, char** argv)
{
    if (argc < 5) return 2;
    vlog::init(argv[1]);
    std::uint64_t seed = std::strtoull(argv[2], nullptr, 10);
    int ninc = std::atoi(argv[3]);
    int perturb = std::atoi(argv[4]);
    vlog::start_watchdog(170000);
    vctl::g_seed = seed;
    if (perturb)
        vctl::install(seed, 15, 100, 150, "sl.got,sl.active,sl.store,tq.,sts.,agent.yield,gac.,tm.,sb.suspend.,pool.pu.");
        // long enough for a freshly created task to run to completion on another worker
        vctl::hot("tq.create.staged", 40, 700);
    pika::verif::exchange_hook(&monitor_hook);
    vlog::rng R(seed * 16807 + 3);

    for (int inc = 1; inc <= ninc; ++inc)
    {
        int threads = 1 + (int) R.below(4);
        if (R.chance(1, 8)) threads = R.chance(1, 2) ? 8 : 16;    // occasionally as many workers as the machine has cores
        char const* sched = SCHED[R.below(8)];
        bool with_main = R.chance(1, 2);
        int rv = with_main ? (int) R.below(100) : 0;
        int ntasks = 4 + (int) R.below(24);
        // "relay mode": every task is a root relay, submitted one at a time by the driver, each followed by its
        // own pika::wait() - the runtime is never quiet and never holds more than one (just created) task
        bool relay_mode = R.chance(1, 6);
        if (relay_mode) ntasks = 3 + (int) R.below(8);
        auto P = make_program(R, ntasks);
        std::vector<int> seq_roots;
        if (relay_mode)
            for (int i = 1; i <= ntasks; ++i)
            {
                tdesc& d = P->t[i];
                d.parent = 0;
                d.children.clear();
                d.yields = 0;
                d.wait_children = false;
                d.boost = 0;
                d.late_spawn = false;
                d.relay = 300 + (int) R.below(1700);
                seq_roots.push_back(i);
            }
        std::vector<int> roots;
        for (int i = 1; i <= ntasks; ++i)
            if (P->t[i].parent == 0 && !relay_mode) roots.push_back(i);
        // roots are split between: the entry function (if any), the driver thread, and a second
        // external submitter thread; and between "before wait", "while suspended" and "late"
        std::vector<int> by_main, by_driver, by_ext2, while_suspended, late;
        for (int r : roots)
        {
            int k = (int) R.below(10);
            if (with_main && k < 3) by_main.push_back(r);
            else if (k < 6) by_driver.push_back(r);
            else if (k < 7) by_ext2.push_back(r);
            else if (k < 8) while_suspended.push_back(r);
            else late.push_back(r);
        }
        bool do_wait = R.chance(2, 3), do_suspend = R.chance(1, 2), finalize_in_main = with_main && R.chance(1, 2);
        if (!do_suspend)
        {
            for (int r : while_suspended) late.push_back(r);
            while_suspended.clear();
        }

        std::string a1 = "--pika:threads=" + std::to_string(threads);
        std::string a2 = std::string("--pika:scheduler=") + sched;
        // the scheduling loop treats every max_busy_loop_count-th phase of a worker specially
        static char const* BUSY[] = {"2000", "3", "7", "31", "120"};
        std::string a3 = std::string("--pika:ini=pika.max_busy_loop_count=") + BUSY[R.below(5)];
        // a small limit on the number of thread objects per queue: further staged tasks are converted only
        // when nothing else is runnable (many programs here have most of their tasks blocked on children)
        static char const* MAXT[] = {"1000", "1000", "1000", "3", "8", "20"};
        std::string a4 = std::string("--pika:ini=pika.thread_queue.max_thread_count=") + MAXT[R.below(6)];
        std::vector<char const*> av = {argv[0], a1.c_str(), a2.c_str(), a3.c_str(), a4.c_str()};
        for (int i = 5; i < argc; ++i) av.push_back(argv[i]);
        ev("start").i("inc", inc).i("threads", threads).s("sched", sched).i("main", with_main).i("rv", rv).i("ntasks", ntasks).done();
        program* PP = P.get();
        if (with_main)
        {
            pika::start(
                [PP, by_main, rv, finalize_in_main]() -> int {
                    for (int r : by_main) submit(PP, r, 0, 1);
                    if (finalize_in_main)
                    {
                        ev("finalize").done();
                        pika::finalize();
                    }
                    return rv;
                },
                (int) av.size(), av.data());
        }
        else { pika::start(nullptr, (int) av.size(), av.data()); }

        for (int r : seq_roots)
        {
            submit(PP, r, 0, 2);
            ev("wait_call").done();
            guarded("wait", [] { pika::wait(); });
            ev("wait_ret").done();
        }
        std::thread ext2([&] {
            for (int r : by_ext2) submit(PP, r, 0, 3);
        });
        for (int r : by_driver) submit(PP, r, 0, 2);
        ext2.join();    // (so every submission precedes the wait below)
        if (do_wait)
        {
            ev("wait_call").done();
            guarded("wait", [] { pika::wait(); });
            ev("wait_ret").done();
        }
        if (do_suspend)
        {
            // some back-to-back suspend/resume cycles first (resume racing with the workers that
            // are still falling asleep), then one with work submitted while suspended
            int cycles = R.chance(1, 2) ? (int) R.below(12) : 0;
            for (int c = 0; c <= cycles; ++c)
            {
                ev("suspend_call").done();
                guarded("suspend", [] { pika::suspend(); });
                ev("suspend_ret").done();
                if (c == cycles)
                {
                    for (int r : while_suspended) submit(PP, r, 0, 2);
                    if (R.chance(2, 3)) std::this_thread::sleep_for(std::chrono::milliseconds(2));
                }
                ev("resume_call").done();
                guarded("resume", [] { pika::resume(); });
                ev("resume_ret").done();
            }
        }
        bool stop_first = !finalize_in_main && R.chance(1, 3);
        int res = -1;
        if (stop_first)
        {
            // stop() is already waiting (on an idle, not yet finalized runtime) when another
            // thread submits more work and then calls finalize()
            int delay_ms = 1 + (int) R.below(6);
            std::thread feeder([&] {
                std::this_thread::sleep_for(std::chrono::milliseconds(delay_ms));
                for (int r : late)
                {
                    submit(PP, r, 0, 3);
                    std::this_thread::sleep_for(std::chrono::microseconds(200));
                }
                ev("finalize").done();
                pika::finalize();
            });
            ev("stop_call").done();
            guarded("stop", [&] { res = pika::stop(); });
            feeder.join();
        }
        else
        {
            for (int r : late) submit(PP, r, 0, 2);
            if (!finalize_in_main)
            {
                ev("finalize").done();
                pika::finalize();
            }
            ev("stop_call").done();
            guarded("stop", [&] { res = pika::stop(); });
        }
        ev("stop_ret").i("res", res).i("done", PP->done.load()).done();
    }
    ev("reset").done();
    vlog::flush();
    return 0;
}
