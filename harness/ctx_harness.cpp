// C12 conformance harness: tasks that build up a call stack full of canaries, keep values in
// callee-saved registers and their own floating-point control state and task datum, and yield or
// block (so that they resume on other workers) between operations; finished tasks leave their thread
// object dirty (task datum set, late interruption request) so that recycling must clean it.
// Histories are validated against spec/ContextAbs.tla.
//
// usage: ctx_harness <trace.ndjson> <seed> <nhist> <perturb 0|1> <fpmode 0|1> [pika options]
//   fpmode 1: every task selects its own floating-point control state (rounding mode); see the
//   known finding FpControlStateNotPreserved
#include <pika/execution.hpp>
#include <pika/init.hpp>
#include <pika/semaphore.hpp>
#include <pika/thread.hpp>

#include "vlog.hpp"

#include <xmmintrin.h>

#include <fcntl.h>
#include <unistd.h>

#include <atomic>
#include <chrono>
#include <memory>
#include <thread>
#include <vector>

namespace ex = pika::execution::experimental;
using vlog::ev;
using clk = std::chrono::steady_clock;

enum opk
{
    op_push,
    op_pop,
    op_tld,
    op_yield,
    op_block
};
struct op
{
    opk k;
    int v;
};

struct task_ctx
{
    int t;
    std::vector<op> script;
    std::size_t pos = 0;
    int tld = 0;
    unsigned csr = 0;
    unsigned short cw = 0;
    pika::threads::detail::thread_id_type id;
    pika::counting_semaphore<>* sem = nullptr;
    std::atomic<int>* blocked = nullptr;
    bool bad = false;
};

static std::atomic<std::uintptr_t> g_base_page{0};
static bool g_fpmode = false;

static unsigned short get_cw()
{
    unsigned short cw;
    asm volatile("fnstcw %0" : "=m"(cw));
    return cw;
}
static void set_cw(unsigned short cw) { asm volatile("fldcw %0" : : "m"(cw)); }

// yield or block with values parked in callee-saved registers; returns false if any was clobbered
__attribute__((noinline)) static bool switch_out(task_ctx& c, bool block)
{
    register unsigned long a asm("rbx") = 0x1111000000000000ul + (unsigned long) c.t;
    register unsigned long b asm("r12") = 0x2222000000000000ul + (unsigned long) c.t * 3;
    register unsigned long d asm("r13") = 0x3333000000000000ul + (unsigned long) c.t * 5;
    register unsigned long e asm("r14") = 0x4444000000000000ul + (unsigned long) c.t * 7;
    register unsigned long f asm("r15") = 0x5555000000000000ul + (unsigned long) c.t * 11;
    asm volatile("" : "+r"(a), "+r"(b), "+r"(d), "+r"(e), "+r"(f));
    if (block)
    {
        c.blocked->store(1);
        c.sem->acquire();
    }
    else pika::this_thread::yield();
    asm volatile("" : "+r"(a), "+r"(b), "+r"(d), "+r"(e), "+r"(f));
    return a == 0x1111000000000000ul + (unsigned long) c.t && b == 0x2222000000000000ul + (unsigned long) c.t * 3 &&
        d == 0x3333000000000000ul + (unsigned long) c.t * 5 && e == 0x4444000000000000ul + (unsigned long) c.t * 7 &&
        f == 0x5555000000000000ul + (unsigned long) c.t * 11;
}

static void log_check(task_ctx& c, int depth, bool regs_ok)
{
    bool ok = regs_ok;
    int why = regs_ok ? 0 : 1;
    // SSE control bits (rounding mode, exception masks, FTZ/DAZ); the sticky status flags may change
    if ((_mm_getcsr() & 0xffc0u) != (c.csr & 0xffc0u)) { ok = false; why |= 2; }
    if (get_cw() != c.cw) { ok = false; why |= 4; }                // x87 control word
    if (pika::threads::detail::get_self_id() != c.id) { ok = false; why |= 8; }    // identity
    if (c.bad) why |= 16;
    long tld = (long) pika::this_thread::get_thread_data();
    ev("check").i("t", c.t).i("depth", depth).i("tld", tld).i("ok", (ok || why == 2 || why == 4 || why == 6) && !c.bad).i("fp_ok", (why & 6) == 0).i("why", why).i("w", (long long) pika::get_worker_thread_num()).done();
}

// interpreter: one C++ frame per abstract frame, each with its own canary block
__attribute__((noinline)) static void frame(task_ctx& c, int depth)
{
    constexpr int N = 768;
    volatile unsigned char canary[N];
    for (int i = 0; i < N; ++i) canary[i] = (unsigned char) (c.t * 31 + depth * 7 + i);
    auto verify = [&] {
        for (int i = 0; i < N; ++i)
            if (canary[i] != (unsigned char) (c.t * 31 + depth * 7 + i)) c.bad = true;
    };
    while (c.pos < c.script.size())
    {
        op o = c.script[c.pos++];
        switch (o.k)
        {
        case op_push:
            ev("push").i("t", c.t).done();
            frame(c, depth + 1);
            verify();
            break;
        case op_pop:
            if (depth == 0) break;
            verify();
            ev("pop").i("t", c.t).done();
            return;
        case op_tld:
            c.tld = o.v;
            ev("tld").i("t", c.t).i("v", o.v).done();
            pika::this_thread::set_thread_data((std::size_t) o.v);
            break;
        case op_yield:
        case op_block:
        {
            bool regs = switch_out(c, o.k == op_block);
            verify();
            log_check(c, depth, regs);
            break;
        }
        }
    }
    // script exhausted: unwind
    verify();
    if (depth > 0) ev("pop").i("t", c.t).done();
}

static bool g_guard = false;
static int g_devnull = -1;
static void task_body(task_ctx* c, std::ptrdiff_t want_stack, std::atomic<int>* done)
{
    char here;
    std::uintptr_t top = reinterpret_cast<std::uintptr_t>(&here);
    std::ptrdiff_t sz = pika::this_thread::get_stack_size();
    std::uintptr_t hi_page = (top >> 12) + 1, lo_page = hi_page - (std::uintptr_t) (sz >> 12);
    std::uintptr_t base = g_base_page.load();
    bool clean = !pika::this_thread::interruption_requested() && pika::this_thread::get_thread_data() == 0;
    // the stack really has the configured size: touch it almost to the bottom
    {
        std::ptrdiff_t usable = sz - 20 * 1024;
        volatile char* p = &here;
        for (std::ptrdiff_t off = 4096; off < usable; off += 4096) p[-off] = (char) off;
    }
    // with guard pages the accessible extent below this frame can be measured without risking a fault:
    // write(2) from an inaccessible page fails with EFAULT.  The whole configured size must be usable
    bool extent_ok = true;
    if (g_guard)
    {
        std::ptrdiff_t pages = 0;
        std::uintptr_t a = (top & ~std::uintptr_t(4095)) - 4096;    // the page below this frame's page
        // (a pipe, not /dev/null: the null device never looks at the buffer)
        int pfd[2];
        if (::pipe2(pfd, O_NONBLOCK) == 0)
        {
            char sink;
            while (pages < (sz >> 12) + 4 && ::write(pfd[1], reinterpret_cast<void*>(a), 1) == 1)
            {
                if (::read(pfd[0], &sink, 1) != 1) break;
                ++pages;
                a -= 4096;
            }
            ::close(pfd[0]);
            ::close(pfd[1]);
        }
        else pages = (sz >> 12);
        extent_ok = pages >= (sz >> 12) - 1;
        if (!extent_ok) ev("extent").i("t", c->t).i("pages_below", pages).i("want", (sz >> 12) - 1).done();
    }
    ev("start").i("t", c->t).i("clean", clean).i("size_ok", sz == want_stack && extent_ok).i("lo", (long long) (lo_page - base)).i("hi", (long long) (hi_page - base)).i("w", (long long) pika::get_worker_thread_num()).done();
    c->id = pika::threads::detail::get_self_id();
    // own floating-point control state: rounding mode chosen by the task number
    if (g_fpmode)
    {
        unsigned csr = (_mm_getcsr() & ~0x6000u) | ((unsigned) (c->t % 4) << 13);
        _mm_setcsr(csr);
        unsigned short cw = (unsigned short) ((get_cw() & ~0x0c00) | ((c->t % 4) << 10));
        set_cw(cw);
    }
    c->csr = _mm_getcsr();
    c->cw = get_cw();
    frame(*c, 0);
    if (g_fpmode)
    {
        // restore the default control state before giving the worker back
        _mm_setcsr((_mm_getcsr() & ~0x6000u));
        set_cw((unsigned short) (get_cw() & ~0x0c00));
    }
    ev("finish").i("t", c->t).done();
    // leave the thread object dirty for whoever gets it next
    pika::this_thread::set_thread_data(0xdead0000u + (unsigned) c->t);
    ++*done;
}

int main(int argc, char** argv)
{
    if (argc < 6) return 2;
    vlog::init(argv[1]);
    std::uint64_t seed = std::strtoull(argv[2], nullptr, 10);
    int nhist = std::atoi(argv[3]);
    int perturb = std::atoi(argv[4]);
    g_fpmode = std::atoi(argv[5]) != 0;
    vlog::start_watchdog(170000);
    if (perturb) vctl::install(seed, 15, 100, 120, "tq.,sl.got,sl.active,agent.yield,sl.run.end");
    std::vector<char*> av;
    av.push_back(argv[0]);
    for (int i = 6; i < argc; ++i) av.push_back(argv[i]);
    int ac = (int) av.size();
    for (int i = 6; i < argc; ++i)
        if (std::string(argv[i]) == "--pika:ini=pika.stacks.use_guard_pages=1") g_guard = true;
    g_devnull = ::open("/dev/null", O_WRONLY);
    pika::start(nullptr, ac, av.data());
    vlog::rng R(seed * 279470273 + 5);
    {
        char here;
        g_base_page = (reinterpret_cast<std::uintptr_t>(&here) >> 12) - (1u << 24);    // any base below all stacks of interest
    }
    // learn a base below the task stacks: use the lowest stack seen in a warm-up
    {
        std::atomic<std::uintptr_t> lowest{~std::uintptr_t(0)};
        std::atomic<int> n{0};
        for (int i = 0; i < 16; ++i)
            ex::execute(ex::thread_pool_scheduler{}, [&] {
                char here;
                std::uintptr_t p = reinterpret_cast<std::uintptr_t>(&here) >> 12;
                std::uintptr_t cur = lowest.load();
                while (p < cur && !lowest.compare_exchange_weak(cur, p)) {}
                ++n;
            });
        while (n.load() < 16) std::this_thread::sleep_for(std::chrono::microseconds(100));
        g_base_page = lowest.load() - (1u << 22);
    }
    // default(small), small, medium, large, huge
    static std::ptrdiff_t const SZ[] = {0x10000, 0x10000, 0x20000, 0x200000, 0x2000000};
    static pika::execution::thread_stacksize const SC[] = {pika::execution::thread_stacksize::default_,
        pika::execution::thread_stacksize::small_, pika::execution::thread_stacksize::medium,
        pika::execution::thread_stacksize::large, pika::execution::thread_stacksize::huge};

    for (int hi = 0; hi < nhist; ++hi)
    {
        int nt = 3 + (int) R.below(6);
        ev("init").i("nt", nt).i("fpmode", g_fpmode).done();
        std::vector<std::unique_ptr<task_ctx>> ctx;
        std::vector<std::unique_ptr<pika::counting_semaphore<>>> sems;
        std::vector<std::unique_ptr<std::atomic<int>>> blocked;
        std::atomic<int> done{0};
        std::vector<int> cls(nt);
        for (int t = 1; t <= nt; ++t)
        {
            auto c = std::make_unique<task_ctx>();
            c->t = t;
            int len = 4 + (int) R.below(10);
            int depth = 0;
            for (int i = 0; i < len; ++i)
            {
                int r = (int) R.below(10);
                if (r < 3 && depth < 5)
                {
                    c->script.push_back({op_push, 0});
                    ++depth;
                }
                else if (r < 4 && depth > 0)
                {
                    c->script.push_back({op_pop, 0});
                    --depth;
                }
                else if (r < 5) c->script.push_back({op_tld, 1 + (int) R.below(1000)});
                else if (r < 8) c->script.push_back({op_yield, 0});
                else c->script.push_back({op_block, 0});
            }
            sems.push_back(std::make_unique<pika::counting_semaphore<>>(0));
            blocked.push_back(std::make_unique<std::atomic<int>>(0));
            c->sem = sems.back().get();
            c->blocked = blocked.back().get();
            cls[t - 1] = R.chance(1, 10) ? 4 : (int) R.below(4);
            ctx.push_back(std::move(c));
        }
        // some tasks are pika::threads whose handle is interrupted *after* they finished (a late
        // cancellation must not leak into the next user of the recycled object)
        std::vector<std::unique_ptr<pika::thread>> handles;
        std::vector<int> as_thread(nt, 0);
        for (int t = 1; t <= nt; ++t) as_thread[t - 1] = cls[t - 1] == 0 && R.chance(1, 3);
        {
            // tasks are launched from a pika task (pika::thread cannot be created outside the runtime)
            std::atomic<int> launched{0};
            ex::execute(ex::thread_pool_scheduler{}, [&] {
                for (int t = 1; t <= nt; ++t)
                {
                    task_ctx* c = ctx[t - 1].get();
                    int k = cls[t - 1];
                    if (as_thread[t - 1])
                    {
                        handles.push_back(
                            std::make_unique<pika::thread>([c, &done] { task_body(c, SZ[0], &done); }));
                    }
                    else
                    {
                        auto s = ex::with_stacksize(ex::thread_pool_scheduler{}, SC[k]);
                        std::ptrdiff_t want = SZ[k];
                        ex::execute(s, [c, want, &done] { task_body(c, want, &done); });
                    }
                }
                launched = 1;
            });
            while (!launched.load()) std::this_thread::sleep_for(std::chrono::microseconds(50));
        }
        // the driver (an OS thread) releases blocked tasks
        auto t0 = clk::now();
        while (done.load() < nt)
        {
            bool any = false;
            for (int t = 0; t < nt; ++t)
                if (blocked[t]->load() == 1)
                {
                    blocked[t]->store(0);
                    sems[t]->release();
                    any = true;
                    t0 = clk::now();
                }
            if (!any) std::this_thread::sleep_for(std::chrono::microseconds(50));
            if (clk::now() - t0 > std::chrono::seconds(12))
            {
                ev("quiescent").done();
                vlog::flush();
                _exit(0);
            }
        }
        // late interruption + join of the thread handles (from a pika task: join needs one)
        if (!handles.empty())
        {
            std::atomic<int> fin{0};
            ex::execute(ex::thread_pool_scheduler{}, [&] {
                for (auto& h : handles)
                {
                    try
                    {
                        h->interrupt();
                    }
                    catch (...)
                    {
                    }
                    h->join();
                }
                fin = 1;
            });
            while (!fin.load()) std::this_thread::sleep_for(std::chrono::microseconds(100));
        }
        ev("reset").done();
    }
    pika::finalize();
    pika::stop();
    vlog::flush();
    return 0;
}
