// C17 conformance harness: concurrent call/return histories of pika's work-distribution
// containers (contiguous_index_queue, lock-free deque, the four lockfree_*_backend adapters incl.
// moodycamel's ConcurrentQueue), checked for linearizability against spec/QueueAbs.tla.
//
// usage: queue_harness <trace.ndjson> <seed> <nhist> <perturb 0|1>
#include <pika/concurrency/deque.hpp>
#include <pika/concurrency/detail/contiguous_index_queue.hpp>
#include <pika/schedulers/lockfree_queue_backends.hpp>

#include "vlog.hpp"

#include <atomic>
#include <memory>
#include <thread>
#include <vector>

using vlog::ev;

enum ctype
{
    t_deque,
    t_ciq,
    t_fifo,
    t_lifo,
    t_abp_fifo,
    t_abp_lifo,
    t_ciq_u32
};

struct container
{
    int type;
    std::unique_ptr<pika::concurrency::detail::deque<int>> dq;
    std::unique_ptr<pika::concurrency::detail::contiguous_index_queue<int>> ciq;
    std::unique_ptr<pika::concurrency::detail::contiguous_index_queue<std::uint32_t>> ciqu;
    std::unique_ptr<pika::threads::detail::lockfree_fifo_backend<int>> fifo;
    std::unique_ptr<pika::threads::detail::lockfree_lifo_backend<int>> lifo;
    std::unique_ptr<pika::threads::detail::lockfree_abp_fifo_backend<int>> abpf;
    std::unique_ptr<pika::threads::detail::lockfree_abp_lifo_backend<int>> abpl;
};

// abstract op names: what the call is documented to mean (QueueAbs kinds)
enum absop
{
    push_left,
    push_right,
    pop_left,
    pop_right,
    ipop_left,
    ipop_right,
    enq,
    deq
};
static char const* absname[] = {
    "push_left", "push_right", "pop_left", "pop_right", "ipop_left", "ipop_right", "enq", "deq"};

static long exec(container& c, absop o, int v)
{
    int r = -1;
    bool ok = false;
    switch (c.type)
    {
    case t_deque:
        switch (o)
        {
        case push_left: return c.dq->push_left(v) ? 1 : 0;
        case push_right: return c.dq->push_right(v) ? 1 : 0;
        case pop_left: ok = c.dq->pop_left(r); return ok ? r : -1;
        case pop_right: ok = c.dq->pop_right(r); return ok ? r : -1;
        default: return -2;
        }
    case t_ciq:
    {
        auto x = o == ipop_left ? c.ciq->pop_left() : c.ciq->pop_right();
        return x ? *x : -1;
    }
    case t_ciq_u32:
    {
        auto x = o == ipop_left ? c.ciqu->pop_left() : c.ciqu->pop_right();
        return x ? (long) *x : -1;
    }
    case t_fifo:
        if (o == enq) return c.fifo->push(v) ? 1 : 0;
        ok = c.fifo->pop(r);
        return ok ? r : -1;
    case t_lifo:
        // LIFO: push at the left (or the other end on request), pop from the left
        if (o == push_left) return c.lifo->push(v, false) ? 1 : 0;
        if (o == push_right) return c.lifo->push(v, true) ? 1 : 0;
        ok = c.lifo->pop(r);
        return ok ? r : -1;
    case t_abp_fifo:
        // FIFO for the owner (push left, pop right), thieves steal from the left
        if (o == push_left) return c.abpf->push(v) ? 1 : 0;
        if (o == pop_right) ok = c.abpf->pop(r, false);
        else ok = c.abpf->pop(r, true);
        return ok ? r : -1;
    case t_abp_lifo:
        // LIFO for the owner (push left, pop left), thieves steal from the right
        if (o == push_left) return c.abpl->push(v, false) ? 1 : 0;
        if (o == push_right) return c.abpl->push(v, true) ? 1 : 0;
        if (o == pop_left) ok = c.abpl->pop(r, false);
        else ok = c.abpl->pop(r, true);
        return ok ? r : -1;
    }
    return -2;
}

struct opdesc
{
    absop o;
    int v;
    int spin;
};

int main(int argc, char** argv)
{
    if (argc < 5) return 2;
    vlog::init(argv[1]);
    std::uint64_t seed = std::strtoull(argv[2], nullptr, 10);
    int nhist = std::atoi(argv[3]);
    int perturb = std::atoi(argv[4]);
    vlog::start_watchdog(120000);
    if (perturb) vctl::install(seed, 35, 100, 60, "dq.,ciq.");
    vlog::rng R(seed * 2654435761u + 99);

    std::unique_ptr<pika::threads::detail::lockfree_fifo_backend<int>> g_fifo;
    for (int h = 0; h < nhist; ++h)
    {
        container c;
        c.type = (int) R.below(8);
        if (c.type == 7) c.type = t_fifo;
        int first = 0, last = 0;
        if (c.type == t_ciq || c.type == t_ciq_u32)
        {
            first = (int) R.below(5);
            last = first + (int) R.below(9);
        }
        switch (c.type)
        {
        case t_deque: c.dq = std::make_unique<pika::concurrency::detail::deque<int>>(4); break;
        case t_ciq:
            c.ciq = std::make_unique<pika::concurrency::detail::contiguous_index_queue<int>>(
                first, last);
            break;
        case t_ciq_u32:
            c.ciqu =
                std::make_unique<pika::concurrency::detail::contiguous_index_queue<std::uint32_t>>(
                    (std::uint32_t) first, (std::uint32_t) last);
            break;
        case t_fifo:
            // the FIFO back-end lives across histories (it is drained at the end of each): the threads of
            // earlier histories have exited, so new threads are handed their recycled producer slots
            if (g_fifo) c.fifo = std::move(g_fifo);
            else c.fifo = std::make_unique<pika::threads::detail::lockfree_fifo_backend<int>>(8);
            break;
        case t_lifo: c.lifo = std::make_unique<pika::threads::detail::lockfree_lifo_backend<int>>(4); break;
        case t_abp_fifo:
            c.abpf = std::make_unique<pika::threads::detail::lockfree_abp_fifo_backend<int>>(4);
            break;
        case t_abp_lifo:
            c.abpl = std::make_unique<pika::threads::detail::lockfree_abp_lifo_backend<int>>(4);
            break;
        }
        ev("init").i("first", first).i("last", last).i("type", c.type).done();

        int nthr = 1 + (int) R.below(4);    // 1 thread = sequential order check
        if (c.type == t_fifo && nthr == 1 && R.chance(1, 2)) nthr = 2 + (int) R.below(3);
        int total = 6 + (int) R.below(16);
        std::vector<std::vector<opdesc>> scripts(nthr);
        int nextv = 1;
        for (int i = 0; i < total; ++i)
        {
            int t = (int) R.below(nthr);
            opdesc o{};
            o.spin = (int) R.below(3);
            switch (c.type)
            {
            case t_deque:
                o.o = (absop) R.below(4);
                break;
            case t_ciq:
            case t_ciq_u32: o.o = R.chance(1, 2) ? ipop_left : ipop_right; break;
            case t_fifo: o.o = R.chance(1, 2) ? enq : deq; break;
            case t_lifo:
            {
                int r = (int) R.below(5);
                o.o = r < 2 ? push_left : (r == 2 ? push_right : pop_left);
                break;
            }
            case t_abp_fifo:
                // thread 0 is the owner, others steal
                if (t == 0) o.o = R.chance(3, 5) ? push_left : pop_right;
                else o.o = pop_left;
                break;
            case t_abp_lifo:
                if (t == 0)
                {
                    int r = (int) R.below(6);
                    o.o = r < 3 ? push_left : (r == 3 ? push_right : pop_left);
                }
                else o.o = pop_right;
                break;
            }
            if (o.o == push_left || o.o == push_right || o.o == enq) o.v = nextv++;
            // FIFO back-end: every thread starts with an enqueue right at the start signal (first pushes of
            // several new threads at the same moment)
            if (c.type == t_fifo && scripts[t].empty())
            {
                if (o.o != enq) o.v = nextv++;
                o.o = enq;
                o.spin = 0;
            }
            scripts[t].push_back(o);
        }

        std::atomic<int> go{0};
        std::atomic<int> arrived{0};
        int nstart = 0;
        for (int t = 0; t < nthr; ++t) nstart += !scripts[t].empty();
        bool rendezvous = c.type == t_fifo || R.chance(1, 3);
        std::vector<std::thread> thr;
        for (int t = 0; t < nthr; ++t)
        {
            thr.emplace_back([&, t] {
                while (!go.load()) {}
                bool first_op = true;
                for (auto const& o : scripts[t])
                {
                    for (int s = 0; s < o.spin * 40; ++s) { asm volatile("" ::: "memory"); }
                    ev("call").i("a", t + 1).s("op", absname[o.o]).i("v", o.v).done();
                    if (first_op && rendezvous)
                    {
                        // the first operations of all threads are released together, after their call
                        // records were written (the logging would otherwise stagger them)
                        ++arrived;
                        while (arrived.load(std::memory_order_relaxed) < nstart) {}
                    }
                    first_op = false;
                    long r = exec(c, o.o, o.v);
                    ev("ret").i("a", t + 1).i("res", r).done();
                }
            });
        }
        go = 1;
        for (auto& t : thr) t.join();
        // quiescent drain by one thread: every pop must succeed until the model is empty too
        absop drain_op = c.type == t_deque ? (R.chance(1, 2) ? pop_left : pop_right) :
            (c.type == t_ciq || c.type == t_ciq_u32) ? (R.chance(1, 2) ? ipop_left : ipop_right) :
            c.type == t_fifo                         ? deq :
            c.type == t_lifo                         ? pop_left :
            c.type == t_abp_fifo                     ? (R.chance(1, 2) ? pop_right : pop_left) :
                                                       (R.chance(1, 2) ? pop_left : pop_right);
        int n = 0;
        for (;;)
        {
            ev("call").i("a", 1).s("op", absname[drain_op]).i("v", 0).done();
            long r = exec(c, drain_op, 0);
            ev("ret").i("a", 1).i("res", r).done();
            if (r < 0) break;
            if (++n > 1000) break;
        }
        ev("drained").i("n", n).done();
        if (c.type == t_fifo) g_fifo = std::move(c.fifo);
        ev("reset").done();
    }
    vlog::flush();
    return 0;
}
