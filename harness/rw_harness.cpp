// C04 conformance harness: async_rw_mutex<int> accessed from plain OS threads: a requester creates
// read / readwrite senders in a fixed order, worker threads start them (or drop them unstarted) at
// random times, hold the access wrapper for a while (copying read wrappers), and release.  Every
// readwrite acc_t increments the wrapped counter; every acc_t logs the value it observes.  The
// mutex object is sometimes destroyed while accesses are still outstanding.
// Histories are validated against spec/RwAbs.tla.
//
// usage: rw_harness <trace.ndjson> <seed> <nhist> <perturb 0|1>
#include <pika/execution.hpp>
#include <pika/execution/async_rw_mutex.hpp>

#include "vlog.hpp"

#include <atomic>
#include <chrono>
#include <memory>
#include <mutex>
#include <optional>
#include <thread>
#include <variant>
#include <vector>

namespace ex = pika::execution::experimental;
using vlog::ev;
using clk = std::chrono::steady_clock;
using mutex_t = ex::async_rw_mutex<int>;
using r_sender = decltype(std::declval<mutex_t&>().read());
using w_sender = decltype(std::declval<mutex_t&>().readwrite());

struct acc_t
{
    int i;
    bool is_w;
    int action;      // 0 start+hold+release, 1 drop unstarted, 2 start, copy wrapper (reads), release both
    int thread;
    int delay, hold;
    std::optional<r_sender> rs;
    std::optional<w_sender> ws;
    std::atomic<int> granted{0};
    std::atomic<int> released{0};
    std::atomic<int> releasing{0};    // set right before the release (duel histories synchronise on it)
    std::atomic<int> ready{0};        // duel: the operation state is connected, only start() is left
    std::optional<mutex_t::read_access_type> rw_held, rw_copy;
    std::optional<mutex_t::readwrite_access_type> ww_held;
};

template <bool W>
struct recv
{
    PIKA_STDEXEC_RECEIVER_CONCEPT
    acc_t* a;
    void set_value(
        std::conditional_t<W, mutex_t::readwrite_access_type, mutex_t::read_access_type> w) && noexcept
    {
        acc_t* a = this->a;
        if constexpr (W)
        {
            int v = w.get();
            ev("grant").i("i", a->i).i("v", v).done();
            w.get() = v + 1;
            a->ww_held.emplace(std::move(w));
        }
        else
        {
            int v = w.get();
            ev("grant").i("i", a->i).i("v", v).done();
            a->rw_held.emplace(std::move(w));
        }
        a->granted = 1;
    }
    void set_error(std::exception_ptr) && noexcept { std::abort(); }
    void set_stopped() && noexcept { std::abort(); }
    constexpr ex::empty_env get_env() const& noexcept { return {}; }
};

int main(int argc, char** argv)
{
    if (argc < 5) return 2;
    vlog::init(argv[1]);
    std::uint64_t seed = std::strtoull(argv[2], nullptr, 10);
    int nhist = std::atoi(argv[3]);
    int perturb = std::atoi(argv[4]);
    vlog::start_watchdog(170000);
    if (perturb) vctl::install(seed, 35, 100, 100, "rw.");
    vlog::rng R(seed * 214013 + 2531011);

    // the mutex object of the previous history (all its accesses are released); a later history may
    // move-assign its mutex onto this object and go on requesting through it
    std::unique_ptr<mutex_t> old;
    for (int hi = 0; hi < nhist; ++hi)
    {
        int n = 2 + (int) R.below(9);
        int nthr = 1 + (int) R.below(4);
        bool destroy_early = R.chance(1, 3);
        // duel: one thread per access; access k is started right when access k-1 has been granted,
        // i.e. while its owner is about to release it (start races with done() of the previous state)
        bool duel = R.chance(1, 3);
        if (char const* e = std::getenv("VERIF_RW_DUEL")) duel = std::atoi(e) != 0;
        if (duel)
        {
            n = 2 + (int) R.below(5);
            nthr = n;
        }
        ev("init").i("n", n).done();
        auto mtx = std::make_unique<mutex_t>(0);
        std::vector<std::unique_ptr<acc_t>> acc;
        int relocate_at = (old && R.chance(1, 2)) ? 1 + (int) R.below(n) : 0;
        for (int i = 1; i <= n; ++i)
        {
            if (i == relocate_at + 1 && relocate_at > 0)
            {
                // the mutex is a movable object: after the move assignment the requests continue the same
                // sequence through the assigned-to object
                ev("relocate").i("after", relocate_at).done();
                *old = std::move(*mtx);
                mtx.swap(old);
            }
            auto a = std::make_unique<acc_t>();
            a->i = i;
            a->is_w = R.chance(2, 5);
            a->action = (int) R.below(8) == 0 ? 1 : ((int) R.below(4) == 0 ? 2 : 0);
            a->thread = (int) R.below(nthr);
            if (duel)
            {
                a->thread = i - 1;
                a->action = a->action == 1 ? 0 : a->action;
            }
            a->delay = (int) R.below(duel ? 12 : 4);
            a->hold = (int) R.below(duel ? 8 : 4);
            ev("request").i("i", i).s("k", a->is_w ? "W" : "R").done();
            if (a->is_w) a->ws.emplace(mtx->readwrite());
            else a->rs.emplace(mtx->read());
            acc.push_back(std::move(a));
        }
        old.reset();
        if (destroy_early) mtx.reset();    // the value must outlive the mutex

        std::atomic<int> go{0};
        std::atomic<long long> progress{0};
        std::atomic<int> finished{0};
        std::vector<std::thread> thr;
        for (int t = 0; t < nthr; ++t)
        {
            thr.emplace_back([&, t] {
                while (!go.load()) {}
                // each thread handles its accesses in request order; operation states live until
                // the end of the history
                using r_op = decltype(ex::connect(std::declval<r_sender>(), recv<false>{nullptr}));
                using w_op = decltype(ex::connect(std::declval<w_sender>(), recv<true>{nullptr}));
                std::vector<std::unique_ptr<r_op>> rops;
                std::vector<std::unique_ptr<w_op>> wops;
                std::vector<acc_t*> mine;
                for (auto& a : acc)
                    if (a->thread == t) mine.push_back(a.get());
                for (acc_t* a : mine)
                {
                    if (duel && a->i > 1)
                        while (!acc[a->i - 2]->granted.load()) {}
                    for (int d = 0; d < a->delay * 30; ++d) asm volatile("" ::: "memory");
                    if (a->action == 1)
                    {
                        ev("drop").i("i", a->i).done();
                        if (a->is_w) a->ws.reset();
                        else a->rs.reset();
                        ++progress;
                        continue;
                    }
                    ev("start").i("i", a->i).i("a", t + 1).done();
                    if (a->is_w)
                    {
                        wops.push_back(std::unique_ptr<w_op>(
                            new w_op(ex::connect(std::move(*a->ws), recv<true>{a}))));
                        a->ws.reset();
                    }
                    else
                    {
                        rops.push_back(std::unique_ptr<r_op>(
                            new r_op(ex::connect(std::move(*a->rs), recv<false>{a}))));
                        a->rs.reset();
                    }
                    if (duel && a->i > 1)
                    {
                        // rendezvous with the releaser of the previous access: both sides have logged their
                        // call records and prepared everything; only the raw start() / release are left and
                        // are swept across each other within nanoseconds
                        a->ready = 1;
                        while (!acc[a->i - 2]->releasing.load()) {}
                        for (int d = 0; d < a->hold * 6; ++d) asm volatile("" ::: "memory");
                    }
                    if (a->is_w) ex::start(*wops.back());
                    else ex::start(*rops.back());
                    ++progress;
                }
                // release granted accesses (in any order in which they get granted)
                std::size_t left = 0;
                for (acc_t* a : mine) left += a->action != 1;
                auto t0 = clk::now();
                while (left > 0)
                {
                    bool any = false;
                    for (acc_t* a : mine)
                    {
                        if (a->action == 1 || a->released.load() || !a->granted.load()) continue;
                        for (int d = 0; d < a->hold * 40; ++d) asm volatile("" ::: "memory");
                        if (!a->is_w && a->action == 2)
                        {
                            a->rw_copy.emplace(*a->rw_held);    // copies of a read wrapper share the access
                            a->rw_held.reset();
                            if (a->rw_copy->get() < 0) std::abort();
                        }
                        ev("release").i("i", a->i).done();
                        if (duel && a->i < n && acc[a->i]->action != 1)
                            while (!acc[a->i]->ready.load()) {}    // the next access is ready to start
                        a->releasing = 1;
                        for (int d = 0; d < (duel ? a->delay * 4 : 0); ++d) asm volatile("" ::: "memory");
                        a->rw_held.reset();
                        a->rw_copy.reset();
                        a->ww_held.reset();
                        a->released = 1;
                        --left;
                        any = true;
                        ++progress;
                        t0 = clk::now();
                    }
                    if (!any)
                    {
                        std::this_thread::yield();
                        if (clk::now() - t0 > std::chrono::seconds(30)) break;    // main reports the hang
                    }
                }
                ++finished;
                // keep the operation states alive until everybody is done
                while (finished.load() < nthr && clk::now() - t0 < std::chrono::seconds(40))
                    std::this_thread::yield();
            });
        }
        go = 1;
        long long last = -1;
        auto last_change = clk::now();
        while (finished.load() < nthr)
        {
            std::this_thread::sleep_for(std::chrono::microseconds(300));
            long long p = progress.load();
            if (p != last)
            {
                last = p;
                last_change = clk::now();
            }
            else if (clk::now() - last_change > std::chrono::seconds(12))
            {
                ev("quiescent").done();
                vlog::flush();
                vlog::hang_pause();
                _exit(0);
            }
        }
        for (auto& t : thr) t.join();
        if (mtx) old = std::move(mtx);
        ev("reset").done();
    }
    vlog::flush();
    return 0;
}
