#!/bin/sh
# usage: try_revert.sh <fix-commit-grep> <PROP>  -- temporarily reverts a fix: commit in the working tree, runs the check, restores
c=$(git -C /repo log --format=%h --grep="$1" | head -1)
[ -z "$c" ] && { echo "no commit"; exit 9; }
cd /repo && git show $c | git apply -R || exit 9
git diff --stat | tail -1
cd /verif && tools/vcheck $2 > /tmp/rev-$2.log 2>&1; rc=$?
cd /repo && git checkout -- .
echo "rc=$rc"; grep -c "^VIOLATION" /tmp/rev-$2.log; grep "^VIOLATION\|KNOWN\|BROKEN" /tmp/rev-$2.log | head -3 | cut -c1-250; tail -1 /tmp/rev-$2.log
