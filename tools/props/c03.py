"""C03 - sender adaptors deliver exactly one, correct completion signal."""
import json
import os
import re
import vlib
from vlib import Check


def prefix(t):
    op = t["op"]
    if op == "just":
        return "just %d" % t["v"]
    if op == "fail":
        return "fail %d" % t["e"]
    if op == "stop":
        return "stop"
    if op == "then":
        return "then %s %s" % (t["f"], prefix(t["s"]))
    if op == "let_value":
        return "let_value %s %s" % (t["g"], prefix(t["s"]))
    if op == "let_error":
        return "let_error %s %s" % (t["h"], prefix(t["s"]))
    if op in ("when_all", "when_all_vector", "drop_wa"):
        return "%s %s %s" % (op, prefix(t["a"]), prefix(t["b"]))
    return "%s %s" % (op, prefix(t["s"]))


def has_stop(t):
    return t["op"] == "stop" or any(has_stop(t[k]) for k in ("s", "a", "b") if k in t)


def classify(term):
    """Known finding: split() does not store a stopped signal of its predecessor."""
    def walk(t):
        if t["op"] in ("split1", "split2", "split2r") and has_stop(t["s"]):
            return True
        return any(walk(t[k]) for k in ("s", "a", "b") if k in t)
    return "SplitStoppedNotStored" if walk(term) else None


def run_terms(binary, terms, seed, tag, threads, perturb=False, pool_bias=False, align=False):
    """Runs the harness over the terms; after a crash it continues behind the crashing term."""
    tdir = os.path.join(vlib.BUILD, "traces")
    os.makedirs(tdir, exist_ok=True)
    path = os.path.join(tdir, "c03-%s-%d.txt" % (tag, os.getpid()))
    with open(path, "w") as f:
        for t in terms:
            f.write(prefix(t) + "\n")
    results = {}
    skip = 0
    for attempt in range(60):
        res = path + ".res%d" % attempt
        env = {"VERIF_SKIP": str(skip)}
        if perturb:
            env["VERIF_PERTURB"] = "1"
        if pool_bias:
            env["VERIF_POOL_BIAS"] = "1"
        if align:
            env["VERIF_ALIGN"] = "1"
        rc, out = vlib.sh([binary, path, res, str(seed), "--pika:threads=%d" % threads], timeout=900, env=env)
        lines = vlib.read_ndjson(res) if os.path.exists(res) else []
        try:
            os.unlink(res)
        except OSError:
            pass
        last = skip
        for l in lines:
            if "case" in l:
                results[l["case"]] = l
                last = max(last, l["case"])
        if any("done" in l for l in lines):
            break
        if last == skip and not lines:
            # died without reporting: blame the first unreported term
            results[skip + 1] = dict(case=skip + 1, crash=1)
            last = skip + 1
        skip = last
        if skip >= len(terms):
            break
    try:
        os.unlink(path)
    except OSError:
        pass
    return results


def step_level(chk):
    """Binding of SharedStateImpl: the hooked steps of the completing thread and of every consumer's
    start() on the real ensure_started / split shared state must be the spec's steps in the spec's order
    (spec/SharedStateStepTrace.tla); every started consumer is delivered exactly once."""
    (binary,) = vlib.build_harness(["ss_harness"])
    nruns = 24 if chk.thorough() else 8
    runs = [([chk.seed * 1000 + 300 + i, 250, 1 if i % 4 else 0], None) for i in range(nruns)]
    hist = vlib.collect_histories(chk, binary, runs, "c03ss", timeout=300)
    for h, o in hist:
        chk.add_case(("ss", json.dumps(h)), nontrivial=any(r.get("site") == "ss.add.store" for r in h))
    if hist:
        chk.sample(dict(shared_state_steps=hist[0][0][:14]))
    normal = [(h, o) for h, o in hist if not any(r.get("e") in ("crash", "hang") for r in h)]
    special = [(h, o) for h, o in hist if any(r.get("e") in ("crash", "hang") for r in h)]
    n_ok, rejected, states = vlib.validate_histories("SharedStateStepTrace", "SharedStateStepTrace.cfg",
                                                     [h for h, _ in normal], "c03ss", batch=250, timeout=900)
    chk.cov["traces_validated_against_impl"] += n_ok
    chk.cov["shared_state_step_traces"] = n_ok
    chk.cov["trace_validation_states"] = chk.cov.get("trace_validation_states", 0) + states
    for (idx, maxl, viol) in rejected[:12]:
        h, o = normal[idx]
        at = json.dumps(h[maxl - 1]) if 0 < maxl <= len(h) else "end"
        acc, _, _ = vlib.validate_batch("SharedStateStepTrace", "SharedStateStepTrace_flag_after_lock.cfg",
                                        list(h) + [{"e": "reset"}], "c03ss-v", timeout=600)
        replay = dict(origin=o, history=h, stuck_at=maxl, spec="SharedStateStepTrace", cfg="SharedStateStepTrace.cfg")
        lost = any(r.get("e") == "quiescent" for r in h) or sum(1 for r in h if r.get("e") == "deliver") != \
            sum(1 for r in h if r.get("e") == "start")
        if acc:
            chk.violation("the recorded steps of the shared state are not SharedStateImpl's (first unexplained record "
                          "%d: %s) but are exactly those of its variant 'flag_after_lock', which TLC shows to strand a "
                          "continuation" % (maxl, at), replay)
        elif lost:
            chk.violation("a consumer of the shared state was not signalled exactly once (record %d: %s)" % (maxl, at), replay)
        else:
            chk.drift.append("shared-state step trace no longer follows SharedStateImpl at record %d: %s" % (maxl, at))
    for h, o in special:
        chk.violation("shared-state harness crashed / hung", dict(origin=o, history=h[-40:]))


def run():
    chk = Check("C03")
    (binary,) = vlib.build_harness(["sender_harness"])
    cfg = "SenderCases_3full.cfg"
    r = vlib.run_tlc("SenderCases", cfg, workers=1, timeout=1800)
    if not r["ok"]:
        raise vlib.ModelFailure("term enumeration failed:\n" + r["out"][-3000:])
    cases = [json.loads(m.group(1).replace('\\"', '"')) for m in re.finditer(r'<<"CASE", "(.*)">>', r["out"])]
    chk.add_model("SenderSem: all terms up to depth 3 with their denotation", r, note="%d terms" % len(cases))
    for cfgf in ("SharedStateImpl.cfg",):
        chk.add_model("SharedStateImpl (split/ensure_started shared state: flag, lock, continuation list)",
                      vlib.model_check("SharedStateImpl", cfgf, timeout=600))
    r2 = vlib.model_check("SharedStateImpl", "SharedStateImpl_dev.cfg", expect_ok=False, timeout=600)
    chk.add_model("SharedStateImpl/variant flag_after_lock (must violate)", r2, note="violated: %s" % r2["violated"])
    for cfgf in ("WhenAllImpl_vee.cfg", "WhenAllImpl_ves.cfg", "WhenAllImpl_vvv.cfg"):
        chk.add_model("WhenAllImpl/%s (flag exchange, error slot, countdown)" % cfgf[12:-4],
                      vlib.model_check("WhenAllImplMC", cfgf, timeout=600))
    r3 = vlib.model_check("WhenAllImplMC", "WhenAllImpl_dev.cfg", expect_ok=False, timeout=600)
    chk.add_model("WhenAllImpl/variant check_then_act (must violate)", r3, note="violated: %s" % r3["violated"])
    # sync_wait on binary_semaphore: the state in the caller's frame is not touched after acquire() may return
    for cfgf, what in (("SyncWaitImpl.cfg", "value channel"), ("SyncWaitImpl_stopped.cfg", "stopped channel"),
                       ("SyncWaitImpl_unlock_before_resume.cfg", "benign reordering unlock_before_resume")):
        chk.add_model("SyncWaitImpl/%s (receiver emplace + release(1) steps vs. acquire + frame exit)" % what,
                      vlib.model_check("SyncWaitImpl", cfgf, timeout=300))
    for v in ("notify_returns_woken", "flag_after_release", "unlock_resume_relock"):
        rs = vlib.model_check("SyncWaitImpl", "SyncWaitImpl_dev_%s.cfg" % v, expect_ok=False, timeout=300)
        chk.add_model("SyncWaitImpl/variant %s (must violate)" % v, rs, note="violated: %s" % rs["violated"])
    reps = 4 if chk.thorough() else 2
    recs = []
    for rep in range(reps):
        # several passes with different leaf timings (inline / other thread / pool) and worker counts
        for part, threads in ((0, 4), (1, 2)):
            sub = cases[part::2]
            res = run_terms(binary, [c["term"] for c in sub], chk.seed * 100 + rep * 10 + part, "p%d" % part, threads,
                            perturb=(rep % 2 == 1))
            for i, c in enumerate(sub):
                o = res.get(i + 1)
                if o is None:
                    # the runner gives up after 60 restarts: with that many crashes (each one is reported) the
                    # terms behind the last crash were not evaluated in this pass
                    if any(r.get("crash") for r in res.values()):
                        continue
                    raise vlib.ModelFailure("no result for term %s" % prefix(c["term"]))
                recs.append((c, o))
    # the shared-state adaptors race the predecessor's completion against the consumer's start: repeat
    # the small terms that contain them many times with delays injected at the ss.* hooks
    def shared(t):
        return t["op"] in ("ensure_started", "split1", "split2", "split2r", "drop_es") or any(shared(t[k]) for k in ("s", "a", "b") if k in t)

    def size(t):
        return 1 + sum(size(t[k]) for k in ("s", "a", "b") if k in t)
    def leaves(t):
        if t["op"] in ("just", "fail", "stop"):
            return [t["op"]]
        return [x for k in ("s", "a", "b") if k in t for x in leaves(t[k])]

    def joins(t):   # when_all whose inputs can complete concurrently with at least two non-value signals
        return (t["op"] in ("when_all", "drop_wa") and sum(1 for x in leaves(t) if x != "just") >= 2) or \
            (t["op"] == "when_all_vector" and sum(1 for x in leaves(t) if x != "just") >= 1) or \
            any(joins(t[k]) for k in ("s", "a", "b") if k in t)
    racy = [c for c in cases if (shared(c["term"]) or joins(c["term"])) and size(c["term"]) <= 3]
    rep_n = 60 if chk.thorough() else 25
    stress = [c for c in racy if shared(c["term"]) for _ in range(rep_n)]
    # inputs of a when_all that signal error/stopped at the same instant: thousands of runs of the few
    # small terms, leaves mostly completing from concurrently running pool tasks
    jstress = [c for c in racy if joins(c["term"]) and not shared(c["term"]) for _ in range(rep_n * 100)]
    for part, threads in ((0, 4), (1, 4)):
        sub = jstress[part::2]
        # half of the runs: leaves complete from pool tasks; other half: from helper threads that
        # rendezvous and complete within nanoseconds of each other
        res = run_terms(binary, [c["term"] for c in sub], chk.seed * 100 + 87 + part, "j%d" % part, threads, perturb=True,
                        pool_bias=(part == 0), align=(part == 1))
        for i, c in enumerate(sub):
            o = res.get(i + 1)
            if o is None:
                if any(r.get("crash") for r in res.values()):
                    continue    # (restarts exhausted after many reported crashes, see above)
                raise vlib.ModelFailure("no result for term %s" % prefix(c["term"]))
            recs.append((c, o))
    chk.cov["join_stress_runs"] = len(jstress)
    for part, threads in ((0, 4), (1, 3)):
        sub = stress[part::2]
        res = run_terms(binary, [c["term"] for c in sub], chk.seed * 100 + 77 + part, "s%d" % part, threads, perturb=True)
        for i, c in enumerate(sub):
            o = res.get(i + 1)
            if o is None:
                if any(r.get("crash") for r in res.values()):
                    continue    # (restarts exhausted after many reported crashes, see above)
                raise vlib.ModelFailure("no result for term %s" % prefix(c["term"]))
            recs.append((c, o))
    chk.cov["shared_state_stress_runs"] = len(stress)
    step_level(chk)
    nonv = 0
    for c, o in recs:
        chk.add_case((prefix(c["term"]), o.get("timings")), nontrivial=c["term"]["op"] not in ("just", "fail", "stop"))
        den = c["den"]
        key = None
        if o.get("crash") or o.get("hang"):
            what = "%s while running %s (leaf timings %s)" % ("crash" if o.get("crash") else "hang", prefix(c["term"]), o.get("timings"))
            key = classify(c["term"])
        elif o["nsig"] != 1 or not any(d["ch"] == o["ch"] and (d["ch"] == "stopped" or d["v"] == o["v"]) for d in den) or o["leak"] != 0:
            what = "%s delivered %s (signals: %d, payload objects leaked: %d), denotation %s, leaf timings %s" % (
                prefix(c["term"]), (o["ch"], o["v"]), o["nsig"], o["leak"], den, o.get("timings"))
            key = classify(c["term"]) if o["nsig"] != 1 else None
        else:
            chk.cov["traces_validated_against_impl"] += 1
            continue
        nonv += 1
        if key:
            chk.finding_or_violation(key, what, dict(term=c["term"], outcome=o, den=den))
        elif len(chk.violations) < 15:
            chk.violation(what, dict(term=c["term"], outcome=o, den=den))
    chk.sample(dict(term=prefix(recs[len(recs) // 3][0]["term"]), den=recs[len(recs) // 3][0]["den"], outcome=recs[len(recs) // 3][1]))
    chk.sample(dict(term=prefix(recs[-1][0]["term"]), den=recs[-1][0]["den"], outcome=recs[-1][1]))
    chk.cov["rule"] = ("TLC enumerates all 1228 terms up to depth 3 over just/fail/stop leaves and then(inc,dbl,throw), "
                       "let_value(sender, failing sender, throw), let_error(recover, refail), continues_on, "
                       "ensure_started, split (1 and 2 consumers), drop_operation_state, when_all, with their "
                       "denotation (set of admissible completion signals); each term is built at run time from "
                       "type-erased stages and run with leaves completing inline, from another thread or on the pool; "
                       "the connected receiver's signal count, channel and payload and the construction/destruction "
                       "balance of payload objects are compared with the denotation; non-trivial = has an adaptor")
    chk.assumptions += ["sync_wait of a stopped sender terminates by design and is not part of the terms",
                        "stopped signals travel through type-erased stages although any_sender declares sends_done=false"]
    return chk.finish()
