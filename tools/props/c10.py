"""C10 - work runs where it was sent: scheduler, pool and hint placement."""
import vlib
from vlib import Check


def run():
    chk = Check("C10")
    chk.add_model("PlaceMC (monitor spec: every placement record admitted by the rule; closed over a small domain)",
                  vlib.model_check("PlaceMC", "PlaceMC.cfg", timeout=600))
    chk.add_model("HintImpl (a hinted task keeps its worker across suspensions on a static policy; all pool layouts up to 4 workers, offset 5)",
                  vlib.model_check("HintImpl", "HintImpl.cfg", timeout=600))
    for v in ("records_global_index", "helper_drops_hint"):
        rh = vlib.model_check("HintImpl", "HintImpl_%s.cfg" % v, expect_ok=False, timeout=600)
        chk.add_model("HintImpl/variant %s (must violate)" % v, rh, note="violated: %s" % rh["violated"])
    # staged work may only be taken over from other workers when the policy steals
    chk.add_model("IdleStealImpl/no stealing: nothing migrates (NoMigration)",
                  vlib.model_check("IdleStealImpl", "IdleStealImpl_nosteal.cfg", timeout=600))
    ri = vlib.model_check("IdleStealImpl", "IdleStealImpl_dev_nosteal.cfg", expect_ok=False, timeout=600)
    chk.add_model("IdleStealImpl/variant steal_when_disabled (must violate)", ri, note="violated: %s" % ri["violated"])
    (binary,) = vlib.build_harness(["place_harness"])
    nruns = 48 if chk.thorough() else 12
    nhist = 200 if chk.thorough() else 100
    runs = [([chk.seed * 1000 + i, nhist, 1 if i % 3 else 0], None) for i in range(nruns)]
    hist = vlib.collect_histories(chk, binary, runs, "c10", timeout=600)
    nrec = 0
    for h, o in hist:
        kinds = set((r.get("exp"), r.get("hint", -1) >= 0, r.get("prio")) for r in h if r.get("e") == "run")
        nrec += sum(1 for r in h if r.get("e") in ("run", "runstd"))
        chk.add_case(h, nontrivial=len(kinds) >= 3)
        for r in h:
            if r.get("e") in ("end", "reset") and "runs" in r and r.get("runs") != r.get("expected"):
                ids = [x.get("id") for x in h if x.get("e") == "run"]
                dup = sorted(set(i for i in ids if ids.count(i) > 1))
                chk.drift.append("a history executed %s callables for %s submissions (callable ids seen more than "
                                 "once: %s); exactly-once execution is property C01, not C10" % (r.get("runs"), r.get("expected"), dup))
    chk.cov["placement_records"] = nrec
    for h, o in hist[:1]:
        chk.sample(h[:14])
    vlib.check_histories(chk, "PlaceTrace", "PlaceTrace.cfg", hist, "c10", batch=200)
    chk.cov["rule"] = ("three pools (default: local-priority 2 workers, s: static 3, t: abp 2) + std_thread_scheduler; "
                       "per history a random pipeline schedule|transfer_just -> then -> continues_on -> then|bulk "
                       "(2-5 stages) started from outside or from a task, execute from a worker of the same pool, "
                       "2-6 hinted multi-phase tasks (yields between phases, normal/high priority) mostly on the "
                       "static pool, optionally std_thread_scheduler work; every phase logs expected pool, actual "
                       "pool, local worker, OS tid, pika-thread flag and whether it runs in the submitting context; "
                       "validated by TLC against PlaceAbs; non-trivial = >=3 kinds of placement records")
    chk.assumptions += ["only the value channel is claimed (errors/stopped are forwarded on the predecessor's context by design)"]
    return chk.finish()
