"""C09 - latch, barrier, event and call_once release exactly when due."""
import vlib
from vlib import Check


def run():
    chk = Check("C09")
    chk.add_model("LatchImpl (cd, aaw, wait, aaw; count 3)", vlib.model_check("LatchImplMC", "LatchImpl_1.cfg", timeout=600))
    chk.add_model("LatchImpl (aaw x3 + wait)", vlib.model_check("LatchImplMC", "LatchImpl_2.cfg", timeout=600))
    r = vlib.model_check("LatchImplMC", "LatchImpl_dev.cfg", expect_ok=False, timeout=600)
    chk.add_model("LatchImpl/variant dec_outside_lock (must violate)", r, note="violated: %s" % r["violated"])
    chk.add_model("BarrierImpl tournament, 3 participants x 2 phases", vlib.model_check("BarrierImpl", "BarrierImpl_3.cfg", timeout=600))
    chk.add_model("BarrierImpl tournament, 4 participants x 2 phases", vlib.model_check("BarrierImpl", "BarrierImpl_4.cfg", timeout=600))
    if chk.thorough():
        chk.add_model("BarrierImpl tournament, 5 participants x 2 phases", vlib.model_check("BarrierImpl", "BarrierImpl_5.cfg", timeout=3000))
    r = vlib.model_check("BarrierImpl", "BarrierImpl_dev.cfg", expect_ok=False, timeout=600)
    chk.add_model("BarrierImpl/variant publish_before_completion (must violate)", r, note="violated: %s" % r["violated"])
    rx = vlib.model_check("BarrierImpl", "BarrierImpl_dev2.cfg", expect_ok=False, timeout=600)
    chk.add_model("BarrierImpl/variant claim_by_exchange (must violate)", rx, note="violated: %s" % rx["violated"])
    chk.add_model("BarrierDropImpl (tournament arrival + arrive_and_drop / expected_adjustment; 3 participants, one drops)",
                  vlib.model_check("BarrierDropImpl", "BarrierDropImpl.cfg", timeout=900))
    rb = vlib.model_check("BarrierDropImpl", "BarrierDropImpl_dev.cfg", expect_ok=False, timeout=900)
    chk.add_model("BarrierDropImpl/variant drop_after_arrive (must violate)", rb, note="violated: %s" % rb["violated"])
    if chk.thorough():
        chk.add_model("BarrierDropImpl (4 participants, one drops in the middle phase)",
                      vlib.model_check("BarrierDropImpl", "BarrierDropImpl_4.cfg", timeout=3000))
    # call_once on top of event (status CAS, reset / set, waiters)
    chk.add_model("OnceImpl (3 callers, first execution throws; event set / wait / reset in steps)",
                  vlib.model_check("OnceImpl", "OnceImpl.cfg", timeout=600))
    chk.add_model("OnceImpl/benign reordering set_before_done (must still hold)",
                  vlib.model_check("OnceImpl", "OnceImpl_dev_set_before_done.cfg", timeout=600))
    for v in ("done_on_throw", "claim_by_store"):
        ro = vlib.model_check("OnceImpl", "OnceImpl_dev_%s.cfg" % v, expect_ok=False, timeout=600)
        chk.add_model("OnceImpl/variant %s (must violate)" % v, ro, note="violated: %s" % ro["violated"])
    ro = vlib.model_check("OnceImpl", "OnceImpl_obs.cfg", expect_ok=False, timeout=600)
    chk.add_model("OnceImpl/observation: a failed runner's late event.set() can land after the next runner's reset() "
                  "(waiters spin instead of blocking; no property of C09 depends on it)", ro,
                  note="reached: %s" % ro["violated"])
    (binary,) = vlib.build_harness(["lbeo_harness"])
    nruns = 64 if chk.thorough() else 16
    nhist = 250 if chk.thorough() else 100
    runs = []
    for i in range(nruns):
        threads = [2, 3, 4, 1][i % 4]
        runs.append(([chk.seed * 1000 + i, nhist, 1 if i % 4 else 0, "--pika:threads=%d" % threads], None))
    hist = vlib.collect_histories(chk, binary, runs, "c09", timeout=400)
    kinds = {}
    for h, o in hist:
        chk.add_case(h, nontrivial=len([r for r in h if r.get("e") == "call"]) >= 3)
        if h and h[0].get("e") == "init":
            k = ["latch", "barrier", "event", "once"][h[0].get("type", 0)]
            kinds[k] = kinds.get(k, 0) + 1
    chk.cov["histories_per_kind"] = kinds
    for h, o in hist[:2]:
        chk.sample(h[:18])
    vlib.check_histories(chk, "LbeoTrace", "LbeoTrace.cfg", hist, "c09", batch=250)
    chk.cov["rule"] = ("per history one object: latch (count 1-6 split over count_down(n)/arrive_and_wait, plus "
                       "wait/try_wait), barrier (2-6 participants incl. 3 and 5, 1-3 phases, arrive+wait(token), "
                       "arrive_and_wait, arrive_and_drop, completion function logged), event (waiters before and "
                       "after set, occurred), call_once (2-6 callers, body throws 0-2 times); participants on pika "
                       "tasks and OS threads, more participants than workers; validated by TLC against LbeoAbs; "
                       "non-trivial = >=3 calls")
    chk.assumptions += ["sequential consistency in the model", "barrier phases stay below the 8-bit wrap"]
    return chk.finish()
