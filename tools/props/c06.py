"""C06 - mutexes give mutual exclusion and always hand the lock on."""
import vlib
from vlib import Check


def run():
    chk = Check("C06")
    chk.add_model("MutexCvMC/mutex+timed", vlib.model_check("MutexCvMC", "MutexCvMC_mutex.cfg", timeout=600))
    chk.add_model("MutexCvMC/recursive", vlib.model_check("MutexCvMC", "MutexCvMC_rec.cfg", timeout=600))
    # fine-grained model of mutex / timed_mutex on the internal condition variable
    chk.add_model("MutexImpl (owner + internal spinlock + cv queue, 2 lockers x 2 rounds + 1 timed attempt)",
                  vlib.model_check("MutexImpl", "MutexImpl.cfg", timeout=600))
    r = vlib.model_check("MutexImpl", "MutexImpl_dev.cfg", expect_ok=False, timeout=600)
    chk.add_model("MutexImpl/variant timeout_swallows_wake (must violate)", r, note="violated: %s" % r["violated"])
    chk.add_model("MutexRefine: MutexImpl refines the abstract mutex MutexTiny (holder <- owner)",
                  vlib.model_check("MutexRefine", "MutexRefine.cfg", timeout=600))
    chk.add_model("RecursiveMutexImpl (inner mutex, owner, recursion count; 3 threads nesting 2 deep, 2 rounds)",
                  vlib.model_check("RecursiveMutexImpl", "RecursiveMutexImpl.cfg", timeout=600))
    for cfg in ("RecursiveMutexImpl_dev.cfg", "RecursiveMutexImpl_dev_excl.cfg"):
        rr = vlib.model_check("RecursiveMutexImpl", cfg, expect_ok=False, timeout=600)
        chk.add_model("RecursiveMutexImpl/variant late_count_store, %s (must violate)" % cfg[:-4], rr,
                      note="violated: %s" % rr["violated"])
    (binary,) = vlib.build_harness(["sync_harness"])
    nruns = 64 if chk.thorough() else 16
    nhist = 150 if chk.thorough() else 60
    runs = []
    for i in range(nruns):
        threads = [2, 1, 4, 3][i % 4]
        runs.append(([chk.seed * 1000 + i, nhist, 1 if i % 4 else 0, "mutex", "--pika:threads=%d" % threads], None))
    hist = vlib.collect_histories(chk, binary, runs, "c06", timeout=400)
    kinds = {}
    for h, o in hist:
        ops = [r.get("op") for r in h if r.get("e") == "call"]
        chk.add_case(h, nontrivial=len(ops) >= 4 and len(set(r.get("a") for r in h if r.get("e") == "call")) >= 2)
        if h and h[0].get("e") == "init":
            kinds[h[0]["mk"]] = kinds.get(h[0]["mk"], 0) + 1
    chk.cov["histories_per_mutex_kind"] = kinds
    for h, o in hist[:2]:
        chk.sample(h[:16])
    vlib.check_histories(chk, "MutexCvTrace", "MutexCvTrace.cfg", hist, "c06")
    chk.cov["rule"] = ("random histories of lock/try_lock/try_lock_until/unlock (+ detected misuse: relock, "
                       "foreign unlock; recursive re-entry) by 2-3 pika tasks (OS threads for the spinlock), "
                       "yields inside critical sections so tasks migrate while owning the lock, critical-"
                       "section counter read at every acquisition; validated by TLC against MutexCvAbs; "
                       "non-trivial = >=4 calls by >=2 actors")
    chk.assumptions += ["sequential consistency in the model", "spinlock-based locks are not held across a "
                        "yield (documented precondition: they spin without yielding to the scheduler)"]
    return chk.finish()
