"""C19 - suspending and resuming pools or workers never loses work."""
import vlib
from vlib import Check

POLICIES = ["static", "local-priority-fifo", "static-priority", "local", "abp-priority-fifo", "shared-priority"]


def run():
    chk = Check("C19")
    chk.add_model("PuSuspendImpl (running/pre_sleep/sleeping, pu mutex, notify loop)",
                  vlib.model_check("PuSuspendImpl", "PuSuspendImpl.cfg", timeout=600))
    r = vlib.model_check("PuSuspendImpl", "PuSuspendImpl_dev.cfg", expect_ok=False, timeout=600)
    chk.add_model("PuSuspendImpl/variant resume_notifies_once (must violate)", r, note="violated: %s" % r["violated"])
    r2 = vlib.model_check("PuSuspendImpl", "PuSuspendImpl_dev2.cfg", expect_ok=False, timeout=600)
    chk.add_model("PuSuspendImpl/variant suspend_returns_in_pre_sleep (must violate)", r2, note="violated: %s" % r2["violated"])
    # when does an idle worker take over staged work of (sleeping) colleagues: threshold vs. bottom-of-loop reset
    for cfg in ("IdleStealImpl.cfg", "IdleStealImpl_big.cfg", "IdleStealImpl_nosteal.cfg"):
        chk.add_model("IdleStealImpl/%s" % cfg[:-4], vlib.model_check("IdleStealImpl", cfg, timeout=600))
    r3 = vlib.model_check("IdleStealImpl", "IdleStealImpl_dev.cfg", expect_ok=False, timeout=600)
    chk.add_model("IdleStealImpl/variant threshold_full (must violate Drains)", r3, note="violated: %s" % r3["violated"])
    (binary,) = vlib.build_harness(["pu_harness"])
    n = 4 if chk.thorough() else 1
    runs = []
    for i in range(12 * n):
        pol = i % 6
        elastic = 0 if i % 6 == 5 or i % 7 == 3 else 1
        runs.append(([chk.seed * 1000 + i, 40, 1 if i % 4 else 0, pol, elastic], None))
    hist = vlib.collect_histories(chk, binary, runs, "c19", timeout=500)
    for h, o in hist:
        ops = set(r.get("op") for r in h if r.get("e") == "call")
        chk.add_case(h, nontrivial=len(ops) >= 2 and any(r.get("e") == "submit" for r in h))
    for h, o in hist[:2]:
        chk.sample(h[:20])
    vlib.check_histories(chk, "PuTrace", "PuTrace.cfg", hist, "c19", batch=100)
    chk.cov["rule"] = ("second pool with 3 workers, 6 scheduling policies, with and without elasticity; random "
                       "sequences of suspend/resume of single PUs (throwing and error_code forms) and of the whole "
                       "pool issued from an OS thread and from default-pool tasks, hinted/unhinted submissions "
                       "before, during (concurrent thread) and after suspension, refusal cases (no elasticity, "
                       "non-stealing pool suspending itself); on stealing elastic pools also: pool suspended, hinted and "
                       "unhinted tasks submitted, only a part of the workers resumed, all tasks must complete on "
                       "that part and a further pool suspend must return; at the end all PUs are resumed and every task must "
                       "have run exactly once, never on a worker between its suspend return and resume call; "
                       "validated by TLC against PuAbs")
    chk.assumptions += ["sequential consistency in the model",
                        "work that was queued on a PU while it went to sleep may wait for the resume (the "
                        "property allows 'executed ... after the worker is resumed')"]
    return chk.finish()
