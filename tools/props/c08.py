"""C08 - semaphores conserve permits and release blocked acquirers."""
import vlib
from vlib import Check


def run():
    chk = Check("C08")
    # 1. the abstract spec satisfies the property (and the named deviation really violates it)
    chk.add_model("SemAbsMC/counting", vlib.model_check("SemAbsMC", "SemAbsMC.cfg", timeout=600))
    chk.add_model("SemAbsMC/sliding", vlib.model_check("SemAbsMC", "SemAbsMC_sliding.cfg", timeout=600))
    # fine-grained model of counting_semaphore on the internal condition variable
    for cfg in ("SemImpl.cfg", "SemImpl_big.cfg", "SemImpl_ones.cfg"):
        chk.add_model("SemImpl/%s" % cfg[:-4], vlib.model_check("SemImplMC", cfg, timeout=600))
    chk.add_model("SemRefine: SemImpl refines the abstract counter SemTiny (permits <- value)",
                  vlib.model_check("SemRefine", "SemRefine.cfg", timeout=600))
    rr2 = vlib.model_check("SemRefine", "SemRefine_dev.cfg", expect_ok=False, timeout=600)
    chk.add_model("SemRefine/variant timed_take_without_recheck (must not refine)", rr2, note="violated: %s" % rr2["violated"])
    for cfg in ("SemImpl_dev_loop.cfg", "SemImpl_dev_timed.cfg", "SemImpl_dev_blind.cfg", "SemImpl_dev_front.cfg"):
        rr = vlib.model_check("SemImplMC", cfg, expect_ok=False, timeout=600)
        chk.add_model("SemImpl/variant %s (must violate)" % cfg[12:-4], rr, note="violated: %s" % rr["violated"])
    chk.add_model("SlidingSemImpl (wait / signal with max, notify loop; signals arriving in decreasing order)",
                  vlib.model_check("SlidingSemImplMC", "SlidingSemImpl.cfg", timeout=600))
    for cfg in ("SlidingSemImpl_dev.cfg", "SlidingSemImpl_dev_cons.cfg"):
        rs = vlib.model_check("SlidingSemImplMC", cfg, expect_ok=False, timeout=600)
        chk.add_model("SlidingSemImpl/variant signal_overwrites, %s (must violate)" % cfg[:-4], rs,
                      note="violated: %s" % rs["violated"])
    r = vlib.model_check("SemAbsMC", "SemAbsMC_dev.cfg", expect_ok=False, timeout=600)
    chk.add_model("SemAbsMC/deviation TimedAcquireFalseAfterSignal (must violate)", r,
                  note="violated: %s" % r["violated"])
    # 2. histories from the real code
    (binary,) = vlib.build_harness(["sem_harness"])
    nruns = 64 if chk.thorough() else 16
    nhist = 120 if chk.thorough() else 80
    runs = []
    for i in range(nruns):
        threads = [1, 2, 4, 3][i % 4]
        seed = chk.seed * 1000 + i
        runs.append(([seed, nhist, 1 if i % 3 else 0, "--pika:threads=%d" % threads], None))
    hist = vlib.collect_histories(chk, binary, runs, "c08", timeout=300)
    for h, o in hist:
        ops = [r.get("op") for r in h if r.get("e") == "call"]
        chk.add_case(h, nontrivial=len(ops) >= 3 and len(set(ops)) >= 2)
    for h, o in hist[:3]:
        chk.sample(h[:14])
    vlib.check_histories(chk, "SemTrace", "SemTrace.cfg", hist, "c08",
                         dev_cfgs={"TimedAcquireFalseAfterSignal": "SemTrace_dev.cfg"})
    chk.cov["rule"] = ("random call/return histories (2-5 actors on pika tasks and OS threads, 1-4 ops "
                       "each, counting/binary/sliding) validated by TLC against SemAbs; non-trivial = "
                       ">=3 calls of >=2 kinds; distinct = different record sequences")
    chk.assumptions += ["TLC interleaves atomic steps under sequential consistency",
                        "timer wake-ups are at most 1 ms early (Slack in SemTrace.tla)"]
    return chk.finish()
