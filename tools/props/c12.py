"""C12 - a task's context survives suspension, migration and recycling."""
import vlib
from vlib import Check


def run():
    chk = Check("C12", level="exploration")
    chk.add_model("ContextMC (frame condition, disjoint stacks; 3 tasks)", vlib.model_check("ContextMC", "ContextMC.cfg", timeout=600))
    chk.add_model("RecycleImpl (thread objects: recycle heaps per stack class, rebind, late interrupts)",
                  vlib.model_check("RecycleImpl", "RecycleImpl.cfg", timeout=600))
    for v in ("clear_at_exit_only", "huge_from_large_heap"):
        rr = vlib.model_check("RecycleImpl", "RecycleImpl_%s.cfg" % v, expect_ok=False, timeout=600)
        chk.add_model("RecycleImpl/variant %s (must violate)" % v, rr, note="violated: %s" % rr["violated"])
    (binary,) = vlib.build_harness(["ctx_harness"])
    nruns = 64 if chk.thorough() else 16
    nhist = 120 if chk.thorough() else 50
    runs = []
    for i in range(nruns):
        threads = [4, 2, 3, 1][i % 4]
        sched = ["local-priority-fifo", "static", "abp-priority-fifo", "local", "shared-priority"][(i // 4) % 5]
        guard = "--pika:ini=pika.stacks.use_guard_pages=%d" % (i % 2)
        runs.append(([chk.seed * 1000 + i, nhist, 1 if i % 3 else 0, 0, "--pika:threads=%d" % threads,
                      "--pika:scheduler=%s" % sched, guard], None))
    # dedicated runs in which every task selects its own floating-point control state (known finding)
    for i in range(2):
        runs.append(([chk.seed * 1000 + 800 + i, 10, 0, 1, "--pika:threads=4"], None))
    hist = vlib.collect_histories(chk, binary, runs, "c12", timeout=500)
    migrations = 0
    for h, o in hist:
        ws = {}
        for r in h:
            if r.get("e") in ("start", "check"):
                ws.setdefault(r["t"], set()).add(r.get("w"))
        migrations += sum(1 for s in ws.values() if len(s) > 1)
        chk.add_case(h, nontrivial=any(len(s) > 1 for s in ws.values()))
    chk.cov["tasks_that_resumed_on_another_worker"] = migrations
    for h, o in hist[:1]:
        chk.sample(h[:18])
    vlib.check_histories(chk, "ContextTrace", "ContextTrace.cfg", hist, "c12", batch=150,
                         dev_cfgs={"FpControlStateNotPreserved": "ContextTrace_dev.cfg"})
    chk.cov["rule"] = ("3-8 tasks per history with random scripts: call frames filled with canaries (up to depth 5), "
                       "task datum changes, yields and blocking waits released by an OS thread; after every resume "
                       "the task checks its canaries, callee-saved registers (rbx, r12-r15), identity and task datum "
                       "and logs the worker it resumed on; stack size classes default/small/medium/large with the "
                       "stack touched to its configured size, with and without guard pages; pika::thread handles "
                       "interrupted after completion so that recycled objects would inherit dirt; 5 policies x 1-4 "
                       "workers; validated by TLC against ContextAbs (own state only, disjoint live stacks, clean "
                       "start); non-trivial = some task resumed on a different worker")
    chk.assumptions += ["the context-switch code itself is exercised along the generated behaviours, not proved",
                        "callee-saved register parking relies on GCC keeping explicit register variables in place"]
    return chk.finish()
