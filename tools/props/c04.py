"""C04 - async_rw_mutex: exclusive writers, grouped readers, request-order grants."""
import vlib
from vlib import Check


def run():
    chk = Check("C04")
    chk.add_model("RwMC (abstract: groups, grant order, versions; 4 accesses)", vlib.model_check("RwMC", "RwMC.cfg", timeout=600))
    chk.add_model("RwMutexImpl (op-state stack CAS vs. done() exchange, 3 ops)", vlib.model_check("RwMutexImpl", "RwMutexImpl.cfg", timeout=600))
    r = vlib.model_check("RwMutexImpl", "RwMutexImpl_dev.cfg", expect_ok=False, timeout=600)
    chk.add_model("RwMutexImpl/variant check_once (must violate)", r, note="violated: %s" % r["violated"])
    r2 = vlib.model_check("RwMutexImpl", "RwMutexImpl_dev2.cfg", expect_ok=False, timeout=600)
    chk.add_model("RwMutexImpl/variant done_load_store (must violate)", r2, note="violated: %s" % r2["violated"])
    # request bookkeeping (prev_access / state, which group a request joins) incl. move assignment of the mutex
    chk.add_model("RwRequestImpl (all request / move-assign sequences over 2 objects, 6 requests)",
                  vlib.model_check("RwRequestImpl", "RwRequestImpl.cfg", timeout=600))
    for cfg in ("RwRequestImpl_dev.cfg", "RwRequestImpl_dev_kind.cfg"):
        r3 = vlib.model_check("RwRequestImpl", cfg, expect_ok=False, timeout=600)
        chk.add_model("RwRequestImpl/variant move_keeps_prev_access, %s (must violate)" % cfg[:-4], r3,
                      note="violated: %s" % r3["violated"])
    (binary,) = vlib.build_harness(["rw_harness"])
    nruns = 64 if chk.thorough() else 16
    nhist = 1500 if chk.thorough() else 500
    runs = [([chk.seed * 1000 + i, nhist, 1 if i % 4 else 0], None) for i in range(nruns)]
    hist = vlib.collect_histories(chk, binary, runs, "c04", timeout=500)
    for h, o in hist:
        kinds = [r.get("k") for r in h if r.get("e") == "request"]
        chk.add_case(h, nontrivial=len(kinds) >= 3 and len(set(kinds)) == 2)
    for h, o in hist[:2]:
        chk.sample(h[:22])
    vlib.check_histories(chk, "RwTrace", "RwTrace.cfg", hist, "c04", batch=400)
    chk.cov["rule"] = ("2-10 read/readwrite accesses requested in a fixed order from async_rw_mutex<int>, started "
                       "by 1-4 OS threads at random times or dropped unstarted, held and released (read wrappers "
                       "copied), mutex destroyed early in a third of the histories, in others move-assigned part-way "
                       "through the request sequence onto the (idle) mutex object of the previous history; every readwrite increments the "
                       "wrapped counter and every access logs the value it sees; delays injected at the rw.* hooks "
                       "(between head load and CAS, after done()'s exchange); validated by TLC against RwAbs "
                       "(grant order by groups, exclusion, version = number of earlier writers, owed grants at "
                       "quiescence); non-trivial = >=3 accesses of both kinds")
    chk.assumptions += ["sequential consistency in the model", "read()/readwrite() are called from one thread "
                        "(the mutex object itself is not thread-safe)"]
    return chk.finish()
