"""C16 - configuration precedence: command line over environment over defaults."""
import json
import os
import re
import subprocess
import vlib
from vlib import Check

TOPO = "package:1 core:2 pu:2"      # 4 PUs, 2 cores: default thread count (cores) = 2
SET = {
    # setting: (env var, specific option, ini key, {A,B,X} values)
    "threads": ("PIKA_THREADS", "--pika:threads", "pika.os_threads", {"A": "3", "B": "4", "X": "abc", "K": "cores"}),
    "scheduler": ("PIKA_SCHEDULER", "--pika:scheduler", "pika.scheduler", {"A": "static", "B": "local", "X": "bogus"}),
    "bind": ("PIKA_BIND", "--pika:bind", "pika.bind", {"A": "none", "B": "compact", "X": "bogus"}),
    "stack": ("PIKA_SMALL_STACK_SIZE", None, "pika.stacks.small_size", {"A": "0x20000", "B": "0x30000", "X": "xyz"}),
    "inikey": ("PIKA_SHUTDOWN_CHECK_COUNT", None, "pika.shutdown_check_count", {"A": "11", "B": "12", "X": "zz"}),
    "mask": ("PIKA_PROCESS_MASK", "--pika:process-mask", None, {"A": "0x3", "B": "0xc", "X": "zz"}),
}


def build(c):
    env_name, opt, key, vals = SET[c["setting"]]
    env = {k: v for k, v in os.environ.items() if not k.startswith("PIKA_")}
    env["HWLOC_SYNTHETIC"] = TOPO
    args = []
    if c["env"] != "-":
        env[env_name] = vals[c["env"]]
    pco = []
    if c["pre"] != "-":
        if opt and c["setting"] not in ("stack", "inikey"):
            pco.append("%s=%s" % (opt, vals[c["pre"]]))
        else:
            pco.append("--pika:ini=%s=%s" % (key, vals[c["pre"]]))
    if c.get("pini", "-") != "-":
        pco.append("--pika:ini=%s=%s" % (key, vals[c["pini"]]))
    if pco:
        env["PIKA_COMMANDLINE_OPTIONS"] = " ".join(pco)
    if c["ini"] != "-":
        args.append("--pika:ini=%s=%s" % (key, vals[c["ini"]]))
    if c["cmd"] != "-":
        args.append("%s=%s" % (opt, vals[c["cmd"]]))
    if c.get("app", "-") != "-":
        # a default shipped by the application in init_params::cfg
        args.append("--probe-cfg=%s=%s" % (key, vals[c["app"]]))
    if c["setting"] == "bind":
        args.append("--pika:threads=2")
    if c["setting"] == "mask":
        args.append("--pika:threads=all")
    args.append("--probe-key=pika.shutdown_check_count")
    return env, args


def observe(c, d):
    """Map what the live runtime reports to A / B / D(efault) / other."""
    s = c["setting"]
    if d.get("nworkers", 0) == 0:
        return None
    if s == "threads":
        return {3: "A", 4: "B", 2: "D"}.get(d["nworkers"], "other")
    if s == "scheduler":
        return {"core-static_queue_scheduler": "A", "core-local_queue_scheduler": "B",
                "core-local_priority_queue_scheduler": "D"}.get(d["scheduler"], "other")
    if s == "bind":
        masks = [tuple(w["mask"]) for w in d["workers"]]
        if all(len(m) == 0 for m in masks):
            return "A"
        pus = sorted(m[0] for m in masks if len(m) == 1)
        return {(0, 1): "B", (0, 2): "D"}.get(tuple(pus), "other")
    if s == "stack":
        return {0x20000: "A", 0x30000: "B", 0x10000: "D"}.get(d["stack"], "other")
    if s == "inikey":
        return {"11": "A", "12": "B", "10": "D"}.get(d["cfg"].get("pika.shutdown_check_count"), "other")
    if s == "mask":
        pus = sorted(w["pu"] for w in d["workers"])
        return {(0, 1): "A", (2, 3): "B", (0, 1, 2, 3): "D"}.get(tuple(pus), "other")


def run_probe(binary, env, args):
    try:
        p = subprocess.run([binary] + args, env=env, stdout=subprocess.PIPE, stderr=subprocess.DEVNULL,
                           timeout=60, text=True, errors="replace")
    except subprocess.TimeoutExpired:
        return None
    m = re.search(r"^PROBE (\{.*\})\s*$", p.stdout, re.M)
    return json.loads(m.group(1)) if m else {"nworkers": 0, "rc": p.returncode, "error": "no output"}


def run():
    chk = Check("C16")
    (binary,) = vlib.build_harness(["probe"])
    r = vlib.run_tlc("ConfigCases", "ConfigCases.cfg", workers=1, timeout=900)
    if not r["ok"]:
        raise vlib.ModelFailure("case enumeration failed:\n" + r["out"][-3000:])
    cases = [json.loads(m.group(1).replace('\\"', '"')) for m in re.finditer(r'<<"CASE", "(.*)">>', r["out"])]
    chk.add_model("ConfigCases (every assignment of {absent, A, B, invalid} to the sources of every setting)", r,
                  note="%d cases" % len(cases))
    if not chk.thorough():
        rng = __import__("random").Random(chk.seed)
        rng.shuffle(cases)
        # the same number of cases per setting (settings with few sources are then covered completely)
        per = {}
        for c in cases:
            per.setdefault(c["setting"], []).append(c)
        cases = [c for s in sorted(per) for c in per[s][:260]]

    def one(c):
        env, args = build(c)
        d = run_probe(binary, env, args)
        if d is None:
            d = run_probe(binary, env, args)    # (a start-up normally takes 60 ms; one more try)
        return c, d
    results = vlib.parallel_map(one, cases)
    recs = []
    for c, d in results:
        if d is None:
            chk.violation("the runtime did not start within 60 s (twice) for case %s" % json.dumps(c), dict(case=c, probe="timeout"))
            continue
        v = observe(c, d)
        rec = dict(c)
        rec.setdefault("app", "-")
        rec["e"] = "case"
        rec["out"] = dict(error=v is None, value=v or "none")
        recs.append((rec, c, d))
        chk.add_case(c, nontrivial=sum(1 for k in ("env", "pre", "pini", "ini", "cmd", "app") if c.get(k, "-") != "-") >= 2)
    # miscellaneous: unknown options and non-pika arguments
    misc = []
    base_env = {k: v for k, v in os.environ.items() if not k.startswith("PIKA_")}
    base_env["HWLOC_SYNTHETIC"] = TOPO
    for unknown, args in ((True, ["--pika:bogus=1"]), (True, ["--pika:threads=2", "--pika:no-such-option"]), (False, ["pos1", "--app-n=3", "pos 2", "--app-flag"]),
                          (False, ["--pika:threads=2", "x", "--app-n=7"]), (False, [])):
        d = run_probe(binary, dict(base_env), list(args))
        want = sorted(a for a in args if not a.startswith("--pika:"))
        got = sorted(d.get("argv", []))
        rec = dict(e="misc", unknown=unknown, out=dict(error=d.get("nworkers", 0) == 0, args_ok=(want == got)))
        recs.append((rec, dict(args=args), d))
        chk.add_case(args, nontrivial=True)
        if want == got and d.get("argv") != [a for a in args if not a.startswith("--pika:")]:
            chk.drift.append("non-pika arguments arrive complete but reordered: %s -> %s" % (args, d.get("argv")))
    chk.sample(recs[0][0])
    chk.sample(recs[1][0])
    # one TLC run judges every record; rejected ones come back with the deviation that explains them
    acc, _, r = vlib.validate_batch("ConfigTrace", "ConfigTrace.cfg", [x[0] for x in recs], "c16", timeout=1800)
    if not acc:
        raise vlib.ModelFailure("ConfigTrace did not consume all records:\n" + r["out"][-2000:])
    rejected = {}
    for m in re.finditer(r'<<"REJ", (\d+), "([^"]*)">>', r["out"]):
        rejected[int(m.group(1))] = m.group(2)
    chk.cov["traces_validated_against_impl"] += len(recs) - len(rejected)
    for idx in sorted(rejected):
        rec, c, d = recs[idx - 1]
        explained = rejected[idx]
        what = "case %s: runtime used %s (error: %s)" % (json.dumps(c), rec["out"].get("value"), (d.get("error") or "")[:120])
        if explained != "none":
            key = explained + (":" + c.get("setting", "") if explained == "InvalidValueIgnored" else "")
            chk.finding_or_violation(key, what, dict(case=c, probe=d))
        else:
            chk.violation(what, dict(case=c, probe=d))
    chk.cov["rule"] = ("TLC enumerates, for each of 6 settings (worker count, scheduling policy, binding, small stack "
                       "size, an ini entry, process mask), every assignment of {absent, valid A, valid B, invalid} to its "
                       "sources (environment variable, PIKA_COMMANDLINE_OPTIONS, --pika:ini inside it, --pika:ini, specific option, "
                       "and {absent, A, B} as an application default in init_params::cfg): about 14000 cases "
                       "(quick: up to 260 per setting); each is started for real under a synthetic 1x2x2 topology and the value in "
                       "use is read from the live runtime (worker count, scheduler, per-worker masks, stack size of a "
                       "default task, config entry); TLC validates every outcome against ConfigAbs!Accept; plus unknown "
                       "options and non-pika argument pass-through; non-trivial = >=2 sources given")
    chk.assumptions += ["one setting is varied at a time", "an invalid value in a source that loses may be ignored or reported"]
    return chk.finish()
