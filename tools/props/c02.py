"""C02 - no lost wake-up: a resumed task always runs again."""
import vlib
import steptrace
from vlib import Check

SCHEDULERS = ["local-priority-fifo", "local", "static", "static-priority", "abp-priority-fifo",
              "abp-priority-lifo", "local-priority-lifo", "shared-priority"]
STATEWORD_SITES = "agent.yield,sl.run.end,sl.store,sts.,sas.,cv.wait.unlocked"


def run():
    chk = Check("C02")
    chk.add_model("WakeImpl (2 workers, 2 rounds, duplicate waker)", vlib.model_check("WakeImpl", "WakeImpl.cfg", timeout=600))
    for v in ("abort_if_still_active", "abort_never_retry"):
        r = vlib.model_check("WakeImpl", "WakeImpl_%s.cfg" % v, expect_ok=False, timeout=600)
        chk.add_model("WakeImpl/variant %s (must violate)" % v, r, note="violated: %s" % r["violated"])
    if chk.thorough():
        chk.add_model("WakeImpl (3 workers, 2 rounds, 2 helpers, 2 duplicate wakers)",
                      vlib.model_check("WakeImpl", "WakeImpl_big.cfg", timeout=3000))
    wake, sync, sem = vlib.build_harness(["wake_harness", "sync_harness", "sem_harness"])
    n = 4 if chk.thorough() else 1
    # 1. bare suspend/resume path
    runs = []
    for i in range(16 * n):
        threads = [2, 3, 4, 1][i % 4]
        sched = SCHEDULERS[i % len(SCHEDULERS)] if i >= 4 else "local-priority-fifo"
        runs.append(([chk.seed * 1000 + i, 80, 1 if i % 5 else 0, "--pika:threads=%d" % threads,
                      "--pika:scheduler=%s" % sched], None))
    hist = vlib.collect_histories(chk, wake, runs, "c02w", timeout=400)
    for h, o in hist:
        chk.add_case(h, nontrivial=sum(1 for r in h if r.get("e") == "wake") >= 2)
    for h, o in hist[:2]:
        chk.sample(h[:16])
    vlib.check_histories(chk, "WakeTrace", "WakeTrace.cfg", hist, "c02w", batch=300)
    # 1b. step-level binding of WakeImpl: the hooked steps on the target's state word, with the observed
    #     state / tag / CAS outcome, must be WakeImpl's steps (spec/WakeStepTrace.tla)
    steptrace.check_steps(chk, vlib, wake, 12 * n)
    # 2. the same path underneath the blocking facilities, with the delays moved to the
    #    state-word hooks (resume-before-suspend window widened to hundreds of microseconds)
    env = {"VERIF_PERTURB_SITES": STATEWORD_SITES, "VERIF_PERTURB_MAXUS": "400", "VERIF_PERTURB_PCT": "35"}
    runs = [([chk.seed * 1000 + 100 + i, 30, 1, ["cv", "mutex"][i % 2], "--pika:threads=%d" % [2, 4, 3][i % 3],
              "--pika:scheduler=%s" % SCHEDULERS[(i // 2) % 8]], env) for i in range(16 * n)]
    hist2 = vlib.collect_histories(chk, sync, runs, "c02s", timeout=400)
    for h, o in hist2:
        chk.add_case(h, nontrivial=any((r.get("op") or "").startswith("wait") for r in h))
    vlib.check_histories(chk, "MutexCvTrace", "MutexCvTrace.cfg", hist2, "c02s")
    runs = [([chk.seed * 1000 + 200 + i, 25, 1, "--pika:threads=%d" % [2, 4, 3][i % 3]], env)
            for i in range(6 * n)]
    hist3 = vlib.collect_histories(chk, sem, runs, "c02m", timeout=400)
    for h, o in hist3:
        chk.add_case(h, nontrivial=len(h) > 6)
    vlib.check_histories(chk, "SemTrace", "SemTrace.cfg", hist3, "c02m")
    # 3. interruption as the waker: pika::thread::interrupt() on a thread blocked at an interruption
    #    point must wake it (thread_harness; judged by ThreadAbs; only a blocked-forever history counts
    #    here, everything else in those histories is C13's business)
    thr = vlib.build_harness(["thread_harness"])[0]
    runs = [([chk.seed * 1000 + 300 + i, 60, 1, "--pika:threads=%d" % [2, 3, 4][i % 3]], env) for i in range(6 * n)]
    hist4 = vlib.collect_histories(chk, thr, runs, "c02t", timeout=400)
    normal = [(h, o) for h, o in hist4 if not any(r.get("e") in ("crash", "hang") for r in h)]
    for h, o in normal:
        chk.add_case(h, nontrivial=any(r.get("op") == "block" for r in h))
    n_ok, rejected, states = vlib.validate_histories("ThreadTrace", "ThreadTrace.cfg", [h for h, _ in normal], "c02t",
                                                     batch=150, timeout=900)
    chk.cov["traces_validated_against_impl"] += n_ok
    chk.cov["trace_validation_states"] = chk.cov.get("trace_validation_states", 0) + states
    for (idx, maxl, viol) in rejected:
        h, o = normal[idx]
        stuck = h[maxl - 1] if 0 < maxl <= len(h) else {}
        if stuck.get("e") == "quiescent":
            chk.violation("a thread blocked at an interruption point was interrupted but never ran again "
                          "(history rejected by ThreadTrace at the watchdog's quiescent record %d)" % maxl,
                          dict(origin=o, history=h, stuck_at=maxl, spec="ThreadTrace", cfg="ThreadTrace.cfg"))
    chk.cov["rule"] = ("(1) bare path: 1-3 target tasks x 1-4 wait rounds, register under a spinlock, unlock, "
                       "suspend; wakers on other pika tasks and plain OS threads resume the agent, 8 scheduling "
                       "policies x 1-4 workers, delays injected at agent.yield / sl.run.end / sl.store / sts.* / "
                       "sas.* so the waker regularly finds the target still active (helper path); (2) the same "
                       "with condition variables and semaphores on top; histories validated by TLC against "
                       "WakeAbs / MutexCvAbs / SemAbs whose quiescence rules forbid a blocked task with an "
                       "issued wake-up; non-trivial = >=2 wake-ups / contains a wait; (1b) step level: every hooked "
                       "load / CAS / store / helper decision on one task's state word, with the values the code "
                       "observed, is validated by TLC as a behaviour of WakeImpl (each actor at most one step ahead "
                       "of its record); a trace that instead matches a variant TLC shows to lose a wake-up is a "
                       "violation, any other mismatch is reported as DRIFT; (3) interrupt() as the waker of a thread "
                       "blocked at an interruption point (thread_harness, ThreadAbs)")
    chk.assumptions += ["sequential consistency in the model", "no task busy-yields forever: a wake-up issued from "
                        "a non-pika thread can be starved (not lost) by yield-spinning tasks, because the default "
                        "queue back-end prefers the producer sub-queue with most entries (observed; see DESIGN.md)"]
    return chk.finish()
