"""C13 - pika::thread and jthread: join waits for completion, always returns."""
import vlib
from vlib import Check


def classify(h, maxl):
    # exit callback executed twice / join's resume callback dropped (defect in
    # run_thread_exit_callbacks): signature = a user exit callback registered on the handle
    cbs = {}
    for r in h:
        if r.get("e") == "exitcb":
            cbs[r["h"]] = cbs.get(r["h"], 0) + 1
    if any(v > 1 for v in cbs.values()):
        return "ExitCallbackPopDropsNewEntry"
    # a wait that follows a handled interruption is aborted by that interruption's late wake-up
    if 0 < maxl <= len(h) and h[maxl - 1].get("e") == "ret" and h[maxl - 1].get("res") == -3:
        return "StaleInterruptAbortsLaterWait"
    return None


def run():
    chk = Check("C13")
    chk.add_model("WakeImpl (join = register exit callback, unlock, suspend; callback = resume)",
                  vlib.model_check("WakeImpl", "WakeImpl.cfg", timeout=600))
    chk.add_model("JoinImpl (exit-callback list vs. join registration)",
                  vlib.model_check("JoinImpl", "JoinImpl.cfg", timeout=600))
    r = vlib.model_check("JoinImpl", "JoinImpl_dev.cfg", expect_ok=False, timeout=600)
    chk.add_model("JoinImpl/deviation ExitCallbackPopDropsNewEntry (must violate)", r, note="violated: %s" % r["violated"])
    r2 = vlib.model_check("JoinImpl", "JoinImpl_dev2.cfg", expect_ok=False, timeout=600)
    chk.add_model("JoinImpl/deviation RegisterChecksBeforeLock (must violate)", r2, note="violated: %s" % r2["violated"])
    (binary,) = vlib.build_harness(["thread_harness"])
    nruns = 64 if chk.thorough() else 16
    nhist = 150 if chk.thorough() else 60
    runs = []
    for i in range(nruns):
        threads = [2, 3, 4, 1][i % 4]
        sched = ["local-priority-fifo", "static", "abp-priority-fifo", "local"][(i // 4) % 4]
        runs.append(([chk.seed * 1000 + i, nhist, 1 if i % 4 else 0, "--pika:threads=%d" % threads,
                      "--pika:scheduler=%s" % sched], None))
    hist = vlib.collect_histories(chk, binary, runs, "c13", timeout=400)
    for h, o in hist:
        ops = set(r.get("op") for r in h if r.get("e") == "call")
        chk.add_case(h, nontrivial=len(ops) >= 3)
    for h, o in hist[:2]:
        chk.sample(h[:20])
    vlib.check_histories(chk, "ThreadTrace", "ThreadTrace.cfg", hist, "c13", classify=classify,
                         dev_cfgs={"JoinBeforeEarlierExitCallbacks": "ThreadTrace_dev.cfg"})
    chk.cov["rule"] = ("1-4 pika::thread / jthread handles per history, each driven by an owner task: bodies "
                       "(immediate, yielding with interruption points, blocking, stop-token loop, nested "
                       "thread+join, disable_interruption scope), interrupt / request_stop / user exit "
                       "callback, then join / detach / double join / joinable / jthread destruction after a "
                       "random number of yields (join before, during and after termination); the joiner reads a "
                       "'body finished' flag right after join returns; 4 policies x 1-4 workers; delays at the "
                       "join.* / exitcb.* / state-word hooks; validated by TLC against ThreadAbs")
    chk.assumptions += ["sequential consistency in the model",
                        "handles are used by one owner at a time (thread objects are not thread-safe)"]
    return chk.finish()
