"""C17 - concurrent queues return every element exactly once."""
import vlib
from vlib import Check


def run():
    chk = Check("C17")
    chk.add_model("IndexQueueImpl (3 threads, any side)", vlib.model_check("IndexQueueImpl", "IndexQueueImpl.cfg", timeout=600))
    chk.add_model("IndexQueueImpl (owner/thief)", vlib.model_check("IndexQueueImpl", "IndexQueueImpl_ot.cfg", timeout=600))
    r = vlib.model_check("IndexQueueImpl", "IndexQueueImpl_dev.cfg", expect_ok=False, timeout=600)
    chk.add_model("IndexQueueImpl/deviation PopRightReturnsOldLast (must violate)", r, note="violated: %s" % r["violated"])
    r2 = vlib.model_check("IndexQueueImpl", "IndexQueueImpl_dev2.cfg", expect_ok=False, timeout=600)
    chk.add_model("IndexQueueImpl/deviation PopLeftChecksEmptyOnce (must violate)", r2, note="violated: %s" % r2["violated"])
    r3 = vlib.model_check("IndexQueueImpl", "IndexQueueImpl_dev3.cfg", expect_ok=False, timeout=600)
    chk.add_model("IndexQueueImpl/deviation PopRightIndexBeforeLoop (must violate)", r3, note="violated: %s" % r3["violated"])
    # fine-grained model of the Michael deque (anchor CAS, push/pop/stabilize on both ends)
    for cfg in ("DequeImpl.cfg", "DequeImpl_b.cfg", "DequeImpl_abp.cfg", "DequeImpl_both.cfg"):
        chk.add_model("DequeImpl/%s" % cfg[:-4], vlib.model_check("DequeImplMC", cfg, timeout=900))
    rd = vlib.model_check("DequeImplMC", "DequeImpl_dev.cfg", expect_ok=False, timeout=900)
    chk.add_model("DequeImpl/variant pop_ignores_other_push (must violate)", rd, note="violated: %s" % rd["violated"])
    rd2 = vlib.model_check("DequeImplMC", "DequeImpl_dev2.cfg", expect_ok=False, timeout=900)
    chk.add_model("DequeImpl/variant push_ignores_other_push (must violate)", rd2, note="violated: %s" % rd2["violated"])
    # claim / creation / release of per-thread producer slots in the FIFO back-end's third-party queue
    chk.add_model("ProducerSlotImpl (3 threads, first pushes overlapping, slots recycled after thread exit)",
                  vlib.model_check("ProducerSlotImpl", "ProducerSlotImpl.cfg", timeout=900))
    for cfg in ("ProducerSlotImpl_dev.cfg", "ProducerSlotImpl_dev_loss.cfg"):
        rp = vlib.model_check("ProducerSlotImpl", cfg, expect_ok=False, timeout=900)
        chk.add_model("ProducerSlotImpl/variant claim_by_store, %s (must violate)" % cfg[:-4], rp,
                      note="violated: %s" % rp["violated"])
    if chk.thorough():
        # unbounded argument for the index queue: inductive invariant checked by Apalache for arbitrary
        # integer range bounds (base case, induction step, invariant implies the property)
        steps = [("Init", "IndInv", 0), ("IndInit", "IndInv", 1), ("IndInit", "ExactlyOnce", 0)]
        res = [vlib.apalache_check("IndexQueueInd", i, v, n, cinit="ConstInit") for i, v, n in steps]
        if all(r["ok"] for r in res):
            chk.models.append(dict(spec="IndexQueueInd (Apalache): Init => IndInv, IndInv /\\ Next => IndInv', "
                                        "IndInv => ExactlyOnce for arbitrary First <= Last", result="proved"))
        else:
            chk.drift.append("Apalache could not re-establish the inductive invariant of IndexQueueInd (rc %s)"
                             % [r["rc"] for r in res])
        chk.add_model("DequeImpl/3 threads on both ends", vlib.model_check("DequeImplMC", "DequeImpl_3.cfg", timeout=3000))
    (binary,) = vlib.build_harness(["queue_harness"])
    nruns = 64 if chk.thorough() else 16
    nhist = 400 if chk.thorough() else 120
    runs = []
    for i in range(nruns):
        seed = chk.seed * 1000 + i
        runs.append(([seed, nhist, 1 if i % 4 else 0], None))
    hist = vlib.collect_histories(chk, binary, runs, "c17", timeout=300)
    types = {}
    for h, o in hist:
        ops = [r.get("op") for r in h if r.get("e") == "call"]
        actors = set(r.get("a") for r in h if r.get("e") == "call")
        chk.add_case(h, nontrivial=len(ops) >= 6)
        t = h[0].get("type") if h and h[0].get("e") == "init" else -1
        types[t] = types.get(t, 0) + 1
    chk.cov["histories_per_container_type"] = {str(k): v for k, v in sorted(types.items())}
    for h, o in hist[:2]:
        chk.sample(h[:16])
    vlib.check_histories(chk, "QueueTrace", "QueueTrace.cfg", hist, "c17", batch=300)
    chk.cov["rule"] = ("random concurrent (1-4 OS threads, 6-21 ops) call/return histories on the index "
                       "queue (int, uint32), Michael deque, lockfree fifo/lifo/abp_fifo/abp_lifo back-ends, "
                       "the FIFO back-end kept across histories with fresh threads whose first enqueues are released together, "
                       "followed by a single-threaded drain; TLC checks linearizability w.r.t. QueueAbs "
                       "(deque order, range order, per-producer FIFO); delays injected at dq.*/ciq.* hooks; "
                       "non-trivial = >=6 calls")
    chk.assumptions += ["sequential consistency in the model (x86-TSO at run time)",
                        "moodycamel ConcurrentQueue: only the producer-slot claim protocol is modelled (ProducerSlotImpl), the rest "
                        "is covered as a black box"]
    return chk.finish()
