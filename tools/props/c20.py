"""C20 - MPI requests complete their sender exactly once, after the transfer."""
import vlib
from vlib import Check


def run():
    chk = Check("C20")
    chk.add_model("MpiPollImpl (request/callback vectors, chunked Testsome, compaction; 4 requests, chunk 2)",
                  vlib.model_check("MpiPollImpl", "MpiPollImpl.cfg", timeout=600))
    r = vlib.model_check("MpiPollImpl", "MpiPollImpl_dev.cfg", expect_ok=False, timeout=600)
    chk.add_model("MpiPollImpl/variant drop_base (must violate)", r, note="violated: %s" % r["violated"])
    chk.add_model("ActivityImpl (wait() vs. in-flight work counter)", vlib.model_check("ActivityImplMC", "ActivityImpl.cfg", timeout=600))
    chk.add_model("MpiWaitImpl (ready queue taken over by any worker; invoke, then decrement; wait() reads the count)",
                  vlib.model_check("MpiWaitImpl", "MpiWaitImpl.cfg", timeout=600))
    rw = vlib.model_check("MpiWaitImpl", "MpiWaitImpl_dev.cfg", expect_ok=False, timeout=600)
    chk.add_model("MpiWaitImpl/variant dec_before_invoke (must violate)", rw, note="violated: %s" % rw["violated"])
    chk.add_model("MpiModeImpl (lock-free single-threaded vs. locked bookkeeping for every mode bit / pool setting)",
                  vlib.model_check("MpiModeImpl", "MpiModeImpl.cfg", timeout=600))
    rm = vlib.model_check("MpiModeImpl", "MpiModeImpl_dev.cfg", expect_ok=False, timeout=600)
    chk.add_model("MpiModeImpl/variant wrong_bit (must violate)", rm, note="violated: %s" % rm["violated"])
    (binary,) = vlib.build_harness(["mpi_harness"])
    nruns = 48 if chk.thorough() else 16
    nhist = 40 if chk.thorough() else 20
    env = {"OMPI_MCA_btl": "self"}
    runs = [([chk.seed * 1000 + i, nhist, 1 if i % 3 else 0, "--pika:threads=%d" % [4, 2, 3, 1][i % 4]], env)
            for i in range(nruns)]
    # the same with a dedicated polling pool (another decoding of the completion-mode flags; on one rank pika
    # would not create the pool for --pika:mpi-enable-pool, so the harness forces it like pika's own test)
    runs += [([chk.seed * 1000 + 400 + i, nhist, 1 if i % 2 else 0, "--pika:threads=%d" % [4, 3, 6][i % 3],
               "--verif-mpi-pool"], env) for i in range(24 if chk.thorough() else 8)]
    hist = vlib.collect_histories(chk, binary, runs, "c20", timeout=900, jobs=6)
    modes = set()
    pooled = set()
    for h, o in hist:
        if h and h[0].get("e") == "init":
            modes.add(h[0].get("mode"))
            if h[0].get("pool") == 1:
                pooled.add(h[0].get("mode"))
        chk.add_case((h[0] if h else {}), nontrivial=bool(h) and h[0].get("n", 0) > 1)
    chk.cov["completion_modes_exercised"] = sorted(m for m in modes if m is not None)
    chk.cov["completion_modes_exercised_with_dedicated_pool"] = sorted(m for m in pooled if m is not None)
    for h, o in hist[:1]:
        chk.sample(h[:16])
    vlib.check_histories(chk, "MpiTrace", "MpiTrace.cfg", hist, "c20", batch=60)
    chk.cov["rule"] = ("single rank, self-addressed messages: per history a completion mode (4 methods x 8 flag "
                       "combinations), N in {1,2,3,5,8,31,32,33,48,64} receives of 1-16 or 4096 ints posted through "
                       "transform_mpi(MPI_Irecv) from their own tasks with polling enabled for exactly the history, "
                       "messages sent later one at a time (in order, newest first or shuffled), optional pika::wait() "
                       "from another thread while everything is in flight; each continuation checks its message had been "
                       "sent and the whole payload is visible; a part of the runs has a dedicated single-worker polling pool; "
                       "validated by TLC against MpiAbs; distinct = (mode, N, len)")
    chk.assumptions += ["one MPI implementation (OpenMPI 4.1) and one rank", "sequential consistency in the model"]
    return chk.finish()
