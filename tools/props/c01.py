"""C01 - every submitted task runs exactly once, on one worker at a time."""
import vlib
import steptrace
from vlib import Check


def run():
    chk = Check("C01")
    chk.add_model("LifeMC (task ledger: submitted -> entered once -> exited, one phase at a time)",
                  vlib.model_check("LifeMC", "LifeMC.cfg", timeout=600))
    chk.add_model("WakeImpl (state word / queue protocol: SingleRunner, EnteredOnce with stale queue entries)",
                  vlib.model_check("WakeImpl", "WakeImpl.cfg", timeout=600))
    rc = vlib.model_check("WakeImpl", "WakeImpl_cas_ignores_snapshot.cfg", expect_ok=False, timeout=600)
    chk.add_model("WakeImpl/variant cas_ignores_snapshot (must violate)", rc, note="violated: %s" % rc["violated"])
    chk.add_model("YieldImpl (scheduling loop: pending / pending_boost yields, next-thread shortcut, 2 tasks x 3 phases)",
                  vlib.model_check("YieldImpl", "YieldImpl.cfg", timeout=600))
    ry = vlib.model_check("YieldImpl", "YieldImpl_dev.cfg", expect_ok=False, timeout=600)
    chk.add_model("YieldImpl/variant boost_next_keeps_state (must violate)", ry, note="violated: %s" % ry["violated"])
    (binary,) = vlib.build_harness(["life_harness"])
    nruns = 128 if chk.thorough() else 32
    ninc = 12 if chk.thorough() else 8
    env = {"VERIF_PERTURB_SITES": "sl.got,sl.active,sl.run.end,sl.store,tq.,sts.,sas.,agent.yield",
           "VERIF_PERTURB_PCT": "20", "VERIF_PERTURB_MAXUS": "200"}
    runs = [([chk.seed * 1000 + 500 + i, ninc, 1 if i % 5 else 0], env) for i in range(nruns)]
    hist = vlib.collect_histories(chk, binary, runs, "c01", timeout=600)
    ntasks = 0
    for h, o in hist:
        for s in [r for r in h if r.get("e") == "start"]:
            chk.add_case(s, nontrivial=True)
        ntasks += sum(1 for r in h if r.get("e") == "submit")
    chk.cov["tasks_tracked"] = ntasks
    for h, o in hist[:1]:
        chk.sample(h[:24])
    vlib.check_histories(chk, "LifeTrace", "LifeTrace.cfg", hist, "c01", batch=8)
    # step-level binding of WakeImpl (shared with C02): the hooked steps on a task's state word must be the
    # verified protocol's steps - a task whose deferred resume is dropped never completes
    (wake,) = vlib.build_harness(["wake_harness"])
    steptrace.check_steps(chk, vlib, wake, 18 if chk.thorough() else 6)
    # the same hand-off with duplicate wake-ups racing on one suspended task (two wakers must not both
    # win: the task would be queued twice and run on two workers); a detector in the target's body reports
    # an overlapping execution, TLC judges the histories against WakeAbs
    runs = [([chk.seed * 1000 + 800 + i, 80, 1 if i % 3 else 0, "--pika:threads=%d" % [4, 3, 2][i % 3]], None)
            for i in range(24 if chk.thorough() else 8)]
    hw = vlib.collect_histories(chk, wake, runs, "c01w", timeout=400)
    for h, o in hw:
        chk.add_case(("wake", str(h[:6])), nontrivial=sum(1 for r in h if r.get("e") == "wake") >= 2)
    vlib.check_histories(chk, "WakeTrace", "WakeTrace.cfg", hw, "c01w", batch=300)
    chk.cov["rule"] = ("task forests (children, yields, blocking, priorities high/normal/low, stack sizes "
                       "small..large, submitters inside and outside the runtime) on 8 scheduling policies x 1-4 "
                       "workers with delays injected at the scheduling-loop / thread_queue / state-word hooks; "
                       "every task's submit/enter/phase/exit records validated by TLC against LifeAbs (entered "
                       "exactly once, one phase at a time, all exited before stop returns); a hook monitor on "
                       "sl.run.begin/end rejects any thread object run by two workers at once")
    chk.assumptions += ["sequential consistency in the model",
                        "shared-priority and thread_queue_mc internals are covered as black boxes"]
    return chk.finish()
