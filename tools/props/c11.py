"""C11 - bulk calls f once per index, then completes once."""
import vlib
from vlib import Check


def run():
    chk = Check("C11")
    chk.add_model("BulkImpl (chunk arithmetic, all n <= 72, 1-4 workers, wide words)", vlib.model_check("BulkImpl", "BulkImpl.cfg", timeout=600))
    r = vlib.model_check("BulkImpl", "BulkImpl_dev.cfg", expect_ok=False, timeout=600)
    chk.add_model("BulkImpl/6-bit words = ChunkArithmeticWraps (must violate)", r, note="violated: %s" % r["violated"])
    chk.add_model("IndexQueueImpl (owner pop_left / thieves pop_right)", vlib.model_check("IndexQueueImpl", "IndexQueueImpl_ot.cfg", timeout=600))
    (binary,) = vlib.build_harness(["bulk_harness"])
    n = 4 if chk.thorough() else 1
    runs = [([chk.seed * 1000 + i, 250, 1 if i % 3 else 0, 0], None) for i in range(12 * n)]
    # shapes around and above 2^31 / 2^32 (the 32-bit chunk arithmetic used to hang / truncate there)
    runs.append(([chk.seed * 1000 + 900, 5 if chk.thorough() else 2, 0, 1], None))
    hist = vlib.collect_histories(chk, binary, runs, "c11", timeout=1500, jobs=8)
    nb = 0
    for h, o in hist:
        for r in h:
            if r.get("e") in ("begin", "summary"):
                nb += 1
                chk.add_case(r, nontrivial=(r.get("n", 2) > 1 or r.get("n0", 0) > 1 or r.get("n1", 0) > 0))
    chk.cov["bulk_invocations"] = nb
    for h, o in hist[:1]:
        chk.sample(h[:16])
    chk.sample([r for h, o in hist for r in h if r.get("e") == "summary" and r.get("n1", 0) >= 2047][:3])
    vlib.check_histories(chk, "BulkTrace", "BulkTrace.cfg", hist, "c11", batch=40, timeout=1500)
    chk.cov["rule"] = ("bulk on the default pool (2 workers) and on a second pool (4 workers; local != global "
                       "worker numbers) for shapes 0, 1, W-1..W+1, 8W+1, 16W+3, chunk*W*8 +-1, 257, random up to "
                       "1e5 and 2^31-1, 2^31+1, 2^32+5 (thorough: + 2^27+3, 2^32-1), shape types int, unsigned, "
                       "long, size_t, int64_t, throwing sets {none, first, last, one per worker, all}; shapes of one index per "
                       "worker whose calls return together; bursts of 150 such operations back to back with the operation "
                       "states kept alive (exactly one completion each, after all calls returned); shapes <= 64 "
                       "log every call/return/completion, larger ones a measured summary (per-index table up to "
                       "2^26, count+sum above); validated by TLC against BulkAbs; distinct = distinct (shape, "
                       "pool, type, throwers) records")
    chk.assumptions += ["sequential consistency in the model", "indices above 2^26 are checked by count and sum, "
                        "not individually"]
    return chk.finish()
