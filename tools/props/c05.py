"""C05 - runtime life cycle: wait/stop drain all work, restart works."""
import vlib
from vlib import Check


def life_runs(chk, nruns, ninc, base):
    return [([chk.seed * 1000 + base + i, ninc, 1 if i % 4 else 0], None) for i in range(nruns)]


def split_incarnations(hist):
    """one process run = several incarnations; keep them together (restart is part of the property)"""
    return hist


def run():
    chk = Check("C05")
    chk.add_model("LifeMC (API-level life cycle, 3 tasks)", vlib.model_check("LifeMC", "LifeMC.cfg", timeout=600))
    chk.add_model("ActivityImpl (activity counter protocol)", vlib.model_check("ActivityImplMC", "ActivityImpl.cfg", timeout=600))
    for v in ("inc", "dec"):
        r = vlib.model_check("ActivityImplMC", "ActivityImpl_%s.cfg" % v, expect_ok=False, timeout=600)
        chk.add_model("ActivityImpl/variant %s (must violate)" % v, r, note="violated: %s" % r["violated"])
    chk.add_model("StopOrderImpl (stop(): wait for finalize, then for idleness; work submitted until finalize)",
                  vlib.model_check("StopOrderImpl", "StopOrderImpl.cfg", timeout=600))
    rs = vlib.model_check("StopOrderImpl", "StopOrderImpl_dev.cfg", expect_ok=False, timeout=600)
    chk.add_model("StopOrderImpl/variant idle_before_finalize (must violate)", rs, note="violated: %s" % rs["violated"])
    chk.add_model("PuSuspendImpl (suspend / resume of the workers behind pika::suspend / resume)",
                  vlib.model_check("PuSuspendImpl", "PuSuspendImpl.cfg", timeout=600))
    rp = vlib.model_check("PuSuspendImpl", "PuSuspendImpl_dev.cfg", expect_ok=False, timeout=600)
    chk.add_model("PuSuspendImpl/variant resume_notifies_once (must violate)", rp, note="violated: %s" % rp["violated"])
    (binary,) = vlib.build_harness(["life_harness"])
    nruns = 128 if chk.thorough() else 32
    ninc = 12 if chk.thorough() else 8
    hist = vlib.collect_histories(chk, binary, life_runs(chk, nruns, ninc, 0), "c05", timeout=600)
    ninc_total = 0
    for h, o in hist:
        starts = [r for r in h if r.get("e") == "start"]
        ninc_total += len(starts)
        for s in starts:
            chk.add_case(s, nontrivial=True)
    chk.cov["incarnations"] = ninc_total
    for h, o in hist[:1]:
        chk.sample([r for r in h if r.get("e") not in ("pb", "pe")][:24])
    vlib.check_histories(chk, "LifeTrace", "LifeTrace.cfg", hist, "c05", batch=8)
    chk.cov["rule"] = ("each process run = 5-8 runtime incarnations with random worker count (1-4, occasionally 8 or 16), scheduling "
                       "policy (8), with/without an entry function (whose result stop() must return), a random "
                       "task forest (4-27 tasks: children, yields, blocking on children, priorities, stack "
                       "sizes; relays of 100-2000 tiny tasks each creating its successor before it finishes; incarnations in "
                       "which root relays are submitted one at a time, each followed by its own wait()) submitted by the entry function, the driver thread, a second external thread, "
                       "while suspended, and after resume; wait / suspend / resume / finalize / stop in random "
                       "legal order; every history validated by TLC against LifeAbs; distinct = distinct "
                       "incarnation configurations")
    chk.assumptions += ["sequential consistency in the model", "single driver thread issues the life-cycle calls "
                        "(documented: stop/suspend/resume from outside the runtime)"]
    return chk.finish()
