"""C18 - type-erased senders and functions behave like what they wrap."""
import json
import os
import re
import vlib
from vlib import Check

KINDS = ["function", "unique_function", "any_sender", "unique_any_sender", "any_sender_ref", "unique_any_sender_ref"]
# the *_ref kinds wrap senders that complete with an l-value reference; they replay the same behaviours
MODEL_OF = {"any_sender_ref": "any_sender", "unique_any_sender_ref": "unique_any_sender"}


def tlc_cases(chk, kind, cfg, simulate=None, limit=None):
    r = vlib.run_tlc("WrapperCases", cfg, workers=1, timeout=1800, simulate=simulate)
    if not (r["ok"] or simulate):
        raise vlib.ModelFailure("WrapperCases %s failed:\n%s" % (cfg, r["out"][-3000:]))
    cases = []
    seen = set()
    for m in re.finditer(r'<<"CASE", "(.*)">>', r["out"]):
        t = m.group(1)
        if t in seen:
            continue
        seen.add(t)
        cases.append(json.loads(t.replace('\\"', '"')))
        if limit and len(cases) >= limit:
            break
    if not simulate:
        chk.add_model("WrapperAbs/%s: all operation sequences (%s)" % (kind, cfg), r, note="%d behaviours" % len(cases))
    else:
        chk.models.append(dict(spec="WrapperAbs/%s simulation (%s)" % (kind, cfg), behaviours=len(cases)))
    return cases


def to_text(case):
    parts = []
    for s in case:
        o = s["obs"]
        parts.append("%s %d %d %d %d %d %s" % (s["op"], s["i"], s["j"], 1 if s["big"] else 0, o["live"], o["res"],
                                                " ".join("1" if e else "0" for e in o["empty"])))
    return ";".join(parts)


def run():
    chk = Check("C18")
    chk.add_model("FunctionImpl (vptr / object pointer / inline buffer: make, reset, swap, move-assign; 3 wrappers)",
                  vlib.model_check("FunctionImpl", "FunctionImpl_3.cfg", timeout=900))
    rf = vlib.model_check("FunctionImpl", "FunctionImpl_dev.cfg", expect_ok=False, timeout=600)
    chk.add_model("FunctionImpl/variant swap_repairs_one (must violate)", rf, note="violated: %s" % rf["violated"])
    (binary,) = vlib.build_harness(["wrap_harness"])
    L = 4 if chk.thorough() else 3
    tdir = os.path.join(vlib.BUILD, "traces")
    os.makedirs(tdir, exist_ok=True)
    total = 0
    for kind in KINDS:
        mk = MODEL_OF.get(kind, kind)
        cases = tlc_cases(chk, kind, "WrapperCases_%s_%d.cfg" % (mk, L))
        cases += tlc_cases(chk, kind, "WrapperSim_%s.cfg" % mk,
                           simulate="num=%d" % (4000 if chk.thorough() else 800), limit=20000 if chk.thorough() else 3000)
        path = os.path.join(tdir, "c18-%s-%d.txt" % (kind, os.getpid()))
        with open(path, "w") as f:
            for c in cases:
                f.write(to_text(c) + "\n")
        res = path + ".res"
        rc, out = vlib.sh([binary, kind, path, res], timeout=900)
        lines = vlib.read_ndjson(res) if os.path.exists(res) else []
        done = [l for l in lines if "done" in l]
        if rc != 0 or not done:
            chk.violation("wrapper harness for %s crashed (rc=%d) while replaying spec behaviours" % (kind, rc),
                          dict(kind=kind, output=out[-500:]))
            continue
        total += done[0]["done"]
        chk.cov["traces_validated_against_impl"] += done[0]["done"] - done[0]["bad"]
        for l in lines:
            if "error" in l:
                c = cases[l["case"] - 1]
                if len(chk.violations) < 12:
                    chk.violation("%s: %s" % (kind, l["error"]), dict(kind=kind, ops=[(s["op"], s["i"], s["j"], s["big"]) for s in c],
                                                                        expected=[s["obs"] for s in c]))
        for c in cases:
            chk.add_case((kind, [(s["op"], s["i"], s["j"], s["big"]) for s in c]),
                         nontrivial=len(set(s["op"] for s in c)) >= 2)
        if kind == "function":
            chk.sample(dict(kind=kind, steps=cases[len(cases) // 2]))
        for p in (path, res):
            try:
                os.unlink(p)
            except OSError:
                pass
    chk.cov["rule"] = ("for each of function, unique_function, any_sender, unique_any_sender: every operation sequence of "
                       "length %d over 2 slots (make small/large, copy-assign, move-assign, reset, swap, invoke / "
                       "connect+start) enumerated by TLC from WrapperAbs, plus TLC-simulated sequences of length 10 over 3 "
                       "slots; each is replayed on the real wrapper and after every step emptiness of every slot, the "
                       "invocation result (or the defined error for an empty wrapper) and the number of live contained "
                       "objects (inline and heap stored) are compared with the spec; non-trivial = >=2 kinds of operation" % L)
    chk.assumptions += ["self-referential small callables are outside function's relocation assumption and not generated"]
    return chk.finish()
