"""C07 - condition variables never lose a notification."""
import vlib
from vlib import Check

TIMED = ("wait_until", "wait_until_pred", "wait_until_stop")


def classify(h, maxl):
    """Known finding: a timed wait on a plain OS thread that is notified before its deadline
    deadlocks the notifier (default_agent::resume waits for a suspend that never comes)."""
    if not h or h[0].get("e") != "init":
        return None
    os_ids = set(h[0].get("os", []))
    pending = {}
    for r in h:
        if r.get("e") == "call":
            pending[r["a"]] = r["op"]
        elif r.get("e") == "ret":
            pending.pop(r["a"], None)
    if h[-1].get("e") == "quiescent" and any(a in os_ids and op in TIMED for a, op in pending.items()) \
            and any(op in ("notify_one", "notify_all", "request_stop") for op in pending.values()):
        return "OsThreadTimedWaitNotifyDeadlock"
    return None


def run():
    chk = Check("C07")
    chk.add_model("MutexCvMC/cv", vlib.model_check("MutexCvMC", "MutexCvMC_cv.cfg", timeout=900))
    chk.add_model("MutexCvMC/stop-token waits", vlib.model_check("MutexCvMC", "MutexCvMC_stop.cfg", timeout=900))
    # fine-grained model of the user-level condition variable (user lock vs. internal lock vs. queue)
    for cfg in ("CvImpl.cfg", "CvImpl_locked.cfg", "CvImpl_stoponly.cfg"):
        chk.add_model("CvImpl/%s" % cfg[:-4], vlib.model_check("CvImpl", cfg, timeout=600))
    for cfg in ("CvImpl_dev_ul.cfg", "CvImpl_dev_stop.cfg"):
        r = vlib.model_check("CvImpl", cfg, expect_ok=False, timeout=600)
        chk.add_model("CvImpl/variant %s (must violate)" % cfg[11:-4], r, note="violated: %s" % r["violated"])
    # the internal condition variable's timed wait (queue entry erased on timeout) as used by the semaphore model
    rf = vlib.model_check("SemImplMC", "SemImpl_dev_front.cfg", expect_ok=False, timeout=600)
    chk.add_model("SemImpl/variant timed_push_front: timed waiter enqueued at the front erases another waiter's "
                  "entry on timeout (must violate)", rf, note="violated: %s" % rf["violated"])
    (binary,) = vlib.build_harness(["sync_harness"])
    nruns = 64 if chk.thorough() else 16
    nhist = 120 if chk.thorough() else 50
    runs = []
    for i in range(nruns):
        threads = [2, 1, 4, 3][i % 4]
        runs.append(([chk.seed * 1000 + i, nhist, 1 if i % 4 else 0, "cv", "--pika:threads=%d" % threads], None))
    # focused scenarios: setter queued on the user lock while the waiter is about to wait (slow unlock), stop
    # request swept across waiters that come round their loop while notifiers hold the internal lock
    for i in range(24 if chk.thorough() else 10):
        runs.append(([chk.seed * 1000 + 500 + i, 80, 1, "cv+focus", "--pika:threads=%d" % [4, 3, 2][i % 3]], None))
    # dedicated runs for the known finding (OS-thread timed waits); they end at the first hang
    for i in range(2):
        runs.append(([chk.seed * 1000 + 900 + i, 30, 1, "cv+ostimed", "--pika:threads=2"], None))
    hist = vlib.collect_histories(chk, binary, runs, "c07", timeout=400)
    for h, o in hist:
        ops = [r.get("op") for r in h if r.get("e") == "call"]
        chk.add_case(h, nontrivial=any(op and op.startswith("wait") for op in ops) and len(ops) >= 5)
    for h, o in hist[:2]:
        chk.sample(h[:18])
    vlib.check_histories(chk, "MutexCvTrace", "MutexCvTrace.cfg", hist, "c07", classify=classify)
    chk.cov["rule"] = ("random histories: waiters (plain loop, predicate, timed, timed-predicate, stop-token "
                       "forms of condition_variable and condition_variable_any over pika::mutex, timed_mutex "
                       "and spinlock), notifiers with and without the user lock, a setter that makes the "
                       "predicate true under the lock and then notifies (so every waiter is owed a wake-up), "
                       "stop requests; pika tasks and OS threads; validated by TLC against MutexCvAbs; "
                       "non-trivial = contains a wait and >=5 calls")
    chk.assumptions += ["sequential consistency in the model", "spurious wake-ups are accepted; lost ones are not",
                        "timer wake-ups at most 1 ms early"]
    return chk.finish()
