"""C15 - workers are pinned to distinct PUs inside the process mask."""
import json
import os
import re
import subprocess
import vlib
from vlib import Check


def enumerate_cases(chk, cfg):
    """TLC enumerates the configuration space (AffinityCases) and prints every selected case."""
    r = vlib.run_tlc("AffinityCasesMC", cfg, workers=1, timeout=1800)
    if not r["ok"]:
        raise vlib.ModelFailure("case enumeration failed:\n" + r["out"][-3000:])
    cases = []
    for m in re.finditer(r'<<"CASE", "(.*)">>', r["out"]):
        cases.append(json.loads(m.group(1).replace('\\"', '"')))
    chk.add_model("AffinityCases (enumeration of topologies x masks x thread requests x binding modes x pool split)", r,
                  note="%d cases selected for the conformance run" % len(cases))
    return cases


def run_case(binary, c, real=False):
    mask = 0
    for b in c["mask"]:
        mask |= 1 << b
    args = ["--pika:bind=%s" % c["bind"],
            "--pika:threads=%s" % (c["n"] if c["threads"] == "n" else c["threads"])]
    env = dict(os.environ)
    pre = []
    if c.get("perm"):
        # synthetic topology with the OS numbering Linux gives SMT siblings (logical PU i has OS index perm[i]),
        # applied to this machine so that the binding calls reach the kernel; the process mask is given in OS
        # indexes
        perm = c["perm"]
        env["HWLOC_SYNTHETIC"] = "package:%d core:%d pu:%d(indexes=%s)" % (c["s"], c["c"], c["p"], ",".join(map(str, perm)))
        env["HWLOC_THISSYSTEM"] = "1"
        omask = 0
        for b in c["mask"]:
            omask |= 1 << perm[b]
        args.append("--pika:process-mask=0x%x" % omask)
    elif real:
        pre = ["taskset", "-c", ",".join(str(b) for b in c["mask"])]
    else:
        env["HWLOC_SYNTHETIC"] = "package:%d core:%d pu:%d" % (c["s"], c["c"], c["p"])
        args.append("--pika:process-mask=0x%x" % mask)
    if c["second"]:
        args.append("--probe-second=1")
    try:
        p = subprocess.run(pre + [binary] + args, env=env, stdout=subprocess.PIPE, stderr=subprocess.DEVNULL,
                           timeout=60, text=True, errors="replace")
        out = p.stdout
        rc = p.returncode
    except subprocess.TimeoutExpired:
        return None, "timeout"
    m = re.search(r"^PROBE (\{.*\})\s*$", out, re.M)
    if not m:
        return None, "no probe output (rc=%d)" % rc
    return json.loads(m.group(1)), None


def run():
    chk = Check("C15")
    (binary,) = vlib.build_harness(["probe"])
    cases = enumerate_cases(chk, "AffinityCases_full.cfg" if chk.thorough() else "AffinityCases_quick.cfg")
    # real topology of this machine (1 socket x 16 cores x 1 PU): taskset masks, OS-level affinity
    real_cases = []
    rng = __import__("random").Random(chk.seed)
    for i in range(300 if chk.thorough() else 80):
        k = rng.randint(1, 8)
        m = sorted(rng.sample(range(16), k))
        th = rng.choice(["n", "n", "all", "cores"])
        n = rng.randint(1, k + 1) if th == "n" else 0
        # a second thread pool on the real machine: only the OS-reported affinity shows where its workers
        # really are
        second = 1 if (th == "n" and 2 <= n <= k and rng.random() < 0.5) else 0
        real_cases.append(dict(s=1, c=16, p=1, mask=m, threads=th, n=n,
                               bind=rng.choice(["compact", "scatter", "balanced", "numa-balanced"]), second=second, real=1))

    # topologies whose OS numbering is not the logical one, bound for real
    perm_cases = []
    for i in range(200 if chk.thorough() else 60):
        s_, c_, p_ = rng.choice([(1, 4, 2), (2, 2, 2), (1, 3, 2)])
        npu = s_ * c_ * p_
        ncore = s_ * c_
        perm = [(l % p_) * ncore + l // p_ for l in range(npu)]    # siblings are CPU n and CPU n + ncores
        k = rng.randint(1, npu)
        m = sorted(rng.sample(range(npu), k))
        th = rng.choice(["n", "n", "all", "cores"])
        n = rng.randint(1, k + 1) if th == "n" else 0
        perm_cases.append(dict(s=s_, c=c_, p=p_, mask=m, threads=th, n=n,
                               bind=rng.choice(["compact", "scatter", "balanced", "numa-balanced"]), second=0,
                               real=1, perm=perm))

    def one(c):
        res, err = run_case(binary, c, real=bool(c.get("real")))
        if err == "timeout":
            # a start-up that takes more than a minute (normal: 60 ms) is tried once more before it counts
            res, err = run_case(binary, c, real=bool(c.get("real")))
        return c, res, err
    results = vlib.parallel_map(one, cases + real_cases + perm_cases)
    recs = []
    for c, res, err in results:
        if res is None and err == "timeout":
            chk.violation("the runtime did not start within 60 s (twice) for configuration %s" % json.dumps(c),
                          dict(case=c, probe="timeout"))
            continue
        if res is None:
            raise vlib.ModelFailure("probe failed for %s: %s" % (c, err))
        rejected = res.get("nworkers", 0) == 0
        workers = []
        for w in res.get("workers", []):
            # on the real machine the mask the OS reports is what the worker is bound to
            mask = w["os"] if c.get("real") else w["mask"]
            if c.get("perm"):
                inv = {o: l for l, o in enumerate(c["perm"])}
                mask = sorted(inv.get(o, 99) for o in w["os"])    # OS cpus the kernel reports -> logical PUs
            workers.append(dict(pu=w["pu"], mask=mask, pool=w["pool"]))
        rec = dict(e="case", out=dict(rejected=rejected, workers=workers))
        rec.update({k: c[k] for k in ("s", "c", "p", "mask", "threads", "n", "bind", "second")})
        recs.append((rec, c, res))
        chk.add_case(c, nontrivial=len(c["mask"]) > 1)
    chk.sample(recs[0][0])
    chk.sample(recs[len(recs) // 2][0])
    # validation by TLC: every record must satisfy AffinityAbs!Accept; walk over rejections
    pending = recs
    offset = 0
    while pending:
        acc, maxl, r = vlib.validate_batch("AffinityTrace", "AffinityTrace.cfg", [x[0] for x in pending] + [{"e": "reset"}],
                                           "c15", timeout=1800)
        if acc:
            chk.cov["traces_validated_against_impl"] += len(pending)
            break
        k = max(maxl, 1) - 1
        chk.cov["traces_validated_against_impl"] += k
        rec, c, res = pending[k]
        key = None
        if c["bind"] == "none" and res.get("nworkers", 0) > 0 and \
                (c["n"] if c["threads"] == "n" else 0) > len(c["mask"]):
            key = "BindNoneOversubscribes"
        elif c["bind"] == "numa-balanced" and c["s"] > 1:
            key = "NumaBalancedMultiSocket"
        what = "configuration %s: runtime reported %s" % (json.dumps(c), json.dumps(rec["out"])[:300])
        if key:
            chk.finding_or_violation(key, what, dict(case=c, probe=res))
        else:
            chk.violation(what, dict(case=c, probe=res))
        pending = pending[k + 1:]
        if len(chk.violations) > 25:
            break
    chk.cov["rule"] = ("TLC enumerates synthetic topologies {1x2x2, 2x2x1, 1x4x1, 2x2x2, 1x3x2, 2x3x2} x process masks "
                       "(all subsets up to 6 PUs, windows and strided masks above) x thread requests (1..|mask|+1, cores, "
                       "all) x binding modes x pool split and a hash-selected sample (thorough: 1/4 of ~10k cases) is run "
                       "through the real runtime under HWLOC_SYNTHETIC; plus random taskset masks on the real 1x16x1 "
                       "machine where the OS-reported affinity of every worker is used; each outcome is validated by TLC "
                       "against AffinityAbs!Accept; non-trivial = mask with more than one PU")
    chk.assumptions += ["synthetic topologies: binding calls are observed through the masks pika computes (hwloc cannot bind "
                        "on a synthetic machine); real binding is observed on the one real topology and on synthetic SMT-numbered topologies mapped onto it"]
    return chk.finish()
