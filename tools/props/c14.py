"""C14 - stop_token: one winning stop request, each callback exactly once."""
import vlib
from vlib import Check

DEVS = {"AssignLeaksSourceCount": "StopTrace_dev_assign.cfg",
        "SecondWinnerAfterUnlockedRetry": "StopTrace_dev_winner.cfg",
        "DtorSkipsWaitAmongOsThreads": "StopTrace_dev_dtor.cfg",
        "CallbackAddedAfterStopNeverRuns": "StopTrace_dev_lostcb.cfg"}


def run():
    chk = Check("C14")
    chk.add_model("StopAbsMC/handles", vlib.model_check("StopAbsMC", "StopAbsMC_handles.cfg", timeout=600))
    chk.add_model("StopAbsMC/callbacks", vlib.model_check("StopAbsMC", "StopAbsMC_cb.cfg", timeout=900))
    # fine-grained model of stop_state: lock word (load / CAS / spin), callback list, is_removed hand-shake
    chk.add_model("StopStateImpl (2 requesters, 2 callbacks, destructor on another thread, self-destroying callback)",
                  vlib.model_check("StopStateImpl", "StopStateImpl.cfg", timeout=900))
    chk.add_model("StopStateImpl (callback object kept alive)",
                  vlib.model_check("StopStateImpl", "StopStateImpl_keep.cfg", timeout=900))
    for cfg, what in (("StopStateImpl_no_recheck.cfg", "second winner"),
                      ("StopStateImpl_no_recheck_cb.cfg", "callback registered after the stop never runs"),
                      ("StopStateImpl_no_spin_recheck.cfg", "second winner after waiting for a registration"),
                      ("StopStateImpl_os_ids_equal.cfg", "destructor does not wait among OS threads"),
                      ("StopStateImpl_mark_after_unlock.cfg", "dequeued entry marked only after the lock was released: "
                                                              "its destructor returns while request_stop still uses it")):
        r = vlib.model_check("StopStateImpl", cfg, expect_ok=False, timeout=900)
        chk.add_model("StopStateImpl/variant %s: %s (must violate)" % (cfg[14:-4], what), r, note="violated: %s" % r["violated"])
    if chk.thorough():
        chk.add_model("StopStateImpl (3 requesters, 3 callbacks)",
                      vlib.model_check("StopStateImpl", "StopStateImpl_big.cfg", timeout=3000))
    for dev, cfg in (("AssignLeaksSourceCount", "StopAbsMC_dev_assign.cfg"),
                     ("SecondWinnerAfterUnlockedRetry", "StopAbsMC_dev_winner.cfg"),
                     ("DtorSkipsWaitAmongOsThreads", "StopAbsMC_dev_dtor.cfg")):
        r = vlib.model_check("StopAbsMC", cfg, expect_ok=False, timeout=600)
        chk.add_model("StopAbsMC/deviation %s (must violate)" % dev, r, note="violated: %s" % r["violated"])
    (binary,) = vlib.build_harness(["stop_harness"])
    nruns = 64 if chk.thorough() else 16
    nhist = 120 if chk.thorough() else 40
    runs = []
    for i in range(nruns):
        threads = [2, 1, 4, 3][i % 4]
        seed = chk.seed * 1000 + i
        runs.append(([seed, nhist, 1 if i % 4 else 0, "--pika:threads=%d" % threads], None))
    hist = vlib.collect_histories(chk, binary, runs, "c14", timeout=300)
    for h, o in hist:
        ops = [r.get("op") for r in h if r.get("e") == "call"]
        chk.add_case(h, nontrivial=len(ops) >= 4 and len(set(ops)) >= 3)
    for h, o in hist[:2]:
        chk.sample(h[:16])
    vlib.check_histories(chk, "StopTrace", "StopTrace.cfg", hist, "c14", dev_cfgs=DEVS)
    chk.cov["rule"] = ("random histories: sequential stop_source/stop_token handle algebra (copy, move, "
                       "assign, swap, destroy, queries) and concurrent request_stop / stop_callback "
                       "construction / destruction (incl. from inside callbacks) on pika tasks and OS "
                       "threads with hook-injected delays; validated by TLC against StopAbs; non-trivial "
                       "= >=4 calls of >=3 kinds")
    chk.assumptions += ["sequential consistency in the model", "handle objects are not used concurrently "
                        "(documented precondition); callbacks and request_stop are"]
    return chk.finish()
