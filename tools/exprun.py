#!/usr/bin/env python3
"""experiment runner: runs a property's check with harness binaries taken from another build dir and without
model checking; evidence / replay files go to /var/tmp.   usage: exprun.py <ID> <harness-build-dir> [tier]"""
import sys, os, importlib
sys.path.insert(0, '/verif/tools')
import vlib
pid, hb = sys.argv[1], sys.argv[2]
tier = sys.argv[3] if len(sys.argv) > 3 else "quick"
vlib.EVID = '/var/tmp/exp-evid'
if hasattr(vlib, 'REPLAY'): vlib.REPLAY = '/var/tmp/exp-replay'
def bh(targets):
    import subprocess
    r = subprocess.run(['ninja', '-C', hb] + list(targets), capture_output=True, text=True)
    if r.returncode: print(r.stdout[-3000:]); raise SystemExit(9)
    return [os.path.join(hb, t) for t in targets]
vlib.build_harness = bh
vlib.model_check = lambda *a, **k: dict(ok=True, violated="skipped", distinct=0, generated=0, wall_s=0, rc=0, out="")
vlib.apalache_check = lambda *a, **k: dict(ok=True, rc=0)
os.environ['VERIF_TIER'] = tier
os.environ.setdefault('VERIF_SEED', '7')
sys.argv = ['vcheck', pid, '--tier', tier]
m = importlib.import_module('props.' + pid.lower())
try:
    vlib.TIER = tier
except Exception: pass
rc = m.run()
print("rc", rc)
