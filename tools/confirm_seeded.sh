#!/bin/bash
# confirm_seeded.sh <seeded-dir> [runs]
# Independently confirms a seeded change in a scratch worktree of /repo (outside /repo and /verif):
#   1. the change applies and the whole library still compiles (all modules, hooks off),
#   2. the demonstration fails with the change (at least once in <runs> runs),
#   3. the demonstration passes without the change (every run),
#   4. the pinned header tests of the touched modules still pass with the change (run in /repo/_build
#      with the patch temporarily applied to /repo and reverted afterwards).
# Prints one JSON line with what was observed.  The scratch worktree/build are shared between calls
# (incremental builds) and removed by `confirm_seeded.sh --clean`.
set -u
WT=/var/tmp/pika-seed-wt
BD=/var/tmp/pika-seed-build
DB=/var/tmp/pika-seed-demo
if [ "$1" = "--clean" ]; then
  git -C /repo worktree remove --force $WT 2>/dev/null
  rm -rf $WT $BD $DB
  git -C /repo worktree prune
  exit 0
fi
D=$(readlink -f "$1"); RUNS=${2:-5}
P=$D/patch.rebased.diff; [ -f $P ] || P=$D/patch.diff
if [ ! -d $WT ]; then git -C /repo worktree add --detach $WT HEAD >/dev/null 2>&1 || exit 2; fi
git -C $WT checkout -q --detach $(git -C /repo rev-parse HEAD) && git -C $WT checkout -q -- . || exit 2
build() {
  if [ ! -f $BD/build.ninja ]; then
    cmake -G Ninja -S $WT -B $BD -DCMAKE_BUILD_TYPE=RelWithDebInfo -Dfmt_DIR=/usr/lib/x86_64-linux-gnu/cmake/fmt \
      -DPIKA_WITH_MALLOC=system -DPIKA_WITH_TESTS=OFF -DPIKA_WITH_EXAMPLES=OFF -DPIKA_WITH_UNITY_BUILD=ON \
      -DPIKA_WITH_MPI=ON -DCMAKE_CXX_FLAGS=-Wno-error > $BD.cmake.log 2>&1 || return 1
  fi
  ninja -C $BD > $BD.ninja.log 2>&1
}
demo() {   # builds the demo against the scratch build and runs it RUNS times; echoes "fails/runs"
  rm -rf $DB; mkdir -p $DB
  cmake -G Ninja -S $D -B $DB -DCMAKE_BUILD_TYPE=RelWithDebInfo -Dpika_DIR=$BD/lib/cmake/pika \
    -Dfmt_DIR=/usr/lib/x86_64-linux-gnu/cmake/fmt -DCMAKE_CXX_FLAGS=-Wno-error > $DB.log 2>&1 && ninja -C $DB >> $DB.log 2>&1 || { echo "build-failed"; return; }
  local f=0 i
  for i in $(seq $RUNS); do
    ( cd $DB && OMPI_MCA_btl=self timeout 300 ./demo > $DB.run.$i.log 2>&1 ); [ $? -ne 0 ] && f=$((f+1))
  done
  echo "$f/$RUNS"
}
git -C $WT apply $P 2>/dev/null || git -C $WT apply --3way $P 2>/dev/null || { echo "{\"dir\":\"$D\",\"error\":\"patch does not apply\"}"; exit 2; }
build; brc=$?
with=$(demo)
git -C $WT checkout -q -- . ; git -C $WT reset -q --hard HEAD
build
without=$(demo)
# pinned tests of the touched modules, with the patch applied to /repo (reverted afterwards)
mods=$(grep '^+++ b/libs/pika/' $P | sed 's|+++ b/libs/pika/\([^/]*\)/.*|\1|' | sort -u | tr '\n' ' ')
tests="skipped"
if [ -z "${SKIP_PINNED:-}" ] && [ -n "$mods" ] && [ -z "$(git -C /repo status --porcelain --untracked-files=no)" ]; then
  git -C /repo apply $P 2>/dev/null || git -C /repo apply --3way $P 2>/dev/null
  re=$(for m in $mods; do printf 'tests.headers.modules.%s\\.|' $m; done | sed 's/|$//')
  out=$(ctest --test-dir /repo/_build -j8 --timeout 900 -R "$re" 2>&1 | grep "tests passed" | tail -1)
  git -C /repo checkout -q -- . ; git -C /repo reset -q --hard HEAD
  # restore the pinned build's objects for the unpatched headers
  ctest --test-dir /repo/_build -j8 --timeout 900 -R "$re" > /dev/null 2>&1
  tests="$out"
fi
echo "{\"dir\":\"$(basename $D)\",\"patch\":\"$(basename $P)\",\"library_builds_with_change\":$([ $brc -eq 0 ] && echo true || echo false),\"demo_failures_with_change\":\"$with\",\"demo_failures_without_change\":\"$without\",\"touched_modules\":\"$mods\",\"pinned_tests_of_touched_modules_with_change\":\"$tests\"}"
