#!/bin/sh
# runs every registered check (quick tier by default) and prints one line per property
tier=${1:-quick}
cd "$(dirname "$0")/.."
for p in $(python3 -c "import json;print(' '.join(c['property_id'] for c in json.load(open('MANIFEST.json'))['checks']))"); do
  tools/vcheck $p --tier $tier > /tmp/all-$p.log 2>&1; rc=$?
  echo "$p rc=$rc $(grep -c '^VIOLATION' /tmp/all-$p.log) violations, $(grep -c '^KNOWN-FINDING' /tmp/all-$p.log) known | $(tail -1 /tmp/all-$p.log | cut -c1-150)"
done
