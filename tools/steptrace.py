"""Preprocessing of step-level hook traces recorded by wake_harness (VERIF_RECORD_HOOKS=1) into the
records spec/WakeStepTrace.tla consumes."""

KEEP = {"sl.got", "sl.active", "sl.store", "sl.store.fail", "agent.yield", "sts.load", "sts.cas",
        "sts.sched", "sas.enter", "sas.abort"}


def step_history(h):
    """h: one history (records in log order, reset stripped).  Returns (records, why_skipped)."""
    # a history that ended in a hang is validated up to the watchdog record: the steps the code took
    # until then must still be WakeImpl's
    for i, r in enumerate(h):
        if r.get("e") in ("quiescent", "hang", "crash", "tstate"):
            h = h[:i]
            break
    wakers = {}
    for r in h:
        if r.get("e") == "wake":
            wakers[r["k"]] = r["r"]
    out = []
    started = False
    epoch = None
    for r in h:
        e = r.get("e")
        if e == "init":
            epoch = r.get("ep")
        if e == "hk" and epoch is not None and r.get("ep") != epoch:
            continue                      # logged late: belongs to an earlier history
        if e == "tstart":
            started = True
            out.append({"e": "tstart", "tag": r["tag"], "w": r["w"], "st": r["st"]})
        elif not started:
            continue
        elif e == "register":
            out.append({"e": "step", "x": "w", "n": r["w"], "site": "register", "a": r["r"], "b": 0, "c": 0})
        elif e == "wake":
            out.append({"e": "step", "x": "k", "n": r["r"], "site": "wake", "a": r["r"], "b": 0, "c": 0})
        elif e == "hk" and r["site"] in KEEP:
            s = r["site"]
            if s.startswith("sl.") or s == "agent.yield":
                x, n = "w", r["w"]
            elif r["k"] in wakers:
                x, n = "k", wakers[r["k"]]
            else:
                x, n = "u", r["k"]
            a, b = r["a"], r["b"]
            if s == "sas.abort":
                # merge into the preceding sas.enter of the same task
                for q in reversed(out):
                    if q.get("x") == "u" and q.get("n") == n and q.get("site") == "sas.enter":
                        q["c"] = 1
                        break
                continue
            if s == "sas.enter":
                a = r["ah"] * 100000 + r["a"]
                b = r["bh"] * 100000 + r["b"]
            if s == "sl.active" and r["a"] == 0:
                pass
            out.append({"e": "step", "x": x, "n": n, "site": s, "a": a, "b": b, "c": 0})
    if not started:
        return None, "no tstart"
    out.append({"e": "end"})
    return out, None


# variants of WakeImpl that TLC shows to violate NoLostWake (see c02.py: they must fail model checking)
BROKEN_VARIANTS = ("abort_if_still_active", "abort_never_retry")


def check_steps(chk, vlib, binary, nruns, nhist=60):
    """Binding of the fine-grained spec: record the hooked steps on one task's state word and let TLC
    check that they are WakeImpl's steps with WakeImpl's outcomes (spec/WakeStepTrace.tla).
    - accepted: the code followed the protocol TLC verified;
    - rejected but accepted by a variant of WakeImpl that TLC shows to lose a wake-up: VIOLATION (the
      code implements that broken protocol);
    - rejected otherwise: DRIFT (the code no longer takes the modelled steps; not an alarm)."""
    import json
    runs = []
    for i in range(nruns):
        threads = [2, 3, 4][i % 3]
        sched = ["local-priority-fifo", "local", "static", "abp-priority-fifo"][(i // 3) % 4]
        runs.append(([chk.seed * 1000 + 700 + i, nhist, 1, "--pika:threads=%d" % threads,
                      "--pika:scheduler=%s" % sched], {"VERIF_RECORD_HOOKS": "1"}))
    hist = vlib.collect_histories(chk, binary, runs, "c02st", timeout=400)
    steps = []
    for h, o in hist:
        s, why = step_history(h)
        if s and len(s) > 2:
            steps.append((s, o))
    helpers = sum(1 for s, _ in steps for r in s if r.get("site") == "sas.enter")
    n_ok, rejected, states = vlib.validate_histories("WakeStepTrace", "WakeStepTrace.cfg", [s for s, _ in steps],
                                                     "c02st", batch=60, timeout=900)
    chk.cov["step_traces_validated"] = chk.cov.get("step_traces_validated", 0) + n_ok
    chk.cov["step_records"] = chk.cov.get("step_records", 0) + sum(len(s) for s, _ in steps)
    chk.cov["step_helper_checks_observed"] = chk.cov.get("step_helper_checks_observed", 0) + helpers
    chk.cov["traces_validated_against_impl"] += n_ok
    chk.cov["trace_validation_states"] = chk.cov.get("trace_validation_states", 0) + states
    for s, _ in steps:
        chk.add_case(("steps", json.dumps(s)), nontrivial=any(r.get("site") == "sas.enter" for r in s))
    if steps:
        chk.sample(dict(step_trace=steps[0][0][:14]))
    for (idx, maxl, viol) in rejected[:12]:
        s, o = steps[idx]
        explained = None
        for v in BROKEN_VARIANTS:
            acc, _, _ = vlib.validate_batch("WakeStepTrace", "WakeStepTrace_%s.cfg" % v, list(s) + [{"e": "reset"}],
                                            "c02st-v", timeout=600)
            if acc:
                explained = v
                break
        at = json.dumps(s[maxl - 1]) if 0 < maxl <= len(s) else "end"
        if explained:
            chk.violation("the recorded steps on the thread state word are not WakeImpl's (first unexplained record "
                          "%d: %s) but are exactly those of its variant '%s', which TLC shows to lose a wake-up"
                          % (maxl, at, explained),
                          dict(origin=o, history=s, stuck_at=maxl, spec="WakeStepTrace", cfg="WakeStepTrace.cfg",
                               explained_by_variant=explained))
        else:
            chk.drift.append("step trace no longer follows WakeImpl at record %d: %s (run %s)" % (maxl, at, o.get("args")))
    return n_ok, rejected
