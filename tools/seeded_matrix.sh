#!/bin/bash
# Runs every seeded change against the quick check of the property it breaks and, when the change touches
# a header, the pinned header tests of the touched modules (failing set with the change must equal the
# failing set without it).  One after the other; uses /repo's working tree (patch applied, reverted
# afterwards): run nothing else meanwhile.  Appends to seeded/matrix.ndjson (resumable), then writes
# seeded/caught_by.json.     usage: seeded_matrix.sh [name-regex]
cd "$(dirname "$0")/.."
log=seeded/matrix.ndjson; touch $log
for d in seeded/C*-*; do
  name=$(basename $d); prop=${name%%-*}
  [ -n "$1" ] && [[ ! "$name" =~ $1 ]] && continue
  grep -q "\"name\": \"$name\"" $log && continue
  P=$d/patch.rebased.diff; [ -f $P ] || P=$d/patch.diff
  tools/try_mutant.sh /verif/$d $prop > /tmp/matrix-$name.log 2>&1
  rc=$(grep -o '^rc=[0-9]*' /tmp/matrix-$name.log | cut -d= -f2)
  nv=$(grep -c '^VIOLATION' /tmp/mut-$prop.log)
  first_v=$(grep -m1 '^VIOLATION' /tmp/mut-$prop.log | sed 's/.*# //' | cut -c1-160 | tr -d '"\\')
  tests="source files only: the pinned header self-containment tests do not compile them"
  if grep -q '^+++ b/.*\.hpp' $P && [ -z "$(git -C /repo status --porcelain --untracked-files=no)" ]; then
    mods=$(grep '^+++ b/libs/pika/.*\.hpp' $P | sed 's|+++ b/libs/pika/\([^/]*\)/.*|\1|' | sort -u | tr '\n' ' ')
    re=$(for m in $mods; do printf 'tests.headers.modules.%s\\.|' $m; done | sed 's/|$//')
    (git -C /repo apply $P 2>/dev/null || (git -C /repo apply --3way $P 2>/dev/null && git -C /repo reset -q))
    ctest --test-dir /repo/_build -j12 --timeout 900 -R "$re" > /tmp/ct-with.log 2>&1
    git -C /repo checkout -q -- . ; git -C /repo reset -q --hard HEAD
    ctest --test-dir /repo/_build -j12 --timeout 900 -R "$re" > /tmp/ct-without.log 2>&1
    fw=$(grep -E '^\s*[0-9]+ - .*\(Failed\)' /tmp/ct-with.log | sed 's/^ *[0-9]* - //' | sort | md5sum | cut -c1-8)
    fo=$(grep -E '^\s*[0-9]+ - .*\(Failed\)' /tmp/ct-without.log | sed 's/^ *[0-9]* - //' | sort | md5sum | cut -c1-8)
    sw=$(grep "tests passed" /tmp/ct-with.log | tail -1); so=$(grep "tests passed" /tmp/ct-without.log | tail -1)
    if [ "$fw" = "$fo" ]; then tests="modules $mods: same result with and without the change ($sw)"; else tests="modules $mods: DIFFERENT failing set with the change ($sw) vs without ($so)"; fi
  fi
  printf '{"name": "%s", "check": "tools/vcheck %s --tier quick", "exit_code": %s, "violations_reported": %s, "first_violation": "%s", "pinned_tests_of_touched_modules_with_change": "%s"}\n' "$name" "$prop" "${rc:-null}" "${nv:-0}" "$first_v" "$tests" >> $log
  echo "$name rc=$rc violations=$nv | $tests"
done
python3 - <<'PY'
import json
out={}
for l in open('seeded/matrix.ndjson'):
    l=l.strip()
    if l:
        r=json.loads(l); out[r.pop("name")]=r
json.dump(out,open('seeded/caught_by.json','w'),indent=1)
print("caught_by.json:",len(out),"entries")
PY
