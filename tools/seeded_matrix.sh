#!/bin/bash
# Runs every seeded change against the quick check of the property it breaks (and the pinned header
# tests of the modules it touches), one after the other, and writes seeded/caught_by.json.
# Uses /repo's working tree (patch applied, reverted afterwards): run nothing else meanwhile.
cd "$(dirname "$0")/.."
out=seeded/caught_by.json
echo "{" > $out.tmp
first=1
for d in seeded/C*-*; do
  name=$(basename $d); prop=${name%%-*}
  [ -n "$1" ] && [[ ! "$name" =~ $1 ]] && continue
  P=$d/patch.rebased.diff; [ -f $P ] || P=$d/patch.diff
  tools/try_mutant.sh /verif/$d $prop > /tmp/matrix-$name.log 2>&1
  rc=$(grep -o '^rc=[0-9]*' /tmp/matrix-$name.log | cut -d= -f2)
  nv=$(grep -c '^VIOLATION' /tmp/mut-$prop.log)
  first_v=$(grep -m1 '^VIOLATION' /tmp/mut-$prop.log | sed 's/.*# //' | cut -c1-160 | tr -d '"\\')
  # pinned header tests of the touched modules with the change applied
  mods=$(grep '^+++ b/libs/pika/' $P | sed 's|+++ b/libs/pika/\([^/]*\)/.*|\1|' | sort -u | tr '\n' ' ')
  tests="not run"
  if [ -n "$mods" ] && [ -z "$(git -C /repo status --porcelain --untracked-files=no)" ]; then
    (git -C /repo apply $P 2>/dev/null || (git -C /repo apply --3way $P 2>/dev/null && git -C /repo reset -q))
    re=$(for m in $mods; do printf 'tests.headers.modules.%s\\.|' $m; done | sed 's/|$//')
    tests=$(ctest --test-dir /repo/_build -j8 --timeout 900 -R "$re" 2>&1 | grep "tests passed\|tests failed" | tail -1 | tr -d '"')
    git -C /repo checkout -q -- . ; git -C /repo reset -q --hard HEAD
    ctest --test-dir /repo/_build -j8 --timeout 900 -R "$re" > /dev/null 2>&1
  fi
  [ $first -eq 1 ] || echo "," >> $out.tmp
  first=0
  printf ' "%s": {"check": "tools/vcheck %s --tier quick", "exit_code": %s, "violations_reported": %s, "first_violation": "%s", "pinned_tests_of_touched_modules_with_change": "%s"}' "$name" "$prop" "${rc:-null}" "${nv:-0}" "$first_v" "$tests" >> $out.tmp
  echo "$name rc=$rc violations=$nv | $tests"
done
echo "" >> $out.tmp; echo "}" >> $out.tmp
python3 -c "import json;json.load(open('$out.tmp'))" && mv $out.tmp $out
