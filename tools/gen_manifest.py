#!/usr/bin/env python3
"""Regenerates /verif/MANIFEST.json from the table below (single source of truth)."""
import json
import os
import subprocess

VERIF = os.path.dirname(os.path.dirname(os.path.abspath(__file__)))

CLAIMED = {
    "C08": dict(
        technique="TLA+ abstract spec SemAbs and fine-grained SemImpl (wait / wait_until / signal on the internal condition variable) model-checked by TLC + TLC trace validation of call/return histories recorded from the real semaphores (Call/Lin/Ret, deadline-aware)",
        text="TLC proves conservation, result<=>consumed and no-stuck-acquirer on the abstract semaphore spec for 3 actors; every recorded history of the real counting/binary/sliding semaphores (pika tasks + OS threads, hook-perturbed schedules) must be a behaviour of that spec, which settles 'for every schedule explored' rather than the single outcome a unit test asserts; SlidingSemImpl (signal with max, notify loop) is model-checked for a monotone lower bound, admitted waiters and progress; SemImpl also covers the queue-entry bookkeeping of timed waits",
        note="sequential consistency in the model; histories are sampled (seeded), not exhaustive; timer wake-ups assumed at most 1 ms early",
        design="5/C08"),
    "C14": dict(
        technique="TLA+ abstract spec StopAbs (handle algebra + request_stop/callback protocol) and fine-grained StopStateImpl (lock word load/CAS/spin, callback list, is_removed hand-shake) model-checked by TLC + TLC trace validation of sequential and concurrent histories from the real stop_source/stop_token/stop_callback",
        text="TLC proves one-winner, callback-at-most-once, no-run-after-destructor, destructor-waits, source-count bookkeeping and registered-callback-runs (fair) on the abstract spec, shows each named deviation violates them, and proves the same on StopStateImpl for every interleaving of 2 (thorough: 3) requesters, registrations and destructors with four variants that re-create the repaired defects and a seeded change; recorded histories of the real objects (handle copy/move/assign/swap sequences; concurrent request_stop / callback construction / destruction incl. from inside callbacks, on pika tasks and OS threads, with delays injected at the st.* hooks between load and CAS) must be behaviours of the spec; a chase scenario lets a destroyer follow request_stop through 12 callbacks; the hook at the dequeue point inside request_stop reports whether the entry is already marked as removed (required by StopStateImpl while the lock is held) and an unmarked dequeue rejects the history",
        note="sequential consistency; sampled schedules widened by hook delays, not exhaustive; handle objects themselves are used from one thread at a time (documented precondition)",
        design="5/C14"),
    "C17": dict(
        technique="TLA+ fine-grained specs IndexQueueImpl (load/CAS steps) and DequeImpl (Michael deque: anchor CAS, push/pop/stabilize) model-checked by TLC (thorough: inductive invariant of the index queue for arbitrary bounds with Apalache) + TLC linearizability checking of recorded concurrent histories of all containers against the sequential TLA+ spec QueueAbs",
        text="TLC proves exactly-once, partition and termination for the index queue's CAS protocol (3 threads, all interleavings) and checks every recorded concurrent history of the real index queue, Michael deque and the four lockfree back-ends (1-4 threads, hook-injected delays between anchor load and CAS) for linearizability against the sequential spec, including a quiescent drain that must return every remaining element exactly once; ProducerSlotImpl models claim / creation / release of the FIFO back-end's per-thread producer slots (no slot with two live owners, nothing lost), and FIFO histories start with simultaneous first enqueues of fresh threads on a queue with recyclable slots",
        note="sequential consistency in the model; histories sampled; moodycamel ConcurrentQueue black-box; the deque model does not re-use nodes (no ABA through the freelist)",
        design="5/C17"),
    "C06": dict(
        technique="TLA+ abstract spec MutexCvAbs (owner/depth/critical-section data, Call/Lin/Ret) and fine-grained MutexImpl (owner, internal spinlock, cv queue, wake tokens) model-checked by TLC + TLC trace validation of lock/try_lock/try_lock_until/unlock histories from the real mutexes, with quiescence (lost hand-over) detection",
        text="TLC checks mutual exclusion, only-owner-writes and hand-over liveness on the abstract spec; every recorded history of pika::mutex, timed_mutex, recursive_mutex and spinlock (tasks migrating while holding the lock, timed attempts blocked behind long critical sections, try_lock storms, detected misuse, all 8 policies in the C02 runs) must be a behaviour of it: a try_lock that fails on a free mutex, a stale critical-section value, a missing error or a blocked lock() on a free mutex at quiescence is rejected; RecursiveMutexImpl (inner mutex, owner, recursion count) is model-checked for exclusion, count = nesting depth and termination",
        note="sequential consistency; sampled schedules; spinlock-based locks are not held across yields (they never yield to the scheduler, documented)",
        design="5/C06"),
    "C07": dict(
        technique="TLA+ abstract spec MutexCvAbs (waiting/wake sets, predicate flag, stop request) and fine-grained CvImpl (user lock vs. internal lock vs. queue, stop callback) model-checked by TLC + TLC trace validation of wait/notify/stop histories from the real condition variables with an 'owed wake-up' quiescence rule",
        text="TLC checks that a due wake-up is always delivered (fair) on the abstract spec; recorded histories of condition_variable and condition_variable_any (plain, predicate, timed, stop-token forms; pika tasks and OS threads; notifiers with and without the user lock; delays injected at the cv.* hooks between unlock and suspend, user locks whose unlock returns slowly) must be behaviours of the spec: a waiter that is owed a wake-up but stays blocked, a timeout reported for a notified waiter, a wrong predicate result or a return without the user lock is rejected",
        note="sequential consistency; sampled schedules; spurious wake-ups accepted; one open finding (timed wait on a plain OS thread deadlocks when notified) is listed in known_findings.json and only exercised by dedicated runs",
        design="5/C07"),
    "C02": dict(
        technique="TLA+ fine-grained spec WakeImpl of the thread state word / run queue / set_thread_state / set_active_state protocol model-checked by TLC (safety + liveness, broken variants must fail) + TLC trace validation of suspend/resume histories from the real runtime with widened resume-before-suspend windows and a pool-state quiescence watchdog + step-level TLC validation of the hooked loads/CASes/stores on a task's state word against WakeImpl (WakeStepTrace)",
        text="TLC explores every interleaving of target, 2 workers, wakers (incl. a duplicate waker per round) and helper tasks on the state-word protocol and proves no-lost-wake-up, single-runner and termination, and shows that the two ways of breaking the helper's abort rule lose a wake-up; the real runtime is then driven through the same hand-off (bare suspend/resume, condition variables, semaphores) on 8 scheduling policies with delays injected at the hooks between unlock, context switch and store_state, and every history must satisfy the abstract rule that a task whose wake-up was issued runs again (a watchdog reads the pool's pending/active/staged/suspended counts); in addition every hooked step on a target's state word (observed state, tag, CAS outcome, helper decision) must be a step of WakeImpl, each actor at most one step ahead of its record - a trace that instead matches a variant TLC shows to lose a wake-up is reported as a violation",
        note="sequential consistency; the schedules of the real runtime are sampled (hook-widened), only the model is exhaustive; step-level validation covers one target task per history on 4 policies; interrupt() as waker is judged through ThreadAbs",
        design="5/C02"),
    "C01": dict(
        technique="TLA+ abstract task-ledger spec LifeAbs + fine-grained specs WakeImpl (state word) and YieldImpl (scheduling loop vs. yielding tasks) model-checked by TLC; TLC trace validation of submit/enter/phase/exit records of random task forests on the real runtime; hook monitor for double execution",
        text="TLC proves on WakeImpl that the pending->active CAS and the tagged store_state keep a task on one worker at a time and enter its body once with duplicate wake-ups and helper tasks, and on YieldImpl that a task yielding with pending / pending_boost is never dropped by the scheduling loop's next-thread shortcut (the seeded variant is); on the real runtime every task of random forests (yields, back-off yields with varied max_busy_loop_count, blocking, stealing, recycling of thread objects, 8 policies x 1-4 workers, restarts) must follow the ledger submitted -> entered exactly once -> phases one at a time -> exited before stop()/wait() return, with scheduling-loop and queue hooks perturbed, and a monitor on the scheduling loop's run hooks rejects any thread object executed by two workers simultaneously",
        note="sequential consistency; real schedules are sampled; shared-priority / thread_queue_mc only black-box",
        design="5/C01"),
    "C05": dict(
        technique="TLA+ abstract life-cycle spec LifeAbs and fine-grained activity-counter spec ActivityImpl model-checked by TLC + TLC trace validation of multi-incarnation life-cycle histories (start/wait/suspend/resume/finalize/stop) from the real runtime",
        text="TLC checks the wait/stop post-conditions on the counter protocol (increment before the task is visible, decrement after termination; both swapped variants must fail) and on the API-level spec; real histories with 8 restarts per process, work submitted by the entry function, external threads, during suspension and while stop() is already waiting must be behaviours of LifeAbs: wait_ret only after the snapshot and its descendants exited, nothing runs while suspended, stop_ret only after finalize with all work done and with the entry function's result; relays of tasks each creating its successor (one wait() per relay), trickle forests, small thread_queue.max_thread_count, 8 and 16 workers",
        note="sequential consistency; sampled schedules; life-cycle calls issued by one driver thread as documented",
        design="5/C05"),
    "C13": dict(
        technique="TLA+ abstract spec ThreadAbs (handles, body, interruption, stop, exit callbacks; Call/Lin/Ret) + fine-grained JoinImpl (exit-callback list vs. join registration) and WakeImpl model-checked by TLC; TLC trace validation of thread/jthread histories from the real runtime",
        text="TLC checks on JoinImpl that join returns (fair) and only after the body, with every callback run once, for every interleaving of join with the exit-callback loop, and shows the pre-fix loop violates it; recorded histories of real pika::thread/jthread handles (join before/during/after termination, double join, detach, jthread destruction, interrupt with enabled/disabled scopes, stop tokens, user exit callbacks; 4 policies x 1-4 workers; delays at join.*/exitcb.*/state-word hooks) must be behaviours of ThreadAbs, including the 'body finished' flag the joiner reads right after join; a permit released and the thread interrupted right afterwards (the interruption meets a pending task)",
        note="sequential consistency; sampled schedules; one open finding (join may return before earlier-registered exit callbacks ran) is listed in known_findings.json",
        design="5/C13"),
    "C09": dict(
        technique="TLA+ fine-grained specs LatchImpl (atomic counter vs. notified_/queue under the lock) and BarrierImpl (tournament tree of ticket CASes, completion, phase publication) model-checked by TLC + abstract spec LbeoAbs with TLC trace validation of latch/barrier/event/call_once histories from the real code",
        text="TLC explores every interleaving of the latch protocol (4 participants mixing count_down/arrive_and_wait/wait) and of the barrier's tournament arrival for 3, 4 (thorough: 5) participants x 2 phases with any start node, proving no early return/departure, completion exactly once per phase and termination, and that the two seeded variants fail; real histories (participants on tasks and OS threads, more participants than workers, drops, throwing call_once bodies, simultaneous arrive_and_wait storms) must be behaviours of LbeoAbs, whose quiescence rule rejects a waiter stuck after the count reached zero / the phase advanced; OnceImpl (call_once on event, first execution throwing) is model-checked for one runner at a time, exactly one successful execution, normal return only after it, termination",
        note="sequential consistency; sampled schedules for the real code; arrive_and_drop is modelled in BarrierDropImpl for one dropper",
        design="5/C09"),
    "C19": dict(
        technique="TLA+ fine-grained spec PuSuspendImpl (running/pre_sleep/sleeping, pu mutex, notify loop, select_active_pu) model-checked by TLC + abstract spec PuAbs with TLC trace validation of suspend/resume/submit histories from a real second pool",
        text="TLC proves on PuSuspendImpl that nothing is queued on a PU after it went to sleep, and that suspend and resume calls return and all work completes (fair), and that a single-notify resume fails; real histories on a 3-worker pool (6 policies, elastic or not) with PU and pool suspension from OS threads and default-pool tasks, error_code and throwing forms, refusal cases and concurrent hinted submissions must be behaviours of PuAbs: refused calls leave the pool running, no task body runs on a worker between its suspend return and resume call, and after the final resume every task ran exactly once; IdleStealImpl (idle-loop threshold vs. bottom-of-loop reset) shows under fairness that work parked on sleeping workers is taken over by the running ones, and histories with a partially resumed pool must complete their tasks and a further pool suspend",
        note="sequential consistency; sampled schedules; work enqueued on a PU while it falls asleep may wait for the resume (allowed by the property text)",
        design="5/C19"),
    "C04": dict(
        technique="TLA+ abstract spec RwAbs (request order, groups, grant rule, versions) and fine-grained RwMutexImpl (op-state stack CAS vs. done() exchange) model-checked by TLC + TLC trace validation of request/start/drop/grant/release histories from the real async_rw_mutex",
        text="TLC proves exclusion and progress on the abstract spec and, on RwMutexImpl, that every started operation is granted exactly once under all interleavings with done() (and that dropping the re-check inside the CAS loop loses a grant); recorded histories from the real mutex (1-4 threads starting/dropping/releasing, copied read wrappers, mutex destroyed early, hook delays between load and CAS) must be behaviours of RwAbs: grants in group order, writers alone, each access reading exactly the number of earlier writers, no owed grant at quiescence; RwRequestImpl enumerates all request / move-assign sequences over two mutex objects (a request joins a group of its own kind, groups chained in request order), and histories include move-assigning the mutex part-way through the request sequence",
        note="sequential consistency; sampled schedules; read()/readwrite() called from one thread",
        design="5/C04"),
    "C11": dict(
        technique="TLA+ transcription BulkImpl of the chunking arithmetic (word width as a constant) and IndexQueueImpl model-checked by TLC; abstract spec BulkAbs with TLC trace validation of per-call histories (small shapes) and measured summaries (large shapes) from the real bulk",
        text="TLC checks for every n <= 72 and 1-4 workers that the transcribed chunk computation terminates and partitions [0,n) exactly, and that narrow-word arithmetic (the pre-fix code) does not; the owner/thief protocol of the index queues is checked exhaustively; real bulk runs on two pools over boundary shapes, 5 shape types, throwing sets and shapes around 2^31/2^32 must satisfy BulkAbs: each index called exactly once with unchanged values, no call outside [0,n), exactly one completion after the last call returned, an error drawn from the thrown ones; shapes of one index per worker whose calls return together, and bursts of tiny bulk operations with live operation states (exactly one completion each)",
        note="sequential consistency; indices above 2^26 verified by count and sum only; schedules sampled",
        design="5/C11"),
    "C10": dict(
        category="model_checking",
        technique="TLA+ monitor spec PlaceAbs (placement rule as action guards) checked by TLC on a closed model + TLC trace validation of placement records emitted by every callable of random cross-pool pipelines and hinted tasks on the real runtime",
        text="the rule (task of the target pool, never in the submitting context, hinted worker on static policies for every phase, fresh non-pika thread for std_thread_scheduler) is a TLA+ action guard; TLC validates every placement record of random pipelines over three pools (schedule/transfer_just/continues_on/then/bulk/execute, from inside and outside the runtime) and of hinted multi-phase tasks that yield or block between phases while wake-ups race with the context switch; the end-of-history record also requires that exactly the expected number of callables ran; hinted tasks also back off with boosted yields (yield_while) between phases",
        note="there is no interesting interleaving model here: TLC acts as trace monitor and as enumerator of the rule's cases; only the value channel is claimed",
        design="5/C10"),
    "C15": dict(
        technique="TLA+ spec AffinityAbs (the binding predicate over a configuration and an outcome); TLC enumerates the configuration space (AffinityCases) and validates, as a trace, what the live runtime reports for every enumerated configuration",
        text="TLC enumerates ~10k configurations (6 synthetic topologies x all process masks up to 6 PUs / windows and strides above x thread counts incl. |mask|+1 and the keywords cores/all x 5 binding modes x a second pool) and a hash-selected sample (all of 1/4 in thorough) plus every 'hard' case (SMT, holes in the mask, more workers than cores) is executed by the real runtime under HWLOC_SYNTHETIC, plus random taskset masks on the real machine with OS-reported affinity; every outcome must satisfy the TLA+ predicate: one PU per worker inside the mask, no sharing, reported = bound, exactly one pool per worker, impossible requests rejected, 'none' unbound; topologies with the OS numbering Linux gives SMT siblings are mapped onto the real machine (HWLOC_THISSYSTEM) so that the kernel-reported affinity is compared with the PU pika reports",
        note="TLC is used as enumerator and as evaluator of the predicate (no interleavings involved); multi-socket/SMT binding only via the masks pika computes under synthetic hwloc; one open finding (bind=none oversubscription)",
        design="5/C15"),
    "C16": dict(
        technique="TLA+ spec ConfigAbs (resolution rule over sources, with named deviations); TLC enumerates every source/value assignment per setting (ConfigCases) and judges, as a trace, the value the live runtime actually uses for each",
        text="TLC enumerates all 4703 assignments of {absent, valid A, valid B, invalid, keyword} to the sources (environment variable, specific option and --pika:ini entry inside PIKA_COMMANDLINE_OPTIONS, --pika:ini and specific option on the command line) of six settings; each case (quick: 900 sampled) is started for real and the value in use is read from the live runtime (worker count, scheduler, per-worker masks, stack size of a default task, config entry), not from the parsed options; TLC evaluates the resolution rule on every outcome and names the deviation that explains a rejected one; unknown options and non-pika argument pass-through are covered too; a default shipped by the application in init_params::cfg is a further source (it replaces the built-in default and loses against command line and PIKA_COMMANDLINE_OPTIONS)",
        note="TLC is enumerator and evaluator of the rule (no interleavings); one setting varied at a time; two open findings (duplicate option across PIKA_COMMANDLINE_OPTIONS and command line aborts; invalid stack size silently ignored)",
        design="5/C16"),
    "C18": dict(
        technique="TLA+ spec WrapperAbs of the wrapper state machine (slots, contained objects with identity/size/state, live-object ledger); TLC enumerates all operation sequences (and simulates longer ones) with the expected observations, which are replayed step by step on the real wrappers",
        text="model-based testing in the spec->implementation direction: every sequence of make(small/large)/copy/move/reset/swap/invoke of length 3 (thorough: 4) over 2 slots plus thousands of TLC-simulated length-10 sequences over 3 slots is executed on function, unique_function, any_sender and unique_any_sender, comparing after every step emptiness of each slot, the invocation result or defined empty-error, independence of copies (per-object call counters) and the number of live contained objects (exactly-once destruction, inline and heap storage)",
        note="sequential behaviour only (wrappers are not shared between threads); equivalence of erased and unerased pipelines is covered with C03",
        design="5/C18"),
    "C20": dict(
        technique="TLA+ fine-grained specs MpiPollImpl (parallel request/callback vectors, chunked MPI_Testsome, compaction), MpiWaitImpl (ready queue drained by any worker vs. the activity count) and ActivityImpl model-checked by TLC + abstract spec MpiAbs with TLC trace validation of post/send/signal/wait histories from the real MPI adaptor",
        text="TLC proves on MpiPollImpl that a callback runs at most once and only for a request MPI reported complete, and that every request is eventually signalled, for all interleavings of adds, completions, chunked polls and compaction (dropping the chunk base breaks it); real single-rank histories across all completion modes and 1-64 outstanding receives (below, at and above the 32-request polling chunk) must be behaviours of MpiAbs: every receiver signalled exactly once, only after its message was sent, with the full payload visible, and pika::wait() returning only after all requests posted before it were signalled; MpiModeImpl checks for every mode bit / pool setting that the lock-free bookkeeping is only chosen when one thread touches the request vectors, and a part of the runs has a (forced) dedicated polling pool",
        note="one MPI implementation and one rank; MPI error paths are not exercised; sequential consistency",
        design="5/C20"),
    "C12": dict(
        category="exploration",
        technique="TLA+ abstract spec ContextAbs (per-task stack depth, task datum, stack extents; frame condition) model-checked by TLC on a closed model + TLC trace validation of check records emitted by tasks that self-verify canaries, callee-saved registers, FP control state and identity after every yield, suspension and migration",
        text="exploration driven and judged by a model: TLC checks the frame condition and stack disjointness on the abstract spec, and validates the records of random multi-task scripts (call frames with canaries, task-datum writes, yields, blocking waits, all stack-size classes touched to their configured size, guard pages on/off, recycled thread objects left dirty by late interruptions and data) against it: a task must observe exactly its own state on whichever worker it resumes, live stacks must be disjoint, and a task on a recycled object must start clean",
        note="the context-switch assembly and stack memory are exercised along generated behaviours, not proved; one open finding (FP control state not saved by the Linux context switch) is exercised by dedicated runs only",
        design="5/C12"),
    "C03": dict(
        technique="TLA+ denotational spec SenderSem (completion-signal semantics of the adaptors) whose terms and denotations TLC enumerates (SenderCases) and replays on the real adaptors; fine-grained specs SharedStateImpl (split/ensure_started shared state), WhenAllImpl (when_all operation state) and SyncWaitImpl (sync_wait's frame-local state on the binary semaphore) model-checked by TLC; step-level TLC validation of the shared state's hooked steps (SharedStateStepTrace)",
        text="model-based testing in the spec->implementation direction: TLC enumerates all 1228 sender terms up to depth 3 over value/error/stopped leaves and then/let_value/let_error/continues_on/ensure_started/split (1 and 2 consumers)/drop_operation_state/when_all with the set of completion signals the spec admits; every term is built from type-erased stages and run on the real adaptors with leaves completing inline, from another thread or on the pool, and the connected receiver must see exactly one signal, on an admitted channel, with the admitted payload, with every payload and error object destroyed exactly once; TLC proves on SharedStateImpl that a continuation added concurrently with the predecessor's completion is run exactly once under every interleaving (and that publishing the flag after the lock hand-shake loses it), the shared-state terms are re-run hundreds of times with the consumer's start swept across the predecessor's completion, when_all terms with two failing inputs thousands of times with simultaneous completions, and the hooked steps of the real shared state (flag, lock hand-shake, continuation store, deliveries) are validated by TLC as SharedStateImpl's steps in SharedStateImpl's order; the term split2r makes every consumer of a split recover the error it is handed; TLC proves on SyncWaitImpl that the completing thread's last access to sync_wait's state is the unlock that lets the waiter through (value and stopped channel, inline or concurrent completion), that sync_wait returns the signalled channel, and that three variants (notify_one reporting 'woke one', a flag stored after release, unlock-resume-relock) touch the destroyed frame",
        note="sequential consistency in the model; schedules of the real adaptors are sampled; terms up to depth 3 with one value type; stop requests travelling upstream through stop tokens are not part of the terms",
        design="5/C03"),
}

NOT_YET = {}

HOOK_COMMITS_CMD = ["git", "-C", "/repo", "log", "--format=%H %s", "--grep=^verif:"]


def main():
    props = [json.loads(l) for l in open(os.path.join(VERIF, "properties.jsonl"))]
    try:
        out = subprocess.run(HOOK_COMMITS_CMD, stdout=subprocess.PIPE, text=True).stdout
        commits = [l.split()[0] for l in out.splitlines() if l.strip()]
    except Exception:
        commits = []
    na_path = os.path.join(VERIF, "tools", "not_applicable.json")
    na_reasons = json.load(open(na_path)) if os.path.exists(na_path) else {}
    checks, na = [], []
    for p in props:
        pid = p["id"]
        if pid in CLAIMED:
            c = CLAIMED[pid]
            checks.append(dict(
                property_id=pid,
                quick_cmd="tools/vcheck %s --tier quick" % pid,
                thorough_cmd="tools/vcheck %s --tier thorough" % pid,
                evidence_file="/verif/evidence/%s.json" % pid,
                replay_cmd_template="tools/vcheck %s --replay {path}" % pid,
                engine="tlc+conformance",
                level_claimed=dict(category=c.get("category", "model_checking"), text=c["text"],
                                   design_ref="DESIGN.md section " + c["design"]),
                level_note=c["note"],
                technique=c["technique"]))
        else:
            na.append(dict(property_id=pid, reason=na_reasons.get(
                pid, "no check registered yet: the TLA+ spec and conformance harness for this "
                     "property are not built at this commit (see DESIGN.md section 5 for the plan)")))
    m = dict(
        version=1,
        setup_cmd="tools/setup.sh",
        hooks=dict(
            guard="PIKA_VERIF",
            enable="verification build in /verif/_build/pika: cmake -DCMAKE_CXX_FLAGS='-Wno-error -DPIKA_VERIF' (see tools/vlib.py CMAKE_ARGS); harnesses compile with -DPIKA_VERIF",
            baseline_off_cmd="ctest --test-dir /repo/_build -j8 --timeout 900",
            source_commits=commits,
            add_only=True),
        engines=[dict(name="tlc+conformance", path="tools/vcheck",
                      serves_properties=sorted(CLAIMED),
                      kind_free_text="explicit TLA+ specs (spec/*.tla) model-checked with TLC 1.8; "
                      "C++ harnesses (harness/*.cpp) run the real pika code and record histories "
                      "that TLC validates against the specs; spec-enumerated cases replayed into "
                      "the code")],
        checks=checks,
        not_applicable=na,
        notes="All checks rebuild libpika from /repo's working tree (incremental ninja in "
              "/verif/_build/pika, hooks on) before running. Exit 2 + CHECK-BROKEN = the machinery "
              "failed (never a violation).")
    with open(os.path.join(VERIF, "MANIFEST.json"), "w") as f:
        json.dump(m, f, indent=1)
    print("MANIFEST.json: %d checks, %d not_applicable" % (len(checks), len(na)))


if __name__ == "__main__":
    main()
