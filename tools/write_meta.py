#!/usr/bin/env python3
"""Writes seeded/<id>/meta.json from the table below and the confirmation records produced by
tools/confirm_seeded.sh (seeded/confirm_*.ndjson)."""
import glob
import json
import os

VERIF = os.path.dirname(os.path.dirname(os.path.abspath(__file__)))
NEEDS = {
    "C01-1": ("set_active_state drops the deferred resume when the target is still active (tag unchanged)",
              "a waker that finds its target still active (resume issued between the waiter's registration and its worker storing 'suspended') and a helper task that runs before that store"),
    "C02-1": ("set_active_state drops the deferred resume when the target's tag did not go down",
              "same window as C01-1: resume-before-suspend with the helper task scheduled before the worker's store_state"),
    "C03-1": ("ensure_started publishes predecessor_done after the lock hand-shake",
              "consumer start() on another thread landing between the completing thread's unlock and its flag store, and the completer reading the continuation before the consumer stores it"),
    "C04-1": ("async_rw_mutex::add_op_state tests for the 'processed' marker only once, before the CAS loop",
              "start() of an access racing with done() of the previous shared state: a failed CAS that reloads the marker"),
    "C05-1": ("runtime::wait() waits for idleness before waiting for finalize()",
              "stop() called while the runtime is idle and not yet finalized, work submitted afterwards, then finalize()"),
    "C06-1": ("timed_mutex::try_lock_until returns false once its deadline has passed even if it was notified",
              "a timed attempt blocked behind a critical section longer than its deadline, notified by unlock, with another task blocked in lock()"),
    "C07-1": ("stop-token waits test stop_requested() before taking the internal lock",
              "request_stop() (and its notify_all callback) landing between the test and the enqueue of the waiter"),
    "C08-1": ("counting_semaphore::signal stops notifying when the counter is larger than the released count",
              "several releases back to back while an earlier woken acquirer has not yet consumed its permit"),
    "C09-1": ("latch::arrive_and_wait decrements the counter outside the critical section",
              "the last arrival's notify_all between another participant's decrement and its wait"),
    "C10-1": ("the resume-while-active helper drops the worker hint",
              "a hinted task on a static policy resumed while still active (resume-before-suspend window), then running its next phase on another worker"),
    "C11-1": ("bulk uses the global instead of the pool-local worker index",
              "bulk on a pool that is not the first pool (worker indices offset), more chunks than local workers"),
    "C12-1": ("an interruption request survives recycling of the thread object",
              "a thread interrupted right before it terminates, its object recycled for a new task that reaches an interruption point"),
    "C13-1": ("run_thread_exit_callbacks returns early when the callback list is empty, without marking 'ran'",
              "join() registering its callback between that early return and the state becoming terminated"),
    "C14-1": ("request_stop no longer repairs the back-pointer of the new list head after dequeuing a callback",
              "at least two registered callbacks, stop requested, and the second callback's stop_callback destroyed while the first one runs"),
    "C15-1": ("balanced binding ignores which hardware threads of a core are in the process mask",
              "SMT topology with a process mask that contains only the second hardware thread of some core, --pika:bind=balanced"),
    "C16-1": ("--pika:threads=cores falls back to the environment / ini value",
              "the keyword value 'cores' on the command line together with PIKA_THREADS or an ini thread count"),
    "C17-1": ("deque pops no longer stabilise a push in flight on the other end",
              "pop_left racing with push_right (or vice versa) on a deque with one element"),
    "C18-1": ("copy-assigning an empty function over a non-empty one leaves the target non-empty",
              "sequence make(a); copy-assign empty -> a; then empty()/bool/invoke on a"),
    "C19-1": ("select_active_pu no longer re-checks the PU state under the PU mutex",
              "a task scheduled onto a PU in the instant it falls asleep (elastic pool); the task then waits for the resume"),
    "C20-1": ("the chunk base is dropped when looking up the callback of a completed MPI request",
              "more than 32 outstanding requests and a completion in the second polling chunk"),
    "C01-2": ("a task that yields with pending_boost on the phase where the worker's busy-loop counter wraps keeps the pending_boost state and is dropped",
              "back-off yields (yield_k >= 16: contended spinlock, yield_while, barrier) on every max_busy_loop_count-th phase of a worker"),
    "C02-2": ("set_thread_state(retry_on_active=false) no longer waits for an active target: interrupt() returns without waking",
              "pika::thread::interrupt() on a thread that has registered as a waiter but whose worker has not stored 'suspended' yet"),
    "C03-2": ("when_all's set_error uses check-then-act instead of exchange on set_stopped_error_called",
              "two inputs of a when_all signalling an error at the same instant on two threads (one stored error object is never destroyed)"),
    "C04-2": ("async_rw_mutex done() uses load + store instead of exchange when the queue looks empty",
              "start() of the next access landing between the load and the store in done() of the released one"),
    "C05-2": ("resume_processing_unit notifies the sleeping worker once instead of until it leaves 'sleeping'",
              "resume() (or stop()) called right after suspend() returned, while the worker is between storing 'sleeping' and blocking on its condition variable"),
    "C07-2": ("condition_variable::wait releases the user lock before taking the internal lock",
              "a notifier that takes the user lock, sets the predicate and notifies in the gap between the waiter's unlock and its enqueue (or a user lock whose unlock returns slowly)"),
    "C08-2": ("counting_semaphore::wait_until: a timed waiter woken by a release takes a permit without re-checking the count",
              "a task blocked in a timed acquire, a release that wakes it, and a competing acquirer that takes the permit before the waiter resumes"),
    "C09-2": ("barrier::arrive_and_drop arrives before it records the drop in expected_adjustment",
              "arrive_and_drop as the last arrival of a phase and the barrier used for at least one more phase"),
    "C10-2": ("do_yield records the global instead of the pool-local worker number as last worker",
              "a non-first pool whose thread offset is not a multiple of its size, a static policy there, and a hinted task that really suspends and is resumed"),
    "C11-2": ("contiguous_index_queue::pop_left checks for emptiness only before the CAS loop",
              "owner pop_left on the last chunk racing with a stealer's pop_right (failed CAS, refreshed range empty)"),
    "C12-2": ("a huge stack request takes a recycled thread object from the large heap",
              "a large-stack task terminated and recycled on a queue, then a huge-stack task created on the same queue"),
    "C13-2": ("add_thread_exit_callback tests 'already ran / terminated' before taking the lock",
              "join() registering its callback exactly while the target runs its (empty) exit-callback phase"),
    "C14-2": ("lock_and_request_stop no longer tests stop_requested while spinning on the lock bit",
              "a requester whose first CAS failed because a callback (de)registration held the lock bit, and another requester that wins and unlocks while the first one spins"),
    "C15-2": ("decode_scatter_distribution keeps its use_pu flag across cores of a pass",
              "--pika:bind=scatter on an SMT topology, a mask that drops a core or the first hardware thread of a non-first core, more workers than cores in the mask"),
    "C16-2": ("PIKA_COMMANDLINE_OPTIONS tokens are appended after the real command line instead of prepended",
              "the same --pika:ini key in PIKA_COMMANDLINE_OPTIONS and on the command line (the environment's entry wins), or '--' on the command line"),
    "C17-2": ("deque pushes treat the deque as stable unless a push is in flight on their own end",
              "push_left and push_right racing on one deque: one push overwrites the other's unstabilised status"),
    "C18-2": ("function_base::swap repairs only one of the two inline-storage pointers",
              "swap, or move-assignment onto a non-empty wrapper, with both targets stored inline"),
    "C19-2": ("suspend_processing_unit_internal returns at once when the PU is not 'running' (also for 'pre_sleep')",
              "whole-pool suspend followed immediately by resume: suspend returns before the workers sleep, resume notifies nobody, the workers then sleep forever"),
    "C20-2": ("poll_multithreaded's first drain loop decrements the global activity count before invoking the callback",
              "two workers polling, a completion taken over by the other worker, a continuation still running when pika::wait() looks at the count"),
    "C01-3": ("thread_data::restore_state(new, state_ex, old) compare-exchanges against the freshly loaded word instead of the caller's snapshot",
              "two wakers racing on the same suspended task (both read 'suspended'); the slower one then forces active -> pending and the task is queued and run twice"),
    "C02-3": ("the scheduling loop's restore_state expects the restart state recorded at activation (old_state.state_ex) instead of ignoring it",
              "a task that was resumed with a restart state other than 'signaled' (interrupt/abort), handled it, and blocks again: its state word stays 'active' forever"),
    "C03-3": ("when_all_vector::finish reads the error/stopped flag before decrementing the completion counter",
              "one failing and one succeeding input completing concurrently; the value child reads the flag, the sibling runs its whole error path, the value child then is last and signals set_value"),
    "C04-3": ("hand-written move assignment of async_rw_mutex does not take over prev_access",
              "a = std::move(b) where a's last request was a read and b's last request a still outstanding readwrite, then a.read()"),
    "C05-3": ("local_priority_queue_scheduler::create_thread increments the global activity count after the task became visible",
              "a task that creates a child and is delayed right after the child became visible; the child finishes first and the count drops to 0 while wait()/stop() look at it"),
    "C06-3": ("recursive_mutex_impl::unlock stores the recursion count non-atomically after releasing the inner lock",
              "the next owner acquiring between the release and the late store(0) (a slow inner unlock makes it likely), then re-entering"),
    "C07-3": ("detail::condition_variable::wait_until enqueues timed waiters with push_front",
              "a timed wait that starts while another waiter is queued and then times out: it erases the other waiter's queue entry"),
    "C08-3": ("sliding_semaphore::signal no longer keeps the lower bound monotone",
              "signals arriving in decreasing order, a wait / try_wait evaluated after the stale one"),
    "C09-3": ("barrier arrival claims a half-full node with an unconditional exchange instead of a CAS",
              "at least three participants, two of them seeing the same node at half_step within a few instructions (tight multi-phase loops)"),
    "C10-3": ("the scheduling loop converts other workers' staged tasks even when stealing is disabled",
              "a static-priority pool, the hinted worker busy, a neighbour idle for more than max_idle_loop_count/2 iterations"),
    "C11-3": ("contiguous_index_queue::pop_right computes the returned index once, before the CAS loop",
              "two thieves popping right from the same queue at the same moment (the loser of the CAS returns the stale index)"),
    "C12-3": ("with guard pages the guard is placed at the user-visible stack pointer: the lowest page of every task stack is inaccessible",
              "pika.stacks.use_guard_pages=1 and a task using (or a check measuring) the last page of its configured stack size"),
    "C13-3": ("interruption_point() no longer tests whether interruption is enabled",
              "interrupt() recorded while interruption is enabled, the target then enters a disable_interruption scope and reaches an interruption point inside it"),
    "C14-3": ("stop_source move assignment skips remove_source_count when both sides share a state",
              "two sources sharing a state, one move-assigned onto the other, all sources destroyed without a stop request, then stop_possible() on a token"),
    "C15-3": ("a worker looks up its affinity mask with the pool-local instead of the global index",
              "a second thread pool and a binding mode other than none: only the OS-reported affinity of the worker threads shows it"),
    "C16-3": ("the abbreviation matching of pika.scheduler tests the longer names first",
              "the resolved value 'local' or 'static' from any source (they are prefixes of longer policy names)"),
    "C17-3": ("moodycamel ConcurrentQueue recycles an inactive producer slot with load+store instead of a CAS",
              "a producer thread that has exited and at least two new threads whose first push happens within a few instructions"),
    "C18-3": ("any_receiver::set_value moves from its arguments instead of forwarding them",
              "a wrapped sender that completes with an l-value reference to a non-trivially movable object"),
    "C19-3": ("staged tasks are never taken over from other workers (the idle-loop threshold can never be reached)",
              "all workers of an elastic pool asleep, tasks submitted, only some workers resumed, then a pool suspend that waits for the drain"),
    "C20-3": ("can_run_singlethreaded tests the wrong completion-mode bit",
              "a dedicated MPI polling pool with request_inline set and completion_inline clear while several threads post requests"),
    "C06-2": ("mutex::try_lock tests the owner before taking the internal spinlock",
              "two simultaneous acquisitions of a free mutex, at least one of them try_lock"),
}


def main():
    conf = {}
    for f in sorted(glob.glob(os.path.join(VERIF, "seeded", "confirm_*.ndjson"))):
        for l in open(f):
            l = l.strip()
            if l.startswith("{"):
                r = json.loads(l)
                conf.setdefault(r["dir"], {}).update(r)
    caught = {}
    cpath = os.path.join(VERIF, "seeded", "caught_by.json")
    if os.path.exists(cpath):
        caught = json.load(open(cpath))
    n = 0
    for d in sorted(glob.glob(os.path.join(VERIF, "seeded", "C*-*"))):
        name = os.path.basename(d)
        what, needs = NEEDS.get(name, ("", ""))
        c = conf.get(name, {})
        meta = dict(
            id=name, breaks_property=name.split("-")[0], change=what, needs_to_manifest=needs,
            produced_by="fresh sub-agent given only the property text and its own scratch worktree",
            patch="patch.rebased.diff" if os.path.exists(os.path.join(d, "patch.rebased.diff")) else "patch.diff",
            confirmation=dict(
                command="tools/confirm_seeded.sh seeded/%s 5  (scratch worktree + build under /var/tmp, hooks off)" % name,
                library_builds_with_change=c.get("library_builds_with_change"),
                demo_failures_with_change=c.get("demo_failures_with_change"),
                demo_failures_without_change=c.get("demo_failures_without_change"),
                pinned_tests_of_touched_modules_with_change=c.get("pinned_tests_of_touched_modules_with_change")),
            detected_by=caught.get(name, {}))
        json.dump(meta, open(os.path.join(d, "meta.json"), "w"), indent=1)
        n += 1
    print("wrote %d meta.json" % n)


if __name__ == "__main__":
    main()
