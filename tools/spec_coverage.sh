#!/bin/bash
# Vacuity self-check of the fine-grained specs: runs TLC with -coverage 1 on the main configuration of every
# *Impl spec and lists actions that were never taken.  Expected: only the actions that belong to a named
# variant / deviation (they are disabled in the "ok" configurations).
cd "$(dirname "$0")/../spec"
one() {
  out=$(timeout 900 tlc -workers 4 -coverage 1 -noGenerateSpecTE -metadir /tmp/tlcm-cov-$$ -config $2 $1.tla 2>&1); rm -rf /tmp/tlcm-cov-$$
  n=$(echo "$out" | grep -cE "^<[A-Za-z0-9_]+ line")
  never=$(echo "$out" | grep -E "^<[A-Za-z0-9_]+ line [0-9]+, col [0-9]+ to line [0-9]+, col [0-9]+ of module [A-Za-z0-9_]+( \([0-9 ]+\))?>: [0-9]+:0$" | sed 's/ line.*//; s/<//' | sort -u | tr '\n' ' ')
  echo "$1 $2: $n actions, never taken: ${never:-none}"
}
for mc in "WakeImpl WakeImpl.cfg" "YieldImpl YieldImpl.cfg" "ActivityImplMC ActivityImpl.cfg" "SharedStateImpl SharedStateImpl.cfg" \
  "WhenAllImplMC WhenAllImpl_vee.cfg" "RwMutexImpl RwMutexImpl.cfg" "MutexImpl MutexImpl.cfg" "CvImpl CvImpl.cfg" "SemImplMC SemImpl.cfg" \
  "LatchImplMC LatchImpl_1.cfg" "BarrierImpl BarrierImpl_3.cfg" "BulkImpl BulkImpl.cfg" "IndexQueueImpl IndexQueueImpl_ot.cfg" "JoinImpl JoinImpl.cfg" \
  "StopStateImpl StopStateImpl.cfg" "DequeImplMC DequeImpl.cfg" "PuSuspendImpl PuSuspendImpl.cfg" "MpiPollImpl MpiPollImpl.cfg" "MpiWaitImpl MpiWaitImpl.cfg" \
  "IdleStealImpl IdleStealImpl_big.cfg" "ProducerSlotImpl ProducerSlotImpl.cfg" "RwRequestImpl RwRequestImpl.cfg" "MpiModeImpl MpiModeImpl.cfg" \
  "RecursiveMutexImpl RecursiveMutexImpl.cfg" "SlidingSemImplMC SlidingSemImpl.cfg" "OnceImpl OnceImpl.cfg" "SyncWaitImpl SyncWaitImpl.cfg"; do
  set -- $mc; one $1 $2
done
