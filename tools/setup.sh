#!/bin/sh
# Builds the verification build of libpika (hooks on) from /repo and the harness project skeleton.
set -e
cd "$(dirname "$0")/.."
python3 - <<'PY'
import sys
sys.path.insert(0, "tools")
import vlib
vlib.build_pika()
vlib.build_harness(["smoke"])
print("setup ok")
PY
