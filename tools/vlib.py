#!/usr/bin/env python3
"""Shared machinery for the pika verification checks: build, TLC driver, trace validation,
known-findings classification, evidence writing.  stdlib only."""
import fcntl
import hashlib
import json
import os
import re
import shutil
import subprocess
import sys
import time

VERIF = os.path.dirname(os.path.dirname(os.path.abspath(__file__)))
REPO = os.environ.get("VERIF_REPO", "/repo")
BUILD = os.path.join(VERIF, "_build")
PIKA_BUILD = os.path.join(BUILD, "pika")
HARNESS_BUILD = os.path.join(BUILD, "harness")
SPEC = os.path.join(VERIF, "spec")
EVID = os.path.join(VERIF, "evidence")
TLA_JAR = "/opt/veriftools/tla/tla2tools.jar"
NCPU = os.cpu_count() or 4

CMAKE_ARGS = [
    "-G", "Ninja", "-DCMAKE_BUILD_TYPE=RelWithDebInfo",
    "-Dfmt_DIR=/usr/lib/x86_64-linux-gnu/cmake/fmt", "-DPIKA_WITH_MALLOC=system",
    "-DPIKA_WITH_TESTS=OFF", "-DPIKA_WITH_EXAMPLES=OFF", "-DPIKA_WITH_UNITY_BUILD=ON",
    "-DPIKA_WITH_MPI=ON", "-DCMAKE_CXX_FLAGS=-Wno-error -DPIKA_VERIF",
]


class ModelFailure(Exception):
    """The machinery itself failed (TLC parse error, build failure...).  Never a violation."""


def log(*a):
    print(*a, flush=True)


def sh(cmd, timeout=None, env=None, cwd=None, check=False, capture=True):
    e = dict(os.environ)
    if env:
        e.update(env)
    try:
        p = subprocess.run(cmd, shell=isinstance(cmd, str), timeout=timeout, env=e, cwd=cwd,
                           stdout=subprocess.PIPE if capture else None,
                           stderr=subprocess.STDOUT if capture else None, text=True,
                           errors="replace")
        rc, out = p.returncode, p.stdout or ""
    except subprocess.TimeoutExpired as ex:
        rc, out = 124, (ex.stdout or b"").decode(errors="replace") if isinstance(ex.stdout, bytes) else (ex.stdout or "")
    if check and rc != 0:
        raise ModelFailure("command failed (%d): %s\n%s" % (rc, cmd, out[-4000:]))
    return rc, out


class BuildLock:
    def __enter__(self):
        os.makedirs(BUILD, exist_ok=True)
        self.f = open(os.path.join(BUILD, ".lock"), "w")
        fcntl.flock(self.f, fcntl.LOCK_EX)
        return self

    def __exit__(self, *a):
        fcntl.flock(self.f, fcntl.LOCK_UN)
        self.f.close()


def build_pika():
    """(Re)build libpika from the current /repo working tree with hooks on.  Incremental."""
    with BuildLock():
        if not os.path.exists(os.path.join(PIKA_BUILD, "build.ninja")):
            os.makedirs(PIKA_BUILD, exist_ok=True)
            sh(["cmake", "-S", REPO, "-B", PIKA_BUILD] + CMAKE_ARGS, timeout=600, check=True)
        rc, out = sh(["ninja", "-C", PIKA_BUILD, "pika"], timeout=1500)
        if rc != 0:
            raise ModelFailure("libpika build failed:\n" + out[-6000:])


def build_harness(targets):
    """Build harness binaries (cmake project in /verif/harness) against the verification build."""
    build_pika()
    with BuildLock():
        if not os.path.exists(os.path.join(HARNESS_BUILD, "build.ninja")):
            os.makedirs(HARNESS_BUILD, exist_ok=True)
            sh(["cmake", "-G", "Ninja", "-S", os.path.join(VERIF, "harness"), "-B", HARNESS_BUILD,
                "-DCMAKE_BUILD_TYPE=RelWithDebInfo",
                "-Dfmt_DIR=/usr/lib/x86_64-linux-gnu/cmake/fmt",
                "-Dpika_DIR=" + os.path.join(PIKA_BUILD, "lib", "cmake", "pika")],
               timeout=600, check=True)
        rc, out = sh(["ninja", "-C", HARNESS_BUILD] + list(targets), timeout=1500)
        if rc != 0:
            raise ModelFailure("harness build failed:\n" + out[-8000:])
    return [os.path.join(HARNESS_BUILD, t) for t in targets]


# ------------------------------------------------------------------------------------------------
# TLC

def _java(extra_props=(), xmx="8g"):
    return ["java", "-XX:+UseParallelGC", "-Xmx" + xmx] + list(extra_props) + \
        ["-cp", TLA_JAR + ":/opt/veriftools/tla/CommunityModules-deps.jar", "tlc2.TLC"]


def tlc_cmd():
    # use the `tlc` wrapper's classpath if we can find it (CommunityModules are on it)
    w = shutil.which("tlc")
    return w


_TLC_STATS = re.compile(r"(\d+) states generated, (\d+) distinct states found, (\d+) states left")


def run_tlc(module, cfg, workers=None, timeout=900, env=None, dfs=False, extra=(), metatag=None,
            simulate=None, cwd=SPEC):
    """Run TLC on spec/<module>.tla with <cfg>.  Returns dict(rc, out, generated, distinct, ok,
    violated_invariant, wall_s)."""
    meta = os.path.join(BUILD, "tlc", (metatag or (module + "-" + os.path.basename(cfg))) +
                        "-%d" % os.getpid())
    shutil.rmtree(meta, ignore_errors=True)
    os.makedirs(meta, exist_ok=True)
    e = {}
    if env:
        e.update(env)
    jopts = "-XX:+UseParallelGC -Xmx12g"
    if dfs:
        jopts += " -Dtlc2.tool.queue.IStateQueue=StateDeque"
    e["JAVA_TOOL_OPTIONS"] = jopts
    cmd = ["tlc", "-noGenerateSpecTE", "-workers", str(workers or NCPU), "-metadir", meta, "-config", cfg]
    if simulate:
        cmd += ["-simulate", simulate]
    cmd += list(extra) + [module + ".tla"]
    t0 = time.time()
    rc, out = sh(cmd, timeout=timeout, env=e, cwd=cwd)
    wall = time.time() - t0
    shutil.rmtree(meta, ignore_errors=True)
    gen = dist = 0
    for m in _TLC_STATS.finditer(out):
        gen, dist = int(m.group(1)), int(m.group(2))
    res = dict(rc=rc, out=out, generated=gen, distinct=dist, wall_s=wall,
               ok=(rc == 0 and "Model checking completed. No error has been found" in out),
               violated=None)
    m = re.search(r"Invariant (\S+) is violated", out)
    if m:
        res["violated"] = m.group(1)
    m = re.search(r"Temporal properties were violated", out)
    if m and not res["violated"]:
        res["violated"] = "temporal"
    m = re.search(r"Temporal property (\S+) was violated", out)
    if m and not res["violated"]:
        res["violated"] = "temporal property " + m.group(1)
    m = re.search(r"Action property (.*?) is violated", out)
    if m:
        res["violated"] = "action property " + m.group(1)[:80]
    if rc not in (0, 12, 13) and not res["violated"]:
        if rc == 124:
            res["timeout"] = True
        elif "Parsing or semantic analysis failed" in out or rc in (150, 151, 152, 153, 255, 1, 2, 75, 76, 77):
            raise ModelFailure("TLC failed on %s/%s rc=%d:\n%s" % (module, cfg, rc, out[-5000:]))
    return res


def model_check(module, cfg, expect_ok=True, **kw):
    """Exhaustive TLC run that must pass (or, with expect_ok=False, must find a violation)."""
    r = run_tlc(module, cfg, **kw)
    if r.get("timeout"):
        raise ModelFailure("TLC timed out on %s %s" % (module, cfg))
    if expect_ok and not r["ok"]:
        raise ModelFailure("spec %s with %s does not satisfy its properties:\n%s" %
                           (module, cfg, r["out"][-5000:]))
    if not expect_ok and r["ok"]:
        raise ModelFailure("spec %s with %s was expected to violate a property (deviation enabled) "
                           "but TLC found no error" % (module, cfg))
    return r


# ------------------------------------------------------------------------------------------------
# Trace validation.  A trace module reads the ndjson file named by env TRACE.  Histories are
# concatenated, separated by {"e":"reset"} records.  The trace spec must define:
#   * variable l (1-based position), invariant NotAccepted == l <= Len(TraceLog)
#   * a CONSTRAINT that records the highest l reached in TLC register 1
#   * POSTCONDITION that prints "MAXL <n>"
# (see spec/TraceCommon.tla).  TLC is run depth-first with one worker.

def apalache_check(module, init, inv, length, cinit=None, timeout=900):
    """Runs apalache-mc on spec/apalache/<module>.tla.  Returns dict(ok, out).  Used only for optional
    unbounded arguments (inductive invariants) in the thorough tier; never gates a verdict on the code."""
    outdir = os.path.join(BUILD, "apalache")
    os.makedirs(outdir, exist_ok=True)
    cmd = ["apalache-mc", "check", "--out-dir=" + outdir, "--init=" + init, "--inv=" + inv, "--length=%d" % length]
    if cinit:
        cmd.append("--cinit=" + cinit)
    cmd.append(module + ".tla")
    rc, out = sh(cmd, timeout=timeout, cwd=os.path.join(VERIF, "spec", "apalache"))
    return dict(ok=(rc == 0 and "EXITCODE: OK" in out), rc=rc, out=out)


def validate_batch(module, cfg, records, tag, timeout=600, env=None):
    """records: list of dicts (already including reset records).  Returns (accepted, maxl, out)."""
    tdir = os.path.join(BUILD, "traces")
    os.makedirs(tdir, exist_ok=True)
    path = os.path.join(tdir, "%s-%d.ndjson" % (tag, os.getpid()))
    with open(path, "w") as f:
        for r in records:
            f.write(json.dumps(r, separators=(",", ":")) + "\n")
    e = {"TRACE": path}
    if env:
        e.update(env)
    r = run_tlc(module, cfg, workers=1, timeout=timeout, env=e, dfs=True, metatag="tv-" + tag)
    out = r["out"]
    if r.get("timeout"):
        raise ModelFailure("trace validation timed out (%s, %d records)" % (module, len(records)))
    accepted = r["violated"] == "NotAccepted"
    maxl = 0
    for m in re.finditer(r'"MAXL", (\d+)', out):
        maxl = max(maxl, int(m.group(1)))
    if not accepted and not (r["rc"] == 0 or r["violated"]):
        raise ModelFailure("trace validation run failed rc=%d:\n%s" % (r["rc"], out[-4000:]))
    if not accepted and r["violated"] and r["violated"] != "NotAccepted":
        # a real invariant of the spec was violated along the trace: the trace is not a behaviour
        # satisfying the property -> rejected
        pass
    try:
        os.unlink(path)
    except OSError:
        pass
    return accepted, maxl, r


MAX_REJECTED = 40     # after this many confirmed rejections the remaining histories are not examined
LAST_SKIPPED = 0


def validate_histories(module, cfg, histories, tag, batch=200, timeout=600, env=None,
                       reset=None):
    """histories: list of lists of records.  Validates them in batches; a rejected batch is split
    to find each rejected history.  Returns (n_accepted, rejected: list of (index, maxl_in_history),
    tlc_states)."""
    reset = reset or {"e": "reset"}
    rejected = []
    states = 0
    n_ok = 0

    def run(idxs):
        recs = []
        starts = []
        for i in idxs:
            starts.append(len(recs) + 1)
            recs.extend(histories[i])
            recs.append(dict(reset))
        acc, maxl, r = validate_batch(module, cfg, recs, tag, timeout=timeout, env=env)
        return acc, maxl, r, starts

    def go(idxs):
        nonlocal states, n_ok
        global LAST_SKIPPED
        if not idxs:
            return
        if len(rejected) >= MAX_REJECTED:
            LAST_SKIPPED += len(idxs)
            return
        acc, maxl, r, starts = run(idxs)
        states += r["distinct"]
        if acc:
            n_ok += len(idxs)
            return
        # find the history in which validation got stuck
        k = 0
        for j, s in enumerate(starts):
            if s <= max(maxl, 1):
                k = j
        bad = idxs[k]
        # confirm by validating it alone (twice: a rejection is only believed if it repeats)
        recs = list(histories[bad]) + [dict(reset)]
        a1, m1, r1 = validate_batch(module, cfg, recs, tag + "-single", timeout=timeout, env=env)
        states += r1["distinct"]
        if a1:
            # batch-level artefact: should not happen; treat as model failure, not violation
            raise ModelFailure("history %d rejected in batch but accepted alone" % bad)
        a2, m2, r2 = validate_batch(module, cfg, recs, tag + "-single", timeout=timeout, env=env)
        if a2:
            raise ModelFailure("history %d: non-repeatable rejection" % bad)
        rejected.append((bad, m1, r1.get("violated")))
        n_ok += k
        go(idxs[k + 1:])

    global LAST_SKIPPED
    LAST_SKIPPED = 0
    for b in range(0, len(histories), batch):
        go(list(range(b, min(len(histories), b + batch))))
    if LAST_SKIPPED:
        log("note: %d histories not examined after %d rejections (%s)" % (LAST_SKIPPED, len(rejected), module))
    return n_ok, rejected, states


# ------------------------------------------------------------------------------------------------
# known findings

def load_known():
    p = os.path.join(VERIF, "known_findings.json")
    if not os.path.exists(p):
        return {"findings": [], "fixed": []}
    return json.load(open(p))


def known_finding(prop, key):
    """Returns the finding entry if (prop,key) is a listed open finding."""
    for f in load_known().get("findings", []):
        if f["property"] == prop and f["key"] == key:
            return f
    return None


# ------------------------------------------------------------------------------------------------
# evidence + result reporting

class Check:
    def __init__(self, prop, level="model_checking"):
        self.prop = prop
        self.level = level
        self.tier = os.environ.get("VERIF_TIER", "quick")
        self.seed = int(os.environ.get("VERIF_SEED", "1"))
        self.t0 = time.time()
        self.cov = dict(states=0, transitions=0, traces_validated_against_impl=0, samples=[],
                        evaluations=0, distinct_nontrivial=0, rule="")
        self.assumptions = []
        self.violations = []      # (description, replay_path)
        self.known = []
        self.drift = []
        self.models = []
        self._distinct = set()

    def thorough(self):
        return self.tier == "thorough"

    def add_model(self, name, r, note=""):
        self.cov["states"] += r["distinct"]
        self.cov["transitions"] += r["generated"]
        self.models.append(dict(spec=name, distinct_states=r["distinct"],
                                states_generated=r["generated"], wall_s=round(r["wall_s"], 1),
                                note=note))

    def add_case(self, key, nontrivial=True):
        self.cov["evaluations"] += 1
        if nontrivial:
            h = hashlib.sha1(json.dumps(key, sort_keys=True, default=str).encode()).hexdigest()
            self._distinct.add(h)

    def sample(self, s, limit=6):
        if len(self.cov["samples"]) < limit:
            self.cov["samples"].append(s)

    def violation(self, what, replay_obj):
        os.makedirs(os.path.join(BUILD, "replay"), exist_ok=True)
        os.makedirs(os.path.join(VERIF, "replay"), exist_ok=True)
        path = os.path.join(VERIF, "replay", "%s-%d-%d.json" % (self.prop, self.seed, len(self.violations)))
        with open(path, "w") as f:
            json.dump(dict(property=self.prop, what=what, case=replay_obj), f, indent=1, default=str)
        self.violations.append((what, path))

    def finding_or_violation(self, key, what, replay_obj):
        """key identifies the specific failing input / history class (a named deviation)."""
        f = known_finding(self.prop, key)
        if f:
            if key not in [k for k, _ in self.known]:
                self.known.append((key, f.get("what", what)))
        else:
            self.violation(what + " [" + key + "]", replay_obj)

    def finish(self):
        self.cov["distinct_nontrivial"] = len(self._distinct)
        self.cov["models"] = self.models
        if self.drift:
            self.cov["drift"] = self.drift[:20]
        if self.known:
            self.cov["known_findings_seen"] = [k for k, _ in self.known]
        ev = dict(property_id=self.prop, tier=self.tier, seed=self.seed, level=self.level,
                  coverage=self.cov, assumptions=self.assumptions,
                  wall_s=round(time.time() - self.t0, 1), violations=len(self.violations))
        os.makedirs(EVID, exist_ok=True)
        with open(os.path.join(EVID, self.prop + ".json"), "w") as f:
            json.dump(ev, f, indent=1, default=str)
        for k, w in self.known:
            log("KNOWN-FINDING: property=%s %s (%s)" % (self.prop, w, k))
        for d in self.drift[:10]:
            log("DRIFT: property=%s %s" % (self.prop, d))
        for w, p in self.violations:
            log("VIOLATION property=%s replay=%s   # %s" % (self.prop, p, w))
        log("%s %s: %d evaluations (%d distinct non-trivial), %d histories validated by TLC, "
            "%d model states, %d violations, %.0fs" %
            (self.prop, self.tier, self.cov["evaluations"], self.cov["distinct_nontrivial"],
             self.cov["traces_validated_against_impl"], self.cov["states"], len(self.violations),
             time.time() - self.t0))
        return 1 if self.violations else 0


def read_ndjson(path):
    out = []
    with open(path, errors="replace") as f:
        for line in f:
            line = line.strip()
            if not line:
                continue
            try:
                out.append(json.loads(line))
            except ValueError:
                pass
    return out


def run_harness(binary, args, timeout=120, env=None):
    """Runs a harness binary; returns (rc, stdout).  rc 124 = outer timeout."""
    e = {"HWLOC_HIDE_ERRORS": "2", "OMPI_MCA_btl": "self", "OMPI_MCA_rmaps_base_oversubscribe": "1"}
    if env:
        e.update(env)
    return sh([binary] + [str(a) for a in args], timeout=timeout, env=e)


def parallel_map(fn, items, jobs=None):
    from concurrent.futures import ThreadPoolExecutor
    with ThreadPoolExecutor(max_workers=jobs or NCPU) as ex:
        return list(ex.map(fn, items))


# ------------------------------------------------------------------------------------------------
# Binding 1 driver shared by the history-based checks

def split_histories(records, reset_name="reset"):
    """Split a flat record list at reset records.  Returns (complete, tail): complete histories
    (reset stripped) and the unterminated tail (possibly empty)."""
    out, cur = [], []
    for r in records:
        r = dict(r)
        r.pop("seq", None)
        if r.get("e") == reset_name:
            if len(r) > 1:                      # a reset that carries data: keep it as an "end" record
                e = dict(r)
                e["e"] = "end"
                cur.append(e)
            out.append(cur)
            cur = []
        else:
            cur.append(r)
    return out, cur


def collect_histories(chk, binary, runs, tag, timeout=180, jobs=None):
    """runs: list of (args_after_trace_path, env) -- the harness gets the trace path as argv[1].
    Returns list of (history, origin) where origin describes the run (for replay)."""
    tdir = os.path.join(BUILD, "traces")
    os.makedirs(tdir, exist_ok=True)
    # The harnesses detect a hang themselves (no record written for 45-170 s, or a blocked step for 12 s); the
    # outer limit is only a backstop and must not fire on a slow but progressing run on a loaded machine.
    timeout = timeout * 3

    def one(i_run):
        i, (args, env) = i_run
        path = os.path.join(tdir, "%s-%d-%d.ndjson" % (tag, os.getpid(), i))
        rc, out = run_harness(binary, [path] + list(args), timeout=timeout, env=env)
        recs = read_ndjson(path) if os.path.exists(path) else []
        try:
            os.unlink(path)
        except OSError:
            pass
        return i, rc, out, recs

    # harness processes are multi-threaded (2-6 threads each): running one per core time-slices the
    # threads and hides nanosecond-wide races (measured on a seeded async_rw_mutex change: 0 hits with 16
    # concurrent processes, a hit every ~150 histories with real parallelism).  Keep threads <= cores.
    results = parallel_map(one, list(enumerate(runs)), jobs=jobs or max(2, NCPU // 3))
    hist = []
    for i, rc, out, recs in results:
        origin = dict(binary=os.path.basename(binary), args=[str(a) for a in runs[i][0]],
                      env=runs[i][1] or {}, rc=rc)
        if rc == 0:
            recs = [r for r in recs if r.get("e") != "proc_exit"]
        else:
            for r in recs:
                if r.get("e") == "proc_exit":  # the library called exit() on an internal error
                    r["e"] = "crash"
                    r["rc"] = rc
        complete, tail = split_histories(recs)
        for h in complete:
            hist.append((h, origin))
        if tail:
            hist.append((tail, origin))
        if rc not in (0,) and not tail and not complete:
            if rc in (2, 126, 127):
                # usage error / cannot execute: the machinery is broken, not the code under test
                raise ModelFailure("harness %s produced no trace (rc=%d): %s" % (binary, rc, out[-2000:]))
            hist.append(([{"e": "crash", "rc": rc, "output_tail": out[-600:]}], origin))
        if rc == 124 and not any(r.get("e") in ("hang", "quiescent", "crash") for r in (tail or [])):
            hist.append(([{"e": "hang", "outer": 1}], origin))
    return hist


def check_histories(chk, module, cfg, hist, tag, dev_cfgs=None, batch=150, timeout=900,
                    crash_key=None, hang_is_violation=True, classify=None):
    """Validate histories (list of (records, origin)) against the trace spec.  Rejected ones are
    classified with the deviation configs: dev_cfgs = {deviation_name: cfg_file}."""
    dev_cfgs = dev_cfgs or {}
    normal, special = [], []
    for h, o in hist:
        if any(r.get("e") in ("crash", "hang") for r in h):
            special.append((h, o))
        else:
            normal.append((h, o))
    n_ok, rejected, states = validate_histories(module, cfg, [h for h, _ in normal], tag,
                                                batch=batch, timeout=timeout)
    chk.cov["traces_validated_against_impl"] += n_ok
    chk.cov["trace_validation_states"] = chk.cov.get("trace_validation_states", 0) + states
    for (idx, maxl, viol) in rejected:
        h, o = normal[idx]
        explained = None
        for dev, dcfg in dev_cfgs.items():
            acc, _, _ = validate_batch(module, dcfg, list(h) + [{"e": "reset"}], tag + "-dev",
                                       timeout=timeout)
            if acc:
                explained = dev
                break
        what = "history rejected by %s at record %d (%s)" % (
            module, maxl, json.dumps(h[maxl - 1]) if 0 < maxl <= len(h) else "end")
        replay = dict(origin=o, history=h, stuck_at=maxl, spec=module, cfg=cfg,
                      explained_by_deviation=explained, invariant=viol)
        if not explained and classify:
            explained = classify(h, maxl)
            replay["explained_by_signature"] = explained
        if explained:
            chk.finding_or_violation(explained, what, replay)
        else:
            chk.violation(what, replay)
    for h, o in special:
        kinds = [r.get("e") for r in h if r.get("e") in ("crash", "hang")]
        what = "harness %s while running a program that respects the documented preconditions" % (
            "crashed" if "crash" in kinds else "hung")
        replay = dict(origin=o, history=h[-60:])
        if crash_key:
            k = crash_key(h)
            if k:
                chk.finding_or_violation(k, what, replay)
                continue
        chk.violation(what, replay)
    return n_ok, rejected


# ------------------------------------------------------------------------------------------------
# Replay of a stored violation (tools/vcheck <ID> --replay <file>)

def replay_file(prop, path):
    """Re-evaluates a replay file written by Check.violation().  A stored history is validated again
    by TLC against the trace spec it was rejected by (exit 1 + VIOLATION line if still rejected); for a
    stored case the harness invocation that produced it is printed so it can be re-run."""
    obj = json.load(open(path))
    case = obj.get("case", {})
    log("replay of %s: %s" % (path, obj.get("what")))
    if isinstance(case, dict) and case.get("history") is not None and case.get("spec"):
        h = case["history"]
        acc, maxl, r = validate_batch(case["spec"], case["cfg"], list(h) + [{"e": "reset"}], "replay")
        if acc:
            log("history is accepted by %s/%s on this tree's specification" % (case["spec"], case["cfg"]))
            return 0
        lo = max(0, maxl - 6)
        for i, rec in enumerate(h[lo:maxl + 1]):
            log("  %s %d %s" % ("=>" if lo + i + 1 == maxl + 1 else "  ", lo + i + 1, json.dumps(rec)))
        log("VIOLATION property=%s replay=%s   # rejected by %s after record %d (first record TLC cannot "
            "explain is marked)" % (prop, path, case["spec"], maxl))
        if case.get("origin"):
            log("recorded by: %s" % json.dumps(case["origin"]))
        return 1
    log(json.dumps(case, indent=1)[:6000])
    if isinstance(case, dict) and case.get("origin"):
        log("recorded by: %s" % json.dumps(case["origin"]))
    log("VIOLATION property=%s replay=%s   # stored case (re-run the check to re-evaluate it on this tree)" % (prop, path))
    return 1
