#!/usr/bin/env python3
"""Prints the prompt given to a fresh sub-agent that seeds a property-breaking change.
usage: mutant_prompt.py <ID> <worktree> [extra focus text]"""
import json, sys
pid, wt = sys.argv[1], sys.argv[2]
focus = sys.argv[3] if len(sys.argv) > 3 else ""
p = [json.loads(l) for l in open('/verif/properties.jsonl') if json.loads(l)['id'] == pid][0]
print(f"""You are helping to test a verification effort for the C++ library pika (pika-org/pika: a tasking runtime with work-stealing schedulers, user-level fibers, P2300 senders/receivers, synchronization primitives). Your job: make ONE realistic, subtle change to the pika sources that BREAKS the semantic property below, while the library still compiles and the project's existing test suite still passes, and write a small demonstration program that fails with your change and passes without it.

PROPERTY {p['id']} - {p['title']}
{p['statement']}
(quantified over: {p['quantifier']['text']})

YOUR WORKSPACE: the git worktree {wt} (a checkout of the repository). Work ONLY inside {wt} and your own scratch directory {wt}-scratch. Do NOT read or touch /repo, /verif, or any other directory; do not look for existing verification tooling. There is no network.

WHAT KIND OF CHANGE: something a developer could plausibly commit (a refactor gone wrong, an "optimisation", a dropped re-check, a reordered pair of statements, an off-by-one, a wrong comparison, a missing case). It must need something specific to manifest - a particular interleaving of threads, a multi-step sequence of operations, an unusual input/configuration, or two cooperating sites that each look fine alone - NOT something that every ordinary use would expose at once (a change that makes every program hang or crash immediately is useless). Do not touch comments only, do not add dead code, do not change public signatures. Keep it small (1-15 changed lines in 1-2 files under libs/pika/**). Never use `git stash` (it is shared between worktrees; to test the original code use `git diff > file; git checkout -- .; ...; git apply file`). Do not modify any macro named PIKA_VERIF_POINT or lines containing it (leave them as they are; they expand to nothing). {focus}

BUILDING (the in-tree _build dir is absent in your worktree; use this out-of-tree recipe, ~1-2 min on 16 cores, please use at most 8 build jobs):
  cmake -G Ninja -S {wt} -B {wt}-scratch/build -DCMAKE_BUILD_TYPE=RelWithDebInfo -Dfmt_DIR=/usr/lib/x86_64-linux-gnu/cmake/fmt -DPIKA_WITH_MALLOC=system -DPIKA_WITH_TESTS=OFF -DPIKA_WITH_EXAMPLES=OFF -DPIKA_WITH_UNITY_BUILD=ON -DPIKA_WITH_MPI=ON -DCMAKE_CXX_FLAGS="-Wno-error"
  ninja -j8 -C {wt}-scratch/build pika
A demonstration program can be built with a tiny CMake project:  find_package(pika REQUIRED) + target_link_libraries(demo PRIVATE pika::pika), configured with -Dpika_DIR={wt}-scratch/build/lib/cmake/pika -Dfmt_DIR=/usr/lib/x86_64-linux-gnu/cmake/fmt  (C++20). A pika program starts the runtime with pika::start(argc, argv) / pika::finalize() / pika::stop(), e.g. the upstream unit tests under libs/pika/*/tests/unit show typical usage (they are not built here). Header-only parts (senders, latch, barrier, async_rw_mutex, concurrency containers) need no library rebuild.
The project's existing test suite consists only of header self-containment compile tests and two fail-compile tests, so "passes the existing tests" means: every header still compiles on its own, libpika builds, and pika::mutex / spinlock stay non-movable.

DELIVERABLES (write them into {wt}-scratch/out/):
  1. patch.diff  - `git -C {wt} diff` of your change (sources only).
  2. demo.cpp (+ CMakeLists.txt if needed) - the demonstration: exits 0 / prints PASS on the original code, and fails (non-zero exit, hang detected by its own timeout, or prints FAIL) with your change. It may need many iterations or injected sleeps/yields to hit the interleaving; say how reliable it is.
  3. notes.md   - what you changed, why it breaks the property, what exactly is needed for it to manifest, and the exact commands you ran with their observed results for BOTH the original and the changed code.
Verify both directions yourself (original passes, changed fails) before finishing. When done, leave the worktree with your change applied, remove {wt}-scratch/build to save disk (keep out/), and reply with a short summary (the change, how it manifests, reliability of the demo).""")
