#!/bin/sh
# usage: exp_mutant.sh <patch-file> <PROP> [seed]   -- evaluates a change in the scratch tree /var/tmp/pika-m-wt
# (never touches /repo): patched libpika (hooks on) -> harness build /var/tmp/hbm2 -> the property's check
patch=$1; prop=$2; seed=${3:-7}
cd /var/tmp/pika-m-wt || exit 9
git checkout -q -- . && git apply "$patch" || { echo "PATCH DOES NOT APPLY"; exit 9; }
git diff --stat | tail -1
nice -n 5 ninja -C /var/tmp/pika-m-build -j8 pika > /var/tmp/exp-build.log 2>&1 || { echo "LIB BUILD FAILED"; tail -20 /var/tmp/exp-build.log; exit 9; }
if [ ! -f /var/tmp/hbm2/build.ninja ]; then
  cmake -G Ninja -S /verif/harness -B /var/tmp/hbm2 -DCMAKE_BUILD_TYPE=RelWithDebInfo -Dfmt_DIR=/usr/lib/x86_64-linux-gnu/cmake/fmt -Dpika_DIR=/var/tmp/pika-m-build/lib/cmake/pika > /var/tmp/hbm2.cfg.log 2>&1 || exit 9
fi
cd /verif && VERIF_SEED=$seed python3 /var/tmp/exprun.py $prop /var/tmp/hbm2 > /var/tmp/exp-$prop.log 2>&1
echo "rc=$? violations=$(grep -c '^VIOLATION' /var/tmp/exp-$prop.log) known=$(grep -c '^KNOWN-FINDING' /var/tmp/exp-$prop.log)"
grep "^VIOLATION\|BROKEN" /var/tmp/exp-$prop.log | head -3 | cut -c1-220; tail -2 /var/tmp/exp-$prop.log | head -1 | cut -c1-200
cd /var/tmp/pika-m-wt && git checkout -q -- .
