#!/bin/sh
# usage: exp_mutant.sh <patch-file> <PROP> [seed]   -- evaluates a change in the scratch tree /var/tmp/pika-m-wt
# (never touches /repo): patched libpika (hooks on) -> harness build /var/tmp/hbm2 -> the property's check
patch=$1; prop=$2; seed=${3:-7}
# scratch worktree and verification build of it (created on first use; remove both when done:
#   git -C /repo worktree remove --force /var/tmp/pika-m-wt; rm -rf /var/tmp/pika-m-build /var/tmp/hbm2)
if [ ! -d /var/tmp/pika-m-wt ]; then git -C /repo worktree add --detach /var/tmp/pika-m-wt HEAD > /dev/null 2>&1 || exit 9; fi
cd /var/tmp/pika-m-wt || exit 9
git checkout -q -- . && git checkout -q --detach "$(git -C /repo rev-parse HEAD)" && git apply "$patch" || { echo "PATCH DOES NOT APPLY"; exit 9; }
if [ ! -f /var/tmp/pika-m-build/build.ninja ]; then
  cmake -S /var/tmp/pika-m-wt -B /var/tmp/pika-m-build -G Ninja -DCMAKE_BUILD_TYPE=RelWithDebInfo -Dfmt_DIR=/usr/lib/x86_64-linux-gnu/cmake/fmt \
    -DPIKA_WITH_MALLOC=system -DPIKA_WITH_TESTS=OFF -DPIKA_WITH_EXAMPLES=OFF -DPIKA_WITH_UNITY_BUILD=ON -DPIKA_WITH_MPI=ON \
    "-DCMAKE_CXX_FLAGS=-Wno-error -DPIKA_VERIF" > /var/tmp/pika-m-cfg.log 2>&1 || { echo "CONFIGURE FAILED"; exit 9; }
fi
git diff --stat | tail -1
nice -n 5 ninja -C /var/tmp/pika-m-build -j8 pika > /var/tmp/exp-build.log 2>&1 || { echo "LIB BUILD FAILED"; tail -20 /var/tmp/exp-build.log; exit 9; }
if [ ! -f /var/tmp/hbm2/build.ninja ]; then
  cmake -G Ninja -S /verif/harness -B /var/tmp/hbm2 -DCMAKE_BUILD_TYPE=RelWithDebInfo -Dfmt_DIR=/usr/lib/x86_64-linux-gnu/cmake/fmt -Dpika_DIR=/var/tmp/pika-m-build/lib/cmake/pika > /var/tmp/hbm2.cfg.log 2>&1 || exit 9
fi
cd /verif && VERIF_SEED=$seed python3 /verif/tools/exprun.py $prop /var/tmp/hbm2 > /var/tmp/exp-$prop.log 2>&1
echo "rc=$? violations=$(grep -c '^VIOLATION' /var/tmp/exp-$prop.log) known=$(grep -c '^KNOWN-FINDING' /var/tmp/exp-$prop.log)"
grep "^VIOLATION\|BROKEN" /var/tmp/exp-$prop.log | head -3 | cut -c1-220; tail -2 /var/tmp/exp-$prop.log | head -1 | cut -c1-200
cd /var/tmp/pika-m-wt && git checkout -q -- .
