#!/bin/sh
# usage: try_mutant.sh <seeded-dir> <PROP> [tier]   -- applies patch to /repo, runs check, reverts
d=$1; p=$2; t=${3:-quick}; [ -f "$d/patch.rebased.diff" ] && cp "$d/patch.rebased.diff" /tmp/cur.patch || cp "$d/patch.diff" /tmp/cur.patch
cd /repo || exit 9
if ! git apply --check /tmp/cur.patch 2>/dev/null; then
  if ! git apply --3way /tmp/cur.patch 2>/dev/null; then echo "PATCH DOES NOT APPLY"; git reset -q --hard HEAD; exit 9; fi
  git reset -q
else
  git apply /tmp/cur.patch
fi
git diff --stat | tail -1
cd /verif && tools/vcheck $p --tier $t > /tmp/mut-$p.log 2>&1; rc=$?
cd /repo && git checkout -- . && git status --short | grep -v _build
echo "rc=$rc"; grep -c "^VIOLATION" /tmp/mut-$p.log; grep "^VIOLATION\|KNOWN\|BROKEN" /tmp/mut-$p.log | head -3 | cut -c1-250; tail -1 /tmp/mut-$p.log
