------------------------------- MODULE HintImpl -------------------------------
(* How a hinted task keeps its worker across suspensions on a static (non-stealing) policy, property C10.

   A pool has N workers, local indices 0..N-1, and a global thread offset Off (pools are laid out one
   after the other).  A task created with hint K (a local index) is queued on queue K mod N.  Whenever it
   suspends, execution_agent::do_yield records the worker it ran on as last_worker_thread_num; when it is
   resumed (directly, or by the helper task if it was still active) it is scheduled with that number as
   thread hint, and the scheduler maps a hint h to queue h mod N.  Nobody steals on a static policy.
   Variants: "records_global_index"  do_yield records Off + local instead of local (seeded change C10-2);
             "helper_drops_hint"     the resume-while-active helper schedules without a hint: the
                                     scheduler then picks the queue of the thread that runs the helper
                                     (seeded change C10-1).                                           *)
EXTENDS Naturals, Sequences
CONSTANTS MaxN, MaxOff, Phases, Variant
VARIABLES n, off, k, queue, last, phase, ranOn, pc
vars == <<n, off, k, queue, last, phase, ranOn, pc>>
Init == /\ n \in 1..MaxN /\ off \in 0..MaxOff /\ k \in 0..(MaxN - 1) /\ k < n
        /\ queue = k % n /\ last = k /\ phase = 1 /\ ranOn = <<>> /\ pc = "queued"
\* the worker that owns the queue runs the next phase
Run == /\ pc = "queued" /\ ranOn' = Append(ranOn, queue)
       /\ pc' = (IF phase = Phases THEN "done" ELSE "running") /\ UNCHANGED <<n, off, k, queue, last, phase>>
\* the phase ends in a real suspension: remember the worker
Suspend == /\ pc = "running"
           /\ last' = (IF Variant = "records_global_index" THEN off + queue ELSE queue)
           /\ pc' = "suspended" /\ UNCHANGED <<n, off, k, queue, phase, ranOn>>
\* resumed: by the waker directly, or through the helper task when the target was still active
Resume == /\ pc = "suspended"
          /\ \E viaHelper \in BOOLEAN, helperOn \in 0..(MaxN - 1) :
                /\ helperOn < n
                /\ queue' = (IF viaHelper /\ Variant = "helper_drops_hint" THEN helperOn ELSE last % n)
          /\ phase' = phase + 1 /\ pc' = "queued" /\ UNCHANGED <<n, off, k, last, ranOn>>
Next == Run \/ Suspend \/ Resume
Spec == Init /\ [][Next]_vars /\ WF_vars(Next)
\* every phase of the task runs on the hinted worker
StaysOnHintedWorker == \A i \in 1..Len(ranOn) : ranOn[i] = k
Completes == <>(pc = "done")
=============================================================================
