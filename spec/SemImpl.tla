------------------------------- MODULE SemImpl -------------------------------
(* Fine-grained model of pika::detail::counting_semaphore (src/detail/counting_semaphore.cpp) on top of
   pika::detail::condition_variable, property C08.

     wait(1):         (il held) while value < 1: cv.wait;  value -= 1
     wait_until(1):   (il held) while value < 1: if cv.wait_until = timeout /\ value < 1: return false
                      value -= 1; return true
     signal(n):       (il held) value += n; for i < n while value >= 0:
                          if !cv.notify_one() break            (pop the first entry, resume it;
                          re-take il                             returns "queue still non-empty")
   cv.wait: append own entry, release il, suspend, re-take il, remove own entry if still queued; the
   result is `signaled` iff a notifier popped the entry.  Wake tokens as in MutexImpl.

   Acquirer threads call wait (blocking) once each, Timed threads call wait_until once each,
   Releaser threads call signal(N[r]) once each.  Initial value 0.

   Variants:
     "notify_while_small"  signal's loop runs while value <= n instead of value >= 0 (seeded change
                           C08-1): with a large counter no waiter is notified
     "timed_take_without_recheck"  a timed waiter that was woken by a release takes a permit without
                           re-testing the count (seeded change C08-2): with a competing acquirer the
                           count goes negative
     "timed_false_after_signal"  wait_until returns false whenever the wait did not report `timeout`
                           ... inverted test of the pinned tree (repaired defect): a signalled timed
                           acquire reports failure and leaves the permit                            *)
EXTENDS Integers, Sequences, FiniteSets
CONSTANTS Acquirer, Timed, Releaser, N, Variant, None
Waiter == Acquirer \cup Timed
Thread == Waiter \cup Releaser

VARIABLES value, il, queue, popped, token, pc, res, todo, acquired, badFalse,
          victim    \* victim[t]: the queue entry t's reset_queue_entry erases if t times out (q.last() at enqueue time)
vars == <<value, il, queue, popped, token, pc, res, todo, acquired, badFalse, victim>>
Init == /\ value = 0 /\ il = None /\ queue = <<>>
        /\ popped = [t \in Waiter |-> FALSE] /\ token = [t \in Waiter |-> FALSE]
        /\ pc = [t \in Thread |-> "start"] /\ res = [t \in Waiter |-> "none"]
        /\ todo = [r \in Releaser |-> 0] /\ acquired = 0 /\ badFalse = FALSE
        /\ victim = [t \in Waiter |-> t]
Without(s, t) == SelectSeq(s, LAMBDA x : x # t)
Goto(t, p) == pc' = [pc EXCEPT ![t] = p]

Take(t) == /\ pc[t] \in {"start", "woken", "renotify"} /\ il = None /\ il' = t
           /\ Goto(t, CASE pc[t] = "start" -> (IF t \in Releaser THEN "add" ELSE "check")
                        [] pc[t] = "woken" -> "rewait" [] OTHER -> "notify")
           /\ UNCHANGED <<value, queue, popped, token, res, todo, acquired, badFalse, victim>>
(* ---- acquirers ---- *)
\* variant "timed_push_front" (seeded change C07-3): a timed waiter is put at the front of the queue; the entry
\* it later erases on a timeout is still "the last one at that time", i.e. somebody else's
FrontEnq(t) == Variant = "timed_push_front" /\ t \in Timed
Check(t) ==
    /\ pc[t] = "check" /\ il = t /\ t \in Waiter
    /\ IF value >= 1
          THEN /\ value' = value - 1 /\ acquired' = acquired + 1 /\ res' = [res EXCEPT ![t] = "true"]
               /\ il' = None /\ Goto(t, "done") /\ UNCHANGED <<queue, popped, victim>>
          ELSE /\ queue' = IF FrontEnq(t) THEN <<t>> \o queue ELSE Append(queue, t)
               /\ victim' = [victim EXCEPT ![t] = IF FrontEnq(t) /\ queue # <<>> THEN queue[Len(queue)] ELSE t]
               /\ popped' = [popped EXCEPT ![t] = FALSE]
               /\ il' = None /\ Goto(t, "suspend") /\ UNCHANGED <<value, acquired, res>>
    /\ UNCHANGED <<token, todo, badFalse>>
Suspend(t) ==
    /\ pc[t] = "suspend"
    /\ \/ token[t] /\ token' = [token EXCEPT ![t] = FALSE]
       \/ t \in Timed /\ ~token[t] /\ UNCHANGED token          \* deadline
    /\ Goto(t, "woken") /\ UNCHANGED <<value, il, queue, popped, res, todo, acquired, badFalse, victim>>
Rewait(t) ==
    /\ pc[t] = "rewait" /\ il = t
    /\ queue' = IF popped[t] THEN queue ELSE Without(queue, victim[t])     \* reset_queue_entry: only if not popped
    /\ UNCHANGED victim
    /\ LET timeout == ~popped[t]
           fail == IF Variant = "timed_false_after_signal" THEN ~timeout ELSE (timeout /\ value < 1)
           blind == Variant = "timed_take_without_recheck" /\ t \in Timed /\ ~timeout
       IN IF blind
             THEN /\ res' = [res EXCEPT ![t] = "true"] /\ il' = None /\ Goto(t, "done")
                  /\ value' = value - 1 /\ acquired' = acquired + 1
                  /\ UNCHANGED <<popped, token, todo, badFalse>>
          ELSE IF t \in Timed /\ fail
             THEN /\ res' = [res EXCEPT ![t] = "false"] /\ il' = None /\ Goto(t, "done")
                  /\ badFalse' = (badFalse \/ value >= 1)      \* failure reported although a permit is there
                  /\ UNCHANGED <<value, popped, token, todo, acquired>>
             ELSE Goto(t, "check") /\ UNCHANGED <<res, il, badFalse, value, popped, token, todo, acquired>>
(* ---- releasers ---- *)
Add(r) ==
    /\ pc[r] = "add" /\ il = r
    /\ value' = value + N[r] /\ todo' = [todo EXCEPT ![r] = N[r]]
    /\ Goto(r, "notify") /\ UNCHANGED <<il, queue, popped, token, res, acquired, badFalse, victim>>
LoopCond(r) == IF Variant = "notify_while_small" THEN value <= N[r] ELSE value >= 0
Notify(r) ==
    /\ pc[r] = "notify" /\ il = r
    /\ IF todo[r] > 0 /\ LoopCond(r) /\ queue # <<>>
          THEN \* notify_one: pop + resume; il is released by notify_one; more to do only if non-empty
               /\ popped' = [popped EXCEPT ![Head(queue)] = TRUE]
               /\ token' = [token EXCEPT ![Head(queue)] = TRUE]
               /\ queue' = Tail(queue)
               /\ il' = None
               /\ todo' = [todo EXCEPT ![r] = @ - 1]
               /\ Goto(r, IF Tail(queue) # <<>> THEN "renotify" ELSE "done")
          ELSE il' = None /\ Goto(r, "done") /\ UNCHANGED <<popped, token, queue, todo>>
    /\ UNCHANGED <<value, res, acquired, badFalse, victim>>

Step(t) == Take(t) \/ Check(t) \/ Suspend(t) \/ Rewait(t) \/ Add(t) \/ Notify(t)
Next == \E t \in Thread : Step(t)
Spec == Init /\ [][Next]_vars /\ \A t \in Thread : WF_vars(Step(t))

Released == LET S == {r \in Releaser : pc[r] \notin {"start", "add"}} IN
            IF S = {} THEN 0 ELSE LET RECURSIVE Sum(_) Sum(X) == IF X = {} THEN 0 ELSE LET x == CHOOSE y \in X : TRUE IN N[x] + Sum(X \ {x}) IN Sum(S)
\* permits are conserved
Conservation == value + acquired = Released /\ value >= 0
\* a blocked acquirer proceeds once enough permits were released: never everybody asleep with permits left
NoStuckAcquirer == ~(/\ il = None /\ value >= 1
                     /\ \E t \in Waiter : pc[t] = "suspend"
                     /\ \A t \in Waiter : pc[t] \in {"suspend", "done"} /\ ~token[t]
                     /\ \A t \in Timed : pc[t] = "done"
                     /\ \A r \in Releaser : pc[r] = "done")
AllDone == \A t \in Thread : pc[t] = "done"
\* a timed acquire reports failure only when no permit is available at that moment
FalseOnlyWithoutPermit == ~badFalse
\* with enough permits for every blocking acquirer all of them return
Terminates == <>(\A t \in Acquirer : pc[t] = "done")
=============================================================================
