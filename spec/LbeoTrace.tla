---------------------------- MODULE LbeoTrace ----------------------------
EXTENDS LbeoAbs, Json, IOUtils, TLC, Sequences
TraceLog == ndJsonDeserialize(IOEnv.TRACE)
VARIABLE l
tvars == <<vars, l>>
Rec == TraceLog[l]
Has == l <= Len(TraceLog)
Is(e) == Has /\ Rec.e = e
Adv == l' = l + 1
TInit == l = 1 /\ TLCSet(1, 0) /\ Init(0, 0)
TNext ==
    \/ Is("init") /\ lcount' = Rec.l0 /\ bexp' = Rec.e0 /\ bphase' = 0 /\ barr' = 0 /\ bdrop' = 0
         /\ bcompl' = 0 /\ evset' = FALSE /\ odone' = FALSE /\ orunning' = 0
         /\ op' = [a \in Actor |-> Idle] /\ Adv
    \/ Is("call") /\ Call(Rec.a, Rec.op, Rec.n) /\ Adv
    \/ Is("ret") /\ Ret(Rec.a, Rec.res) /\ Adv
    \/ Is("completion") /\ BarrierCompletion(Rec.a) /\ Adv
    \/ Is("once_begin") /\ OnceBegin(Rec.a) /\ Adv
    \/ Is("once_end") /\ OnceEnd(Rec.a, Rec.threw = 1) /\ Adv
    \/ (\E a \in Actor : Lin(a)) /\ UNCHANGED l
    \/ Is("quiescent") /\ (\A a \in Actor : op[a].st # "done") /\ QuiescentOk /\ UNCHANGED vars /\ Adv
    \/ Is("reset") /\ (\A a \in Actor : op[a].st = "idle") /\ UNCHANGED vars /\ Adv
TSpec == TInit /\ [][TNext]_tvars
NotAccepted == l <= Len(TraceLog)
TrackMax == IF l > TLCGet(1) THEN TLCSet(1, l) ELSE TRUE
PrintMax == PrintT(<<"MAXL", TLCGet(1)>>)
=============================================================================
