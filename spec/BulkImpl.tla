------------------------------ MODULE BulkImpl ------------------------------
(* Transcription of the chunking arithmetic of pika's thread_pool_scheduler bulk (C11):
     chunk_size := 1; while chunk_size * W * 8 < n: chunk_size := chunk_size * 2
     num_chunks := (n + chunk_size - 1) div chunk_size
     queue of worker w := [ (w * num_chunks) div W, ((w+1) * num_chunks) div W )      (chunk indices)
     chunk c covers indices [ min(c * chunk_size, n), min((c+1) * chunk_size, n) )
   The constant Bits selects the width of the words the arithmetic is done in: "wide" models the
   64-bit arithmetic, a number k models k-bit unsigned arithmetic (products and the cast of n wrap
   modulo 2^k) as in the code before the fix.  TLC checks for every n and worker count that the
   chunks partition [0, n) (every index covered exactly once) and that the loop terminates.    *)
EXTENDS Naturals, Integers, FiniteSets
CONSTANTS MaxN, MaxW, Bits
VARIABLES n, W, chunk, phase, iter
vars == <<n, W, chunk, phase, iter>>
Wrap(x) == IF Bits = 0 THEN x ELSE x % (2 ^ Bits)
Init == n \in 0..MaxN /\ W \in 1..MaxW /\ chunk = 1 /\ phase = "loop" /\ iter = 0
LoopStep == /\ phase = "loop"
            /\ IF Wrap(Wrap(chunk * W) * 8) < Wrap(n)
                  THEN chunk' = Wrap(chunk * 2) /\ iter' = iter + 1 /\ UNCHANGED phase
                  ELSE phase' = "done" /\ UNCHANGED <<chunk, iter>>
            /\ UNCHANGED <<n, W>>
Next == LoopStep
Spec == Init /\ [][Next]_vars /\ WF_vars(Next)
NumChunks == IF chunk = 0 THEN 0 ELSE Wrap((n + chunk - 1) \div chunk)
QBegin(w) == (w * NumChunks) \div W
QEnd(w) == ((w + 1) * NumChunks) \div W
Min(a, b) == IF a < b THEN a ELSE b
Covered(c) == {i \in 0..(n - 1) : Min(c * chunk, n) <= i /\ i < Min((c + 1) * chunk, n)}
AllChunks == UNION {QBegin(w)..(QEnd(w) - 1) : w \in 0..(W - 1)}
Count(i) == Cardinality({c \in AllChunks : i \in Covered(c)})
\* when the chunk-size loop has finished: every index in exactly one chunk of exactly one queue
Partition == phase = "done" =>
    /\ \A i \in 0..(n - 1) : Count(i) = 1
    /\ \A w1, w2 \in 0..(W - 1) : w1 # w2 => (QBegin(w1)..(QEnd(w1) - 1)) \cap (QBegin(w2)..(QEnd(w2) - 1)) = {}
LoopBounded == iter <= 20
Terminates == <>(phase = "done")
=============================================================================
