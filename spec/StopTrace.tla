---------------------------- MODULE StopTrace ----------------------------
(* Trace validation for C14 against StopAbs.  Records:
     {"e":"call","a":A,"op":kind,"h":H,"g":G,"c":C}   {"e":"ret","a":A,"res":R}
     {"e":"cb_begin","a":A,"c":C}  {"e":"cb_end","a":A,"c":C}  {"e":"nested_destroy","a":A,"c":C}
     {"e":"quiescent"}  {"e":"reset"}                                                        *)
EXTENDS StopAbs, Json, IOUtils, TLC

TraceLog == ndJsonDeserialize(IOEnv.TRACE)
VARIABLE l
tvars == <<vars, l>>
Rec == TraceLog[l]
Has == l <= Len(TraceLog)

TInit == l = 1 /\ TLCSet(1, 0) /\ Init

TCall == /\ Has /\ Rec.e = "call"
         /\ Call(Rec.a, Rec.op, Rec.h, Rec.g, Rec.c)
         /\ l' = l + 1
TRet == /\ Has /\ Rec.e = "ret" /\ Ret(Rec.a, Rec.res) /\ l' = l + 1
TCbBegin == /\ Has /\ Rec.e = "cb_begin" /\ CbBegin(Rec.a, Rec.c) /\ l' = l + 1
TCbEnd == /\ Has /\ Rec.e = "cb_end" /\ CbEnd(Rec.a, Rec.c) /\ l' = l + 1
TNested == /\ Has /\ Rec.e = "nested_destroy" /\ NestedDestroy(Rec.a, Rec.c) /\ l' = l + 1
TLin == \E a \in Actor : Lin(a) /\ UNCHANGED l
TQuiescent == /\ Has /\ Rec.e = "quiescent"
              /\ \A a \in Actor : op[a].st # "done"
              /\ QuiescentOk
              /\ UNCHANGED vars /\ l' = l + 1
\* end of a history: all calls returned; no callback may be left registered on a requested state
\* A record {"e":"unmarked_dequeue"} is written by the harness when the hook inside request_stop (under the state's
\* lock, right after a callback was taken off the list) finds the entry not yet marked as removed.  No action
\* consumes it: StopStateImpl requires the mark before the lock is released (variant mark_after_unlock violates
\* NoUseAfterDestroy), so a history that contains it is rejected.
TReset == /\ Has /\ Rec.e = "reset"
          /\ \A a \in Actor : op[a].st = "idle"
          /\ NoPendingCallback
          /\ requested' = [s \in States |-> FALSE] /\ nsrc' = [s \in States |-> 0] /\ nstates' = 0
          /\ src' = [h \in SrcH |-> 0] /\ tok' = [h \in TokH |-> 0] /\ cb' = [c \in Cb |-> NoCb]
          /\ winners' = [s \in States |-> 0] /\ UNCHANGED op
          /\ l' = l + 1

TNext == TCall \/ TRet \/ TCbBegin \/ TCbEnd \/ TNested \/ TLin \/ TQuiescent \/ TReset
TSpec == TInit /\ [][TNext]_tvars
NotAccepted == l <= Len(TraceLog)
TrackMax == IF l > TLCGet(1) THEN TLCSet(1, l) ELSE TRUE
PrintMax == PrintT(<<"MAXL", TLCGet(1)>>)
=============================================================================
