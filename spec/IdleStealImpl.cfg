SPECIFICATION Spec
CONSTANTS
  Worker = {1,2,3}
  Asleep = {2,3}
  MaxIdle = 4
  PerSleeper = 2
  Stealing = TRUE
  Variant = "none"
INVARIANTS TypeOK Conserved
PROPERTIES Drains StaysPut
