SPECIFICATION Spec
CONSTANTS
  Worker = {1,2}
  MpiThread = 9
  Variant = "none"
INVARIANT Exclusive
CONSTRAINT Bound
CHECK_DEADLOCK FALSE
