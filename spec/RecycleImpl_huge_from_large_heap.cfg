SPECIFICATION Spec
CONSTANTS
  Obj = {o1, o2}
  Class = {1, 2, 3}
  Top = 3
  Below = 2
  Variant = "huge_from_large_heap"
  MaxTasks = 4
INVARIANT StartsClean
CHECK_DEADLOCK FALSE
