------------------------------ MODULE FunctionImpl ------------------------------
(* Storage management of pika::util::detail::function / unique_function (functional/src/basic_function.cpp),
   property C18: the wrapper owns exactly the object it reports, small objects live in the wrapper's own
   inline buffer, large ones on the heap.

   A wrapper w has  vptr (which target type, or empty), object (null | a pointer into SOME wrapper's inline
   buffer | a heap block) and the contents of its own inline buffer.
     make(w, small?)    construct a target in w (inline if small, else a fresh heap block)
     reset(w)           destroy the target (through w.vptr at w.object), w becomes empty
     swap(a, b)         swap vptr, object and the buffer contents; then re-point an object pointer that now
                        refers to the OTHER wrapper's buffer to the own buffer - for a and for b
     move_assign(a, b)  a.swap(b); b.reset()
   Variant "swap_repairs_one": the two re-pointing statements are chained with `else` (seeded change C18-2).

   Each target has an identity; destroying a target twice, destroying the target that another wrapper owns,
   or leaving a target undestroyed is what the property forbids.                                       *)
EXTENDS Naturals, FiniteSets
CONSTANTS W, MaxTargets, Variant, None
VARIABLES vt, obj, buf, heap, alive, next, err
\* vt[w]: target id the vtable belongs to (None = empty); obj[w]: None | <<"buf", w2>> | <<"heap", id>>
\* buf[w]: target id whose bytes are in w's inline buffer (None = garbage); heap: set of live heap target ids
vars == <<vt, obj, buf, heap, alive, next, err>>
Init == /\ vt = [w \in W |-> None] /\ obj = [w \in W |-> None] /\ buf = [w \in W |-> None]
        /\ heap = {} /\ alive = {} /\ next = 1 /\ err = FALSE
\* which target does w's object pointer designate?
Designates(w) == IF obj[w] = None THEN None
                 ELSE IF obj[w][1] = "buf" THEN buf[obj[w][2]] ELSE obj[w][2]
\* destroy through w: runs vt[w]'s destructor on whatever obj[w] points to
DestroyVia(w, al) == LET d == Designates(w) IN
    [alive |-> al \ {d}, bad |-> (d = None \/ d \notin al \/ d # vt[w])]
Make(w, small) ==
    /\ vt[w] = None /\ next <= MaxTargets
    /\ vt' = [vt EXCEPT ![w] = next] /\ alive' = alive \cup {next} /\ next' = next + 1
    /\ IF small THEN obj' = [obj EXCEPT ![w] = <<"buf", w>>] /\ buf' = [buf EXCEPT ![w] = next] /\ UNCHANGED heap
                ELSE obj' = [obj EXCEPT ![w] = <<"heap", next>>] /\ heap' = heap \cup {next} /\ UNCHANGED buf
    /\ UNCHANGED err
Reset(w) ==
    /\ vt[w] # None
    /\ LET r == DestroyVia(w, alive) IN
       /\ alive' = r.alive /\ err' = (err \/ r.bad)
       /\ heap' = IF obj[w] # None /\ obj[w][1] = "heap" THEN heap \ {obj[w][2]} ELSE heap
    /\ vt' = [vt EXCEPT ![w] = None] /\ obj' = [obj EXCEPT ![w] = None] /\ UNCHANGED <<buf, next>>
\* the state after a.swap(b)
Swapped(a, b) ==
    LET vt1 == [vt EXCEPT ![a] = vt[b], ![b] = vt[a]]
        ob1 == [obj EXCEPT ![a] = obj[b], ![b] = obj[a]]
        bf1 == [buf EXCEPT ![a] = buf[b], ![b] = buf[a]]
        fixA == ob1[a] = <<"buf", b>>
        fixB == ob1[b] = <<"buf", a>>
        ob2 == [ob1 EXCEPT ![a] = IF fixA THEN <<"buf", a>> ELSE ob1[a],
                           ![b] = IF fixB /\ ~(Variant = "swap_repairs_one" /\ fixA) THEN <<"buf", b>> ELSE ob1[b]]
    IN [vt |-> vt1, obj |-> ob2, buf |-> bf1]
Swap(a, b) == /\ a # b /\ LET s == Swapped(a, b) IN vt' = s.vt /\ obj' = s.obj /\ buf' = s.buf
              /\ UNCHANGED <<heap, alive, next, err>>
MoveAssign(a, b) ==      \* a = std::move(b)
    /\ a # b
    /\ LET s == Swapped(a, b)
           d == IF s.obj[b] = None THEN None ELSE IF s.obj[b][1] = "buf" THEN s.buf[s.obj[b][2]] ELSE s.obj[b][2]
           bad == s.vt[b] # None /\ (d = None \/ d \notin alive \/ d # s.vt[b]) IN
       /\ vt' = [s.vt EXCEPT ![b] = None] /\ obj' = [s.obj EXCEPT ![b] = None] /\ buf' = s.buf
       /\ alive' = IF s.vt[b] # None THEN alive \ {d} ELSE alive
       /\ heap' = IF s.obj[b] # None /\ s.obj[b][1] = "heap" THEN heap \ {s.obj[b][2]} ELSE heap
       /\ err' = (err \/ bad)
    /\ UNCHANGED next
Next == \E a \in W : (\E sm \in BOOLEAN : Make(a, sm)) \/ Reset(a) \/ (\E b \in W : Swap(a, b) \/ MoveAssign(a, b))
Spec == Init /\ [][Next]_vars
\* nothing is destroyed twice or through the wrong wrapper
NoBadDestroy == ~err
\* every non-empty wrapper designates exactly its own, live target, in its OWN buffer or on the heap
OwnsItsTarget == \A w \in W : vt[w] # None =>
                    /\ Designates(w) = vt[w] /\ vt[w] \in alive
                    /\ (obj[w][1] = "buf" => obj[w][2] = w)
\* the live targets are exactly the ones held by wrappers (no leak)
NoLeak == alive = {vt[w] : w \in W} \ {None}
=============================================================================
