SPECIFICATION TSpec
INVARIANT NotAccepted
CONSTRAINT TrackMax
POSTCONDITION PrintMax
CHECK_DEADLOCK FALSE
