---------------------------- MODULE MpiModeImpl ----------------------------
(* How pika's MPI polling chooses between its lock-free "single-threaded" bookkeeping and the locked
   multi-threaded one (mpi_polling.cpp: can_run_singlethreaded, register_polling,
   add_to_request_callback_queue, poll_singlethreaded / poll_multithreaded; C20).

   A completion mode has a request_inline bit (the MPI call is made by whichever worker runs the task,
   otherwise the call is transferred to the dedicated pool) and a completion_inline bit (where the
   continuation runs).  With a dedicated pool the polling function runs on that pool's single worker,
   without one it runs on every worker of the default pool.

       single := pool /\ ~request_inline
       post:  if single  push the request straight into the request vector          (no lock)
              else       enqueue it in the MPMC queue
       poll:  if single  scan the vector                                             (no lock)
              else       try_lock; move queue -> vector; scan; unlock

   The vector is a plain std::vector: two threads inside it at once corrupt it (requests are lost, callbacks
   run twice or never).  Invariant Exclusive: never two threads inside the vector.  TLC checks it for every
   mode and both pool settings (the constants are chosen nondeterministically in Init).
   Variant "wrong_bit" (seeded change C20-3): single := pool /\ ~completion_inline.                   *)
EXTENDS Naturals, FiniteSets
CONSTANTS Worker, MpiThread, Variant
VARIABLES pool, reqInline, complInline, inside, locked, queued, pc
vars == <<pool, reqInline, complInline, inside, locked, queued, pc>>
Threads == Worker \cup {MpiThread}
Single == IF Variant = "wrong_bit" THEN pool /\ ~complInline ELSE pool /\ ~reqInline
\* the thread that makes the MPI call (and registers the request) for a task running on worker w
CallThread(w) == IF pool /\ ~reqInline THEN MpiThread ELSE w
Pollers == IF pool THEN {MpiThread} ELSE Worker
Init == /\ pool \in BOOLEAN /\ reqInline \in BOOLEAN /\ complInline \in BOOLEAN
        /\ inside = {} /\ locked = FALSE /\ queued = 0
        /\ pc = [t \in Threads |-> "idle"]
\* a task on worker w posts a request; the registration runs on CallThread(w)
PostBegin(w) == LET t == CallThread(w) IN
    /\ w \in Worker /\ pc[t] = "idle"
    /\ IF Single THEN inside' = inside \cup {t} /\ pc' = [pc EXCEPT ![t] = "pushing"] /\ UNCHANGED queued
                 ELSE queued' = queued + 1 /\ UNCHANGED <<inside, pc>>
    /\ UNCHANGED <<pool, reqInline, complInline, locked>>
PostEnd(t) == /\ pc[t] = "pushing" /\ inside' = inside \ {t} /\ pc' = [pc EXCEPT ![t] = "idle"]
              /\ UNCHANGED <<pool, reqInline, complInline, locked, queued>>
PollBegin(t) == /\ t \in Pollers /\ pc[t] = "idle"
                /\ IF Single THEN UNCHANGED locked ELSE (~locked /\ locked' = TRUE)
                /\ inside' = inside \cup {t} /\ pc' = [pc EXCEPT ![t] = "polling"]
                /\ queued' = IF Single THEN queued ELSE 0
                /\ UNCHANGED <<pool, reqInline, complInline>>
PollEnd(t) == /\ pc[t] = "polling" /\ inside' = inside \ {t} /\ pc' = [pc EXCEPT ![t] = "idle"]
              /\ locked' = IF Single THEN locked ELSE FALSE
              /\ UNCHANGED <<pool, reqInline, complInline, queued>>
Next == \/ \E w \in Worker : PostBegin(w)
        \/ \E t \in Threads : PostEnd(t) \/ PollBegin(t) \/ PollEnd(t)
Spec == Init /\ [][Next]_vars
Exclusive == Cardinality(inside) <= 1
\* the queue is bounded only to keep the model finite
Bound == queued <= 3
=============================================================================
