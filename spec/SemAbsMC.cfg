SPECIFICATION MCSpec
CONSTANTS
  Actor = {a1, a2, a3}
  Deviations = {}
  MaxCalls = 2
  P0 = 1
  MaxN = 2
  Kinds = {"acquire","try_acquire","try_acquire_until","release"}
INVARIANT Conservation
PROPERTY ResultMeansConsumed
PROPERTY FalseOnlyWithoutPermit
PROPERTY NoStuckAcquirer
PROPERTY LowerMonotone
CHECK_DEADLOCK FALSE
