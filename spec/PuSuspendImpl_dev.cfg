SPECIFICATION Spec
CONSTANTS
  NTasks = 3
  Variant = "resume_notifies_once"
INVARIANT NoStrandedWork
PROPERTY EverythingCompletes
CHECK_DEADLOCK FALSE
