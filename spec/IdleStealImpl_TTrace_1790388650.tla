---- MODULE IdleStealImpl_TTrace_1790388650 ----
EXTENDS Sequences, TLCExt, IdleStealImpl, Toolbox, IdleStealImpl_TEConstants, Naturals, TLC

_expression ==
    LET IdleStealImpl_TEExpression == INSTANCE IdleStealImpl_TEExpression
    IN IdleStealImpl_TEExpression!expression
----

_trace ==
    LET IdleStealImpl_TETrace == INSTANCE IdleStealImpl_TETrace
    IN IdleStealImpl_TETrace!trace
----

_prop ==
    ~(([]<>(
            idle = (<<4, 0, 0>>)
            /\
            staged = (<<0, 2, 2>>)
            /\
            ran = (0)
    ))/\([]<>(
            idle = (<<0, 0, 0>>)
            /\
            staged = (<<0, 2, 2>>)
            /\
            ran = (0)
    )))
----

_init ==
    /\ idle = _TETrace[1].idle
    /\ staged = _TETrace[1].staged
    /\ ran = _TETrace[1].ran
----

_next ==
    /\ \E i,j \in DOMAIN _TETrace:
        /\ \/ /\ j = i + 1
              /\ i = TLCGet("level")
           \/ /\ i = _TTraceLassoEnd
              /\ j = _TTraceLassoStart
        /\ idle  = _TETrace[i].idle
        /\ idle' = _TETrace[j].idle
        /\ staged  = _TETrace[i].staged
        /\ staged' = _TETrace[j].staged
        /\ ran  = _TETrace[i].ran
        /\ ran' = _TETrace[j].ran

\* Uncomment the ASSUME below to write the states of the error trace
\* to the given file in Json format. Note that you can pass any tuple
\* to `JsonSerialize`. For example, a sub-sequence of _TETrace.
    \* ASSUME
    \*     LET J == INSTANCE Json
    \*         IN J!JsonSerialize("IdleStealImpl_TTrace_1790388650.json", _TETrace)


_view ==
    <<idle, staged, ran, IF TLCGet("level") = _TTraceLassoEnd + 1 THEN _TTraceLassoStart ELSE TLCGet("level")>>
=============================================================================

 Note that you can extract this module `IdleStealImpl_TEExpression`
  to a dedicated file to reuse `expression` (the module in the 
  dedicated `IdleStealImpl_TEExpression.tla` file takes precedence 
  over the module `IdleStealImpl_TEExpression` below).

---- MODULE IdleStealImpl_TEExpression ----
EXTENDS Sequences, TLCExt, IdleStealImpl, Toolbox, IdleStealImpl_TEConstants, Naturals, TLC

expression == 
    [
        \* To hide variables of the `IdleStealImpl` spec from the error trace,
        \* remove the variables below.  The trace will be written in the order
        \* of the fields of this record.
        idle |-> idle
        ,staged |-> staged
        ,ran |-> ran
        
        \* Put additional constant-, state-, and action-level expressions here:
        \* ,_stateNumber |-> _TEPosition
        \* ,_idleUnchanged |-> idle = idle'
        
        \* Format the `idle` variable as Json value.
        \* ,_idleJson |->
        \*     LET J == INSTANCE Json
        \*     IN J!ToJson(idle)
        
        \* Lastly, you may build expressions over arbitrary sets of states by
        \* leveraging the _TETrace operator.  For example, this is how to
        \* count the number of times a spec variable changed up to the current
        \* state in the trace.
        \* ,_idleModCount |->
        \*     LET F[s \in DOMAIN _TETrace] ==
        \*         IF s = 1 THEN 0
        \*         ELSE IF _TETrace[s].idle # _TETrace[s-1].idle
        \*             THEN 1 + F[s-1] ELSE F[s-1]
        \*     IN F[_TEPosition - 1]
    ]

=============================================================================



Parsing and semantic processing can take forever if the trace below is long.
 In this case, it is advised to uncomment the module below to deserialize the
 trace from a generated binary file.

\*
\*---- MODULE IdleStealImpl_TETrace ----
\*EXTENDS IOUtils, IdleStealImpl, IdleStealImpl_TEConstants, TLC
\*
\*trace == IODeserialize("IdleStealImpl_TTrace_1790388650.bin", TRUE)
\*
\*=============================================================================
\*

---- MODULE IdleStealImpl_TETrace ----
EXTENDS IdleStealImpl, IdleStealImpl_TEConstants, TLC

trace == 
    <<
    ([idle |-> <<0, 0, 0>>,staged |-> <<0, 2, 2>>,ran |-> 0]),
    ([idle |-> <<1, 0, 0>>,staged |-> <<0, 2, 2>>,ran |-> 0]),
    ([idle |-> <<2, 0, 0>>,staged |-> <<0, 2, 2>>,ran |-> 0]),
    ([idle |-> <<3, 0, 0>>,staged |-> <<0, 2, 2>>,ran |-> 0]),
    ([idle |-> <<4, 0, 0>>,staged |-> <<0, 2, 2>>,ran |-> 0])
    >>
----


=============================================================================

---- MODULE IdleStealImpl_TEConstants ----
EXTENDS IdleStealImpl

CONSTANTS _TTraceLassoStart, _TTraceLassoEnd

=============================================================================

---- CONFIG IdleStealImpl_TTrace_1790388650 ----
CONSTANTS
    Worker = { 1 , 2 , 3 }
    Asleep = { 2 , 3 }
    MaxIdle = 4
    PerSleeper = 2
    Stealing = TRUE
    Variant = "threshold_full"
_TTraceLassoStart = 1
_TTraceLassoEnd = 5

PROPERTY
    _prop

CHECK_DEADLOCK
    \* CHECK_DEADLOCK off because of PROPERTY or INVARIANT above.
    FALSE

INIT
    _init

NEXT
    _next

VIEW
    _view

CONSTANT
    _TETrace <- _trace

ALIAS
    _expression
=============================================================================
\* Generated on Sat Sep 26 02:10:51 UTC 2026