------------------------------ MODULE PlaceAbs ------------------------------
(* Abstract statement of C10 (where work runs).  Every callable reached through schedule /
   continues_on / transfer_just / execute / bulk on a thread_pool_scheduler reports, for each of its
   phases:  the pool it was sent to (exp) and the pool, local worker number and OS thread it runs on,
   whether it runs on a pika thread, and whether it runs inside the call that submitted it.
   Configuration (constants of a history): which pools are static (non-stealing).              *)
EXTENDS Naturals, Integers, FiniteSets
CONSTANTS Pool, StaticPools, StdPool
VARIABLES seenStd,     \* OS threads used by std_thread_scheduler work so far
          workerTids   \* OS threads known to be pika workers
vars == <<seenStd, workerTids>>
Init == seenStd = {} /\ workerTids = {}
\* a phase of a task sent to pool `exp` (with worker hint `hint`, -1 = none; normal priority iff prio = 0)
RunPhase(exp, pool, w, tid, isPika, inline, hint, prio) ==
    /\ exp # StdPool
    /\ isPika /\ ~inline                      \* a task on a worker thread, never inside the submitting call
    /\ pool = exp                             \* of the pool it was sent to
    /\ (exp \in StaticPools /\ hint >= 0 /\ prio = 0) => w = hint     \* static policy: the hinted worker, every phase
    /\ tid \notin seenStd
    /\ workerTids' = workerTids \cup {tid} /\ UNCHANGED seenStd
\* std_thread_scheduler work: a fresh thread that is not a pika thread
RunStd(tid, isPika, inline, submitterTid) ==
    /\ ~isPika /\ ~inline /\ tid # submitterTid
    /\ tid \notin workerTids /\ tid \notin seenStd
    /\ seenStd' = seenStd \cup {tid} /\ UNCHANGED workerTids
=============================================================================
