------------------------------ MODULE MutexImpl ------------------------------
(* Fine-grained model of pika::mutex / timed_mutex (libs/pika/synchronization/src/mutex.cpp) on top of
   pika::detail::condition_variable (src/detail/condition_variable.cpp), property C06.

   mutex state: owner (a thread or None), an internal spinlock `mtx_` (variable il: its holder or None)
   and the condition variable's queue of waiting agents.
     lock():      take il; while owner # None: cv.wait; owner := self; release il
     unlock():    take il; owner := None; cv.notify_one (pop the first entry and resume it); release il
     try_lock_until(t): take il; if owner # None: r := cv.wait_until; timeout => false;
                        owner # None => false;  owner := self; release il  => true
     cv.wait:     (il held) append own entry; release il; suspend; take il; remove own entry if it is still
                  queued (reset_queue_entry); result = signaled iff a notifier had popped the entry
   Resuming an agent that has not suspended yet is not lost (that is property C02, spec WakeImpl): it is
   modelled by a wake token that the next suspend consumes.  A timed wait may also end without a token
   (deadline); a token that arrives later stays pending and makes that thread's next suspend return
   immediately (a spurious wake-up, which lock()'s while loop absorbs).

   Each thread in Locker runs  lock(); critical section; unlock()  Rounds times; each thread in Timed
   runs  try_lock_until(); [critical section; unlock()]  once.

   Variant "timeout_swallows_wake": try_lock_until also returns false when its deadline has passed
   although it was resumed by a notifier (the seeded change C06-1): the hand-over is dropped.      *)
EXTENDS Naturals, Sequences, FiniteSets
CONSTANTS Locker, Timed, Rounds, Variant, None
Thread == Locker \cup Timed

VARIABLES owner, il, queue, popped, token, pc, left, incs, timedout, res
vars == <<owner, il, queue, popped, token, pc, left, incs, timedout, res>>

Init == /\ owner = None /\ il = None /\ queue = <<>>
        /\ popped = [t \in Thread |-> FALSE] /\ token = [t \in Thread |-> FALSE]
        /\ pc = [t \in Thread |-> "start"] /\ left = [t \in Thread |-> IF t \in Locker THEN Rounds ELSE 1]
        /\ incs = 0 /\ timedout = [t \in Thread |-> FALSE] /\ res = [t \in Thread |-> "none"]

InQueue(t) == \E i \in 1..Len(queue) : queue[i] = t
Without(s, t) == SelectSeq(s, LAMBDA x : x # t)
Goto(t, p) == pc' = [pc EXCEPT ![t] = p]

\* take the internal spinlock
Take(t) == /\ pc[t] \in {"start", "woken", "unlock"} /\ il = None /\ il' = t
           /\ Goto(t, CASE pc[t] = "start" -> "check" [] pc[t] = "woken" -> "rewait" [] OTHER -> "clear")
           /\ UNCHANGED <<owner, queue, popped, token, left, incs, timedout, res>>
\* lock() / try_lock_until(): test the owner under il
Check(t) ==
    /\ pc[t] = "check" /\ il = t
    /\ IF owner = None
          THEN owner' = t /\ il' = None /\ Goto(t, "cs") /\ UNCHANGED <<queue, popped>>
          ELSE \* cv.wait / wait_until: enqueue, release il
               /\ queue' = Append(queue, t) /\ popped' = [popped EXCEPT ![t] = FALSE]
               /\ il' = None /\ Goto(t, "suspend") /\ UNCHANGED owner
    /\ UNCHANGED <<token, left, incs, timedout, res>>
\* suspended: resumed by a token; a timed waiter may also run into its deadline
Suspend(t) ==
    /\ pc[t] = "suspend"
    /\ \/ token[t] /\ token' = [token EXCEPT ![t] = FALSE] /\ UNCHANGED timedout
       \/ t \in Timed /\ ~token[t] /\ timedout' = [timedout EXCEPT ![t] = TRUE] /\ UNCHANGED token
    /\ Goto(t, "woken")
    /\ UNCHANGED <<owner, il, queue, popped, left, incs, res>>
\* back under il: leave the queue if still there; decide
Rewait(t) ==
    /\ pc[t] = "rewait" /\ il = t
    /\ queue' = Without(queue, t)
    /\ IF t \in Locker
          THEN Goto(t, "check") /\ UNCHANGED <<il, res>>          \* while (owner # None) wait again
          ELSE \E late \in BOOLEAN :      \* has the deadline passed by now?
               LET signaled == popped[t]
                   giveup == \/ ~signaled
                             \/ (Variant = "timeout_swallows_wake" /\ late)
                             \/ owner # None
               IN IF giveup THEN /\ res' = [res EXCEPT ![t] = "false"] /\ il' = None /\ Goto(t, "done")
                            ELSE Goto(t, "check") /\ UNCHANGED <<il, res>>
    /\ UNCHANGED <<owner, popped, token, left, incs, timedout>>
\* critical section: a non-atomic read-modify-write of shared data
Cs(t) == /\ pc[t] = "cs" /\ owner = t /\ incs' = incs + 1 /\ Goto(t, "unlock")
         /\ res' = [res EXCEPT ![t] = "true"]
         /\ UNCHANGED <<owner, il, queue, popped, token, left, timedout>>
\* unlock(): under il clear the owner and notify one waiter (pop + resume)
Clear(t) ==
    /\ pc[t] = "clear" /\ il = t /\ owner = t
    /\ owner' = None
    /\ IF queue # <<>>
          THEN /\ popped' = [popped EXCEPT ![Head(queue)] = TRUE]
               /\ token' = [token EXCEPT ![Head(queue)] = TRUE]
               /\ queue' = Tail(queue)
          ELSE UNCHANGED <<popped, token, queue>>
    /\ il' = None
    /\ left' = [left EXCEPT ![t] = @ - 1]
    /\ Goto(t, IF left[t] > 1 THEN "start" ELSE "done")
    /\ UNCHANGED <<incs, timedout, res>>

Step(t) == Take(t) \/ Check(t) \/ Suspend(t) \/ Rewait(t) \/ Cs(t) \/ Clear(t)
Next == \E t \in Thread : Step(t)
Spec == Init /\ [][Next]_vars /\ \A t \in Thread : WF_vars(Step(t))

MutualExclusion == Cardinality({t \in Thread : pc[t] \in {"cs", "unlock", "clear"}}) <= 1
OwnerConsistent == \A t \in Thread : pc[t] \in {"cs", "unlock", "clear"} => owner = t
\* no unlock is lost: never everybody blocked on a free mutex
NoLostHandover == ~(/\ owner = None /\ il = None
                    /\ \E t \in Locker : pc[t] = "suspend"
                    /\ \A t \in Thread : (pc[t] \in {"suspend", "done"} /\ ~token[t])
                    /\ \A t \in Timed : pc[t] = "done")
AllDone == \A t \in Thread : pc[t] = "done"
Terminates == <>AllDone
\* a timed attempt that reported success really held the lock (it executed the critical section)
CountOk == AllDone => incs = Rounds * Cardinality(Locker) + Cardinality({t \in Timed : res[t] = "true"})
=============================================================================
