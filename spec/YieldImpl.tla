------------------------------ MODULE YieldImpl ------------------------------
(* Fine-grained model of how scheduling_loop (thread_pools/scheduling_loop.hpp) treats a task that
   yields, property C01 (never dropped, never on two workers).

   Tasks run phases; a phase ends by yielding with state `pending` (this_thread::yield), with
   `pending_boost` (the back-off of contended spinlocks / yield_while / barrier, yield_k with k >= 16)
   or by terminating.  Worker w:
        get a task:  next_thrd (kept from the previous iteration) or pop the run queue
        load its state word; only `pending` is run: CAS(pending -> active), run the phase,
        CAS(active -> what the phase returned)                                    (as in WakeImpl)
        then  pending       -> push to the back of the queue
              pending_boost -> state := pending; if the worker's busy-loop counter just wrapped keep the
                               task as next_thrd (run it in the next iteration without touching the
                               queue), else push it with boosted priority (front)
              terminated    -> done
   The busy-loop counter is abstracted to a nondeterministic choice.
   Variant "boost_next_keeps_state": the next_thrd branch does not reset the state to pending (seeded
   change C01-2): the next iteration finds `pending_boost`, which is not runnable, and drops the task. *)
EXTENDS Naturals, Sequences, FiniteSets
CONSTANTS Task, Worker, Phases, Variant, None
VARIABLES state, queue, left, wpc, wcur, wnext, ran
vars == <<state, queue, left, wpc, wcur, wnext, ran>>
Init == /\ state = [t \in Task |-> "pending"]
        /\ queue \in {q \in [1..Cardinality(Task) -> Task] : \A i, j \in 1..Cardinality(Task) : i # j => q[i] # q[j]}
        /\ left = [t \in Task |-> Phases] /\ wpc = [w \in Worker |-> "get"]
        /\ wcur = [w \in Worker |-> None] /\ wnext = [w \in Worker |-> None]
        /\ ran = [t \in Task |-> 0]
Get(w) ==
    /\ wpc[w] = "get"
    /\ IF wnext[w] # None
          THEN wcur' = [wcur EXCEPT ![w] = wnext[w]] /\ wnext' = [wnext EXCEPT ![w] = None] /\ UNCHANGED queue
          ELSE /\ queue # <<>> /\ wcur' = [wcur EXCEPT ![w] = Head(queue)] /\ queue' = Tail(queue)
               /\ UNCHANGED wnext
    /\ wpc' = [wpc EXCEPT ![w] = "activate"] /\ UNCHANGED <<state, left, ran>>
Activate(w) ==
    /\ wpc[w] = "activate"
    /\ IF state[wcur[w]] = "pending"
          THEN state' = [state EXCEPT ![wcur[w]] = "active"] /\ wpc' = [wpc EXCEPT ![w] = "run"] /\ UNCHANGED wcur
          ELSE \* not runnable: the reference is dropped
               wpc' = [wpc EXCEPT ![w] = "get"] /\ wcur' = [wcur EXCEPT ![w] = None] /\ UNCHANGED state
    /\ UNCHANGED <<queue, left, wnext, ran>>
\* one phase of the task's body; how it ends is the task's choice
Run(w) ==
    /\ wpc[w] = "run"
    /\ LET t == wcur[w] IN
       /\ ran' = [ran EXCEPT ![t] = @ + 1]
       /\ left' = [left EXCEPT ![t] = @ - 1]
       /\ \E how \in (IF left[t] = 1 THEN {"terminated"} ELSE {"pending", "pending_boost"}) :
             state' = [state EXCEPT ![t] = how]
    /\ wpc' = [wpc EXCEPT ![w] = "after"] /\ UNCHANGED <<queue, wcur, wnext>>
After(w) ==
    /\ wpc[w] = "after"
    /\ LET t == wcur[w] IN
       CASE state[t] = "pending" -> queue' = Append(queue, t) /\ UNCHANGED <<state, wnext>>
         [] state[t] = "pending_boost" ->
              \E wrap \in BOOLEAN :      \* did the busy-loop counter just pass its maximum?
                 IF wrap
                    THEN /\ wnext' = [wnext EXCEPT ![w] = t] /\ UNCHANGED queue
                         /\ (IF Variant = "boost_next_keeps_state" THEN UNCHANGED state
                             ELSE state' = [state EXCEPT ![t] = "pending"])
                    ELSE /\ state' = [state EXCEPT ![t] = "pending"] /\ queue' = <<t>> \o queue
                         /\ UNCHANGED wnext
         [] OTHER -> UNCHANGED <<state, queue, wnext>>
    /\ wpc' = [wpc EXCEPT ![w] = "get"] /\ wcur' = [wcur EXCEPT ![w] = None] /\ UNCHANGED <<left, ran>>
Step(w) == Get(w) \/ Activate(w) \/ Run(w) \/ After(w)
Next == \E w \in Worker : Step(w)
Spec == Init /\ [][Next]_vars /\ \A w \in Worker : WF_vars(Step(w))

InQueue(t) == \E i \in 1..Len(queue) : queue[i] = t
Held(t) == \E w \in Worker : wcur[w] = t \/ wnext[w] = t
\* a task that has not terminated is always somewhere: in the queue or held by a worker
NeverDropped == \A t \in Task : state[t] # "terminated" => (InQueue(t) \/ Held(t))
\* one worker at a time
SingleRunner == \A t \in Task : Cardinality({w \in Worker : wcur[w] = t /\ wpc[w] \in {"run", "after"}}) <= 1
\* every task runs exactly its phases and terminates
AllPhases == \A t \in Task : ran[t] <= Phases
Terminates == <>(\A t \in Task : state[t] = "terminated" /\ ran[t] = Phases)
=============================================================================
