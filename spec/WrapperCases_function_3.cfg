SPECIFICATION Spec
CONSTANTS
  Slot = {1, 2}
  Copyable = TRUE
  MaxLen = 3
  InvokeMode = "call"
INVARIANT LiveMatches
INVARIANT DistinctIds
INVARIANT Emit
CHECK_DEADLOCK FALSE
