SPECIFICATION TSpec
CONSTANTS
  Consumer = {1, 2, 3}
  Variant = "flag_after_lock"
INVARIANT NotAccepted
CONSTRAINT TrackMax
POSTCONDITION PrintMax
CHECK_DEADLOCK FALSE
