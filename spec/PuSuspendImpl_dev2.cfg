SPECIFICATION Spec
CONSTANTS
  NTasks = 3
  Variant = "suspend_returns_in_pre_sleep"
INVARIANT NoStrandedWork
PROPERTY EverythingCompletes
CHECK_DEADLOCK FALSE
