SPECIFICATION Spec
CONSTANTS
  P = 5
  Phases = 2
  Variant = "ok"
INVARIANT NoEarlyDeparture
INVARIANT CompletionOnce
PROPERTY AllPhasesDone
CHECK_DEADLOCK FALSE
