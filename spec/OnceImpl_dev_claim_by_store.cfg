SPECIFICATION Spec
CONSTANTS
  Caller = {1,2,3}
  Throws = 1
  Variant = "claim_by_store"
INVARIANTS OneRunner RunsOnce ReturnAfterDone ThrowsOk
PROPERTY Terminates
CHECK_DEADLOCK FALSE
