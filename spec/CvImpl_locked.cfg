SPECIFICATION Spec
CONSTANTS
  Waiter = {w1, w2}
  StopWaiter = {s1}
  Notifier = {n1, n2}
  NotifyLocked = {n1}
  StopReq = {q1}
  Variant = "ok"
  None = None
INVARIANT NoLostNotification
INVARIANT ResultOk
PROPERTY Terminates
CHECK_DEADLOCK FALSE
