---------------------------- MODULE SemTrace ----------------------------
(* Trace validation for C08: a history recorded from the real pika semaphores is accepted iff it
   is a behaviour of SemAbs.  Records (ndjson, file named by env TRACE):
     {"e":"init","p0":..,"md":..,"lo":..}              start of a history
     {"e":"call","a":i,"op":kind,"n":..,"dl":us,"t":us}
     {"e":"ret","a":i,"res":0|1,"t":us}
     {"e":"quiescent","t":us}      nothing will ever return any more (watchdog)
     {"e":"reset"}                 end of history
   Lin steps are not logged: TLC places them between the records.  A timeout linearization is only
   allowed where the next record's timestamp (taken after its sequence number) shows that the
   deadline can have passed (Slack covers timer granularity).                                  *)
EXTENDS SemAbs, Json, IOUtils, TLC, Sequences

TraceLog == ndJsonDeserialize(IOEnv.TRACE)
Slack == 1000
NActors == 8

VARIABLE l
tvars == <<vars, l>>

Rec == TraceLog[l]
Has == l <= Len(TraceLog)

TInit == /\ l = 1 /\ TLCSet(1, 0)
         /\ permits = 0 /\ lower = 0 /\ maxDiff = 0
         /\ op = [a \in Actor |-> Idle] /\ acquired = 0 /\ released = 0

TStart == /\ Has /\ Rec.e = "init"
          /\ permits' = Rec.p0 /\ maxDiff' = Rec.md /\ lower' = Rec.lo
          /\ op' = [a \in Actor |-> Idle] /\ acquired' = 0 /\ released' = Rec.p0
          /\ l' = l + 1

TCall == /\ Has /\ Rec.e = "call"
         /\ Call(Rec.a, Rec.op, Rec.n, Rec.dl)
         /\ l' = l + 1

TRet == /\ Has /\ Rec.e = "ret"
        /\ Ret(Rec.a, Rec.res)
        /\ l' = l + 1

TimeOk(a) == Has /\ "t" \in DOMAIN Rec /\ Rec.t + Slack >= op[a].dl

TLin == \E a \in Actor : Lin(a, TimeOk(a)) /\ UNCHANGED l

TQuiescent == /\ Has /\ Rec.e = "quiescent"
              /\ \A a \in Actor : op[a].st # "done"    \* a computed result would have been returned
              /\ QuiescentOk
              /\ UNCHANGED vars
              /\ l' = l + 1

TReset == /\ Has /\ Rec.e = "reset"
          /\ \A a \in Actor : op[a].st \in {"idle", "called"}
          /\ UNCHANGED vars
          /\ l' = l + 1

TNext == TStart \/ TCall \/ TRet \/ TLin \/ TQuiescent \/ TReset
TSpec == TInit /\ [][TNext]_tvars

NotAccepted == l <= Len(TraceLog)

\* remember the furthest position reached (for diagnosing a rejection)
TrackMax == IF l > TLCGet(1) THEN TLCSet(1, l) ELSE TRUE
MaxInit == TLCSet(1, 0)
PrintMax == PrintT(<<"MAXL", TLCGet(1)>>)
=============================================================================
