---------------------------- MODULE IndexQueueImpl ----------------------------
(* Fine-grained model of pika::concurrency::detail::contiguous_index_queue (C17, C11):
   the packed range <<first,last>> is one atomic word; pop_left / pop_right are
       load expected;  loop { if empty(expected) return none;
                              desired := inc first / dec last;
                              if CAS(current, expected, desired) return index
                              else expected := current }
   Each thread performs up to MaxOps pops, choosing the side nondeterministically (or fixed:
   thread 1 = owner pops left, others = thieves pop right, when OwnerThief = TRUE).            *)
EXTENDS Naturals, Integers, FiniteSets, Sequences
CONSTANTS Thread, First, Last, MaxOps, OwnerThief, Deviations
VARIABLES cur,      \* <<first,last>> current range
          pc,       \* pc[t] \in {"idle","loaded","done"}
          side,     \* side[t] \in {"L","R"}
          exp,      \* expected range of t's CAS loop
          got,      \* got[t]: sequence of indices returned to t (-1 = empty)
          nops,
          fresh,    \* fresh[t]: exp[t] comes from the initial load (not from a failed CAS)
          exp0      \* exp0[t]: the range seen by the initial load of the current call
vars == <<cur, pc, side, exp, got, nops, fresh, exp0>>

Empty(r) == r[1] >= r[2]

Init == /\ cur = <<First, Last>>
        /\ pc = [t \in Thread |-> "idle"]
        /\ side = [t \in Thread |-> "L"]
        /\ exp = [t \in Thread |-> <<0, 0>>]
        /\ got = [t \in Thread |-> <<>>]
        /\ nops = [t \in Thread |-> 0]
        /\ fresh = [t \in Thread |-> TRUE]
        /\ exp0 = [t \in Thread |-> <<0, 0>>]

Owner == CHOOSE t \in Thread : TRUE

Load(t) == /\ pc[t] = "idle" /\ nops[t] < MaxOps
           /\ \E s \in {"L", "R"} :
                 /\ (OwnerThief => (s = IF t = Owner THEN "L" ELSE "R"))
                 /\ side' = [side EXCEPT ![t] = s]
           /\ exp' = [exp EXCEPT ![t] = cur]
           /\ pc' = [pc EXCEPT ![t] = "loaded"]
           /\ nops' = [nops EXCEPT ![t] = @ + 1]
           /\ fresh' = [fresh EXCEPT ![t] = TRUE]
           /\ exp0' = IF "PopRightIndexBeforeLoop" \in Deviations THEN [exp0 EXCEPT ![t] = cur] ELSE exp0
           /\ UNCHANGED <<cur, got>>

\* the index pop_right hands out: the code returns desired.last = last - 1
RightIndex(r) == IF "PopRightReturnsOldLast" \in Deviations THEN r[2] ELSE r[2] - 1

\* Deviation "PopRightIndexBeforeLoop": pop_right computes the index it returns from the range it loaded first,
\* before the CAS loop, and returns it even when the CAS succeeded on a refreshed range (seeded change C11-3)
RightResult(t) == IF "PopRightIndexBeforeLoop" \in Deviations THEN exp0[t][2] - 1 ELSE RightIndex(cur)
\* Deviation "PopLeftChecksEmptyOnce": pop_left tests for emptiness only before its CAS loop, not after a
\* failed CAS has refreshed the expected range (seeded change C11-2)
ChecksEmpty(t) == ~("PopLeftChecksEmptyOnce" \in Deviations /\ side[t] = "L" /\ ~fresh[t])
Step(t) ==
    /\ pc[t] = "loaded"
    /\ IF Empty(exp[t]) /\ ChecksEmpty(t)
          THEN /\ got' = [got EXCEPT ![t] = Append(@, -1)]
               /\ pc' = [pc EXCEPT ![t] = "idle"]
               /\ UNCHANGED <<cur, exp, fresh>>
          ELSE IF cur = exp[t]
                  THEN /\ cur' = IF side[t] = "L" THEN <<cur[1] + 1, cur[2]>> ELSE <<cur[1], cur[2] - 1>>
                       /\ got' = [got EXCEPT ![t] =
                                     Append(@, IF side[t] = "L" THEN cur[1] ELSE RightResult(t))]
                       /\ pc' = [pc EXCEPT ![t] = "idle"]
                       /\ UNCHANGED <<exp, fresh>>
                  ELSE /\ exp' = [exp EXCEPT ![t] = cur]       \* failed CAS reloads expected
                       /\ fresh' = [fresh EXCEPT ![t] = FALSE]
                       /\ UNCHANGED <<cur, got, pc>>
    /\ UNCHANGED <<side, nops, exp0>>

Next == \E t \in Thread : Load(t) \/ Step(t)
Spec == Init /\ [][Next]_vars /\ \A t \in Thread : WF_vars(Step(t))

Returned == UNION {{got[t][i] : i \in 1..Len(got[t])} : t \in Thread} \ {-1}
NumReturned == LET S == {<<t, i>> \in Thread \X (1..MaxOps) : i <= Len(got[t]) /\ got[t][i] # -1}
               IN Cardinality(S)
\* every index handed out at most once, nothing invented
ExactlyOnce == NumReturned = Cardinality(Returned) /\ Returned \subseteq First..(Last - 1)
\* handed-out indices and the remaining range partition [First, Last)
Partition == Returned \cup (cur[1]..(cur[2] - 1)) = First..(Last - 1)
             /\ Returned \cap (cur[1]..(cur[2] - 1)) = {}
\* "empty" is only reported when the queue was empty at some point of the call: once empty it stays
\* empty, so a -1 implies the queue is empty now
EmptyMeansEmpty == \A t \in Thread : (\E i \in 1..Len(got[t]) : got[t][i] = -1) => Empty(cur)
\* per-thread order: left pops ascend, right pops descend (single-threaded order statement)
Ordered == \A t \in Thread : \A i, j \in 1..Len(got[t]) :
              (i < j /\ got[t][i] # -1 /\ got[t][j] # -1 /\ OwnerThief) =>
                  IF t = Owner THEN got[t][i] < got[t][j] ELSE got[t][i] > got[t][j]
Terminates == <>(\A t \in Thread : pc[t] = "idle")
=============================================================================
