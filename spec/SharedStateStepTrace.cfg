SPECIFICATION TSpec
CONSTANTS
  Consumer = {1, 2, 3}
  Variant = "ok"
INVARIANT NotAccepted
CONSTRAINT TrackMax
POSTCONDITION PrintMax
CHECK_DEADLOCK FALSE
