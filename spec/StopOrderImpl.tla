---------------------------- MODULE StopOrderImpl ----------------------------
(* The shutdown sequence behind pika::stop() / runtime::wait() (libs/pika/runtime/src/runtime.cpp), C05.

     stop():  wait_finalize()         block until somebody called pika::finalize()
              thread_manager.wait()   block until the activity count is 0
              then shut the pools down and return the entry function's result
   Work may be submitted by anybody until finalize() has been called (submitting afterwards is outside
   the documented protocol); a task increments the count before it becomes visible and decrements it after
   it has finished (ActivityImpl).  stop() may be called at any time, also long before finalize().

   Variant "idle_before_finalize": the two waits are swapped (seeded change C05-1): stop() sees an idle
   runtime first, then waits for finalize(); work submitted in between is still running - or not even
   started - when stop() returns.                                                                    *)
EXTENDS Naturals, FiniteSets
CONSTANTS Task, Variant
VARIABLES finalized, ts, count, spc
\* ts[t]: "none" -> "queued" -> "running" -> "done";   spc: stop()'s position
vars == <<finalized, ts, count, spc>>
Init == finalized = FALSE /\ ts = [t \in Task |-> "none"] /\ count = 0 /\ spc = "notcalled"
Submit(t) == ts[t] = "none" /\ ~finalized /\ ts' = [ts EXCEPT ![t] = "queued"] /\ count' = count + 1
             /\ UNCHANGED <<finalized, spc>>
Run(t) == ts[t] = "queued" /\ spc # "returned" /\ ts' = [ts EXCEPT ![t] = "running"] /\ UNCHANGED <<finalized, count, spc>>
Finish(t) == ts[t] = "running" /\ ts' = [ts EXCEPT ![t] = "done"] /\ count' = count - 1 /\ UNCHANGED <<finalized, spc>>
Finalize == ~finalized /\ finalized' = TRUE /\ UNCHANGED <<ts, count, spc>>
First == IF Variant = "idle_before_finalize" THEN "idle" ELSE "fin"
Second == IF Variant = "idle_before_finalize" THEN "fin" ELSE "idle"
Passed(w) == IF w = "fin" THEN finalized ELSE count = 0
StopCall == spc = "notcalled" /\ spc' = "first" /\ UNCHANGED <<finalized, ts, count>>
StopFirst == spc = "first" /\ Passed(First) /\ spc' = "second" /\ UNCHANGED <<finalized, ts, count>>
StopSecond == spc = "second" /\ Passed(Second) /\ spc' = "returned" /\ UNCHANGED <<finalized, ts, count>>
Next == (\E t \in Task : Submit(t) \/ Run(t) \/ Finish(t)) \/ Finalize \/ StopCall \/ StopFirst \/ StopSecond
Spec == Init /\ [][Next]_vars /\ WF_vars(Next)
\* stop() returns only after finalize(), with every piece of work that was ever submitted finished
StopPost == spc = "returned" => (finalized /\ \A t \in Task : ts[t] \in {"none", "done"})
StopReturns == <>(spc = "returned")
=============================================================================
