SPECIFICATION Spec
CONSTANTS
  Variant = "unlock_before_resume"
  Channel = "value"
INVARIANTS TypeOK NoUseAfterDestroy ReturnsAfterCompletion ResultIsTheSignal LockFreeAtEnd
PROPERTY Terminates
CHECK_DEADLOCK FALSE
