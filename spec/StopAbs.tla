------------------------------ MODULE StopAbs ------------------------------
(* Abstract specification of pika's stop_source / stop_token / stop_callback (property C14).

   Stop states are numbered 1..; handle slots (stop_source slots SrcH, stop_token slots TokH) hold a
   state number or 0 (empty: default constructed token, nostopstate source, moved-from, destroyed).
   Every API call is Call / Lin / Ret.  request_stop and a stop_callback constructor that finds
   stop already requested additionally execute callbacks, which is observable (cb_begin/cb_end).

   Named deviations (disabled unless listed in Deviations):
     "AssignLeaksSourceCount"        stop_source assignment does not release the overwritten state
     "SecondWinnerAfterUnlockedRetry" a second concurrent request_stop also returns true
     "CallbackAddedAfterStopNeverRuns" a stop_callback constructed while another thread completes
                                     request_stop is neither run by it nor run inline
     "DtorSkipsWaitAmongOsThreads"   ~stop_callback does not wait for a callback that is running on
                                     another plain OS thread
*)
EXTENDS Naturals, Integers, FiniteSets, Sequences

CONSTANTS Actor, SrcH, TokH, Cb, MaxState, Deviations,
          OsActor     \* actors that are plain OS threads (pika gives them all the same "invalid" id)

VARIABLES requested,   \* requested[s]
          nsrc,        \* nsrc[s]: number of live stop_source handles for state s
          nstates,     \* states allocated so far
          src, tok,    \* handle slots
          cb,          \* cb[c] = [st, s, runner, count]
          winners,     \* winners[s]: number of request_stop calls that returned true
          op           \* op[a]: call in progress

vars == <<requested, nsrc, nstates, src, tok, cb, winners, op>>

States == 1..MaxState
Idle == [kind |-> "none", h |-> 0, g |-> 0, c |-> 0, st |-> "idle", res |-> 0]
NoCb == [st |-> "none", s |-> 0, runner |-> 0, count |-> 0]

Init ==
    /\ requested = [s \in States |-> FALSE]
    /\ nsrc = [s \in States |-> 0]
    /\ nstates = 0
    /\ src = [h \in SrcH |-> 0]
    /\ tok = [h \in TokH |-> 0]
    /\ cb = [c \in Cb |-> NoCb]
    /\ winners = [s \in States |-> 0]
    /\ op = [a \in Actor |-> Idle]

Call(a, kind, h, g, c) ==
    /\ op[a].st = "idle"
    /\ op' = [op EXCEPT ![a] = [kind |-> kind, h |-> h, g |-> g, c |-> c, st |-> "called", res |-> 0]]
    /\ UNCHANGED <<requested, nsrc, nstates, src, tok, cb, winners>>

Done(a, r) == op' = [op EXCEPT ![a].st = "done", ![a].res = r]
B(x) == IF x THEN 1 ELSE 0

Inc(f, s) == IF s = 0 THEN f ELSE [f EXCEPT ![s] = @ + 1]
Dec(f, s) == IF s = 0 THEN f ELSE [f EXCEPT ![s] = @ - 1]

Req(s) == IF s = 0 THEN FALSE ELSE requested[s]
NSrc(s) == IF s = 0 THEN 0 ELSE nsrc[s]
Possible(s) == s # 0 /\ (Req(s) \/ NSrc(s) > 0)

(* ---------------- handle algebra (each a single atomic step) ---------------- *)
LinHandle(a) ==
    LET k == op[a].kind  h == op[a].h  g == op[a].g IN
    /\ op[a].st = "called"
    /\ \/ /\ k = "new_src" /\ nstates < MaxState
          /\ nstates' = nstates + 1
          /\ src' = [src EXCEPT ![h] = nstates + 1]
          /\ nsrc' = Inc(nsrc, nstates + 1)
          /\ UNCHANGED tok /\ Done(a, 0)
       \/ /\ k = "copy_src"                        \* construct slot h as a copy of g
          /\ src' = [src EXCEPT ![h] = src[g]]
          /\ nsrc' = Inc(nsrc, src[g])
          /\ UNCHANGED <<tok, nstates>> /\ Done(a, 0)
       \/ /\ k = "move_src"                        \* construct slot h from moved g
          /\ src' = [src EXCEPT ![h] = src[g], ![g] = 0]
          /\ UNCHANGED <<tok, nstates, nsrc>> /\ Done(a, 0)
       \/ /\ k = "assign_src"                      \* h = g   (h may equal g)
          /\ src' = [src EXCEPT ![h] = src[g]]
          /\ nsrc' = IF "AssignLeaksSourceCount" \in Deviations
                        THEN Inc(nsrc, src[g])
                        ELSE Dec(Inc(nsrc, src[g]), src[h])
          /\ UNCHANGED <<tok, nstates>> /\ Done(a, 0)
       \/ /\ k = "moveassign_src" /\ h # g         \* h = std::move(g)
          /\ src' = [src EXCEPT ![h] = src[g], ![g] = 0]
          /\ nsrc' = IF "AssignLeaksSourceCount" \in Deviations THEN nsrc ELSE Dec(nsrc, src[h])
          /\ UNCHANGED <<tok, nstates>> /\ Done(a, 0)
       \/ /\ k = "swap_src"
          /\ src' = [src EXCEPT ![h] = src[g], ![g] = src[h]]
          /\ UNCHANGED <<tok, nstates, nsrc>> /\ Done(a, 0)
       \/ /\ k = "destroy_src"
          /\ src' = [src EXCEPT ![h] = 0]
          /\ nsrc' = Dec(nsrc, src[h])
          /\ UNCHANGED <<tok, nstates>> /\ Done(a, 0)
       \/ /\ k = "get_token"                       \* token slot h = source slot g .get_token()
          /\ tok' = [tok EXCEPT ![h] = src[g]]
          /\ UNCHANGED <<src, nstates, nsrc>> /\ Done(a, 0)
       \/ /\ k = "assign_tok"
          /\ tok' = [tok EXCEPT ![h] = tok[g]]
          /\ UNCHANGED <<src, nstates, nsrc>> /\ Done(a, 0)
       \/ /\ k = "move_tok" /\ h # g
          /\ tok' = [tok EXCEPT ![h] = tok[g], ![g] = 0]
          /\ UNCHANGED <<src, nstates, nsrc>> /\ Done(a, 0)
       \/ /\ k = "destroy_tok"
          /\ tok' = [tok EXCEPT ![h] = 0]
          /\ UNCHANGED <<src, nstates, nsrc>> /\ Done(a, 0)
       \/ /\ k = "possible_tok"  /\ UNCHANGED <<src, tok, nstates, nsrc>> /\ Done(a, B(Possible(tok[h])))
       \/ /\ k = "requested_tok" /\ UNCHANGED <<src, tok, nstates, nsrc>>
          /\ Done(a, B(tok[h] # 0 /\ Req(tok[h])))
       \/ /\ k = "possible_src"  /\ UNCHANGED <<src, tok, nstates, nsrc>> /\ Done(a, B(src[h] # 0))
       \/ /\ k = "requested_src" /\ UNCHANGED <<src, tok, nstates, nsrc>>
          /\ Done(a, B(src[h] # 0 /\ Req(src[h])))
    /\ UNCHANGED <<requested, cb, winners>>

(* ---------------- request_stop ---------------- *)
\* the decisive step: the first requester wins, sets the flag and goes on to run the callbacks
LinRequest(a) ==
    LET s == src[op[a].h] IN
    /\ op[a].st = "called" /\ op[a].kind = "request_stop"
    /\ \/ /\ s # 0 /\ ~Req(s)
          /\ requested' = [requested EXCEPT ![s] = TRUE]
          /\ winners' = [winners EXCEPT ![s] = @ + 1]
          /\ op' = [op EXCEPT ![a].st = "stopping", ![a].res = 1, ![a].g = s]
       \/ /\ (s = 0 \/ Req(s))
          /\ Done(a, 0) /\ UNCHANGED <<requested, winners>>
       \/ /\ "SecondWinnerAfterUnlockedRetry" \in Deviations
          /\ s # 0 /\ Req(s)
          /\ \A b \in Actor : ~(op[b].st = "stopping" /\ op[b].g = s)   \* first one already unlocked
          /\ winners' = [winners EXCEPT ![s] = @ + 1]
          /\ op' = [op EXCEPT ![a].st = "stopping", ![a].res = 1, ![a].g = s]
          /\ UNCHANGED requested
    /\ UNCHANGED <<nsrc, nstates, src, tok, cb>>

\* a callback starts executing on actor a: either a is the winning requester and c is registered on
\* that state, or a is constructing c and found stop already requested
CbBegin(a, c) ==
    /\ \/ /\ op[a].st = "stopping" /\ cb[c].st = "reg" /\ cb[c].s = op[a].g
       \/ /\ op[a].st = "ctorrun" /\ op[a].c = c /\ cb[c].st = "pending"
    /\ cb' = [cb EXCEPT ![c].st = "running", ![c].runner = a, ![c].count = @ + 1]
    /\ UNCHANGED <<requested, nsrc, nstates, src, tok, winners, op>>

CbEnd(a, c) ==
    /\ cb[c].st \in {"running", "selfdead"} /\ cb[c].runner = a
    /\ cb' = [cb EXCEPT ![c].st = IF @ = "selfdead" THEN "dead" ELSE "ran", ![c].runner = 0]
    /\ IF op[a].st = "ctorrun" /\ op[a].c = c
          THEN Done(a, 0)
          ELSE UNCHANGED op
    /\ UNCHANGED <<requested, nsrc, nstates, src, tok, winners>>

\* the winner returns when no callback registered before its request is left unexecuted
LinRequestDone(a) ==
    /\ op[a].st = "stopping"
    /\ \A c \in Cb : ~(cb[c].st = "reg" /\ cb[c].s = op[a].g)
    /\ \A c \in Cb : ~(cb[c].st \in {"running", "selfdead"} /\ cb[c].runner = a)
    /\ Done(a, 1)
    /\ UNCHANGED <<requested, nsrc, nstates, src, tok, cb, winners>>

(* ---------------- stop_callback construction / destruction ---------------- *)
LinMakeCb(a) ==
    LET c == op[a].c  s == tok[op[a].h] IN
    /\ op[a].st = "called" /\ op[a].kind = "make_cb"
    /\ cb[c].st = "none"
    /\ \/ /\ s # 0 /\ Req(s)
          /\ cb' = [cb EXCEPT ![c] = [st |-> "pending", s |-> s, runner |-> 0, count |-> 0]]
          /\ op' = [op EXCEPT ![a].st = "ctorrun"]
       \/ /\ s # 0 /\ ~Req(s) /\ NSrc(s) > 0
          /\ cb' = [cb EXCEPT ![c] = [st |-> "reg", s |-> s, runner |-> 0, count |-> 0]]
          /\ Done(a, 0)
       \/ /\ (s = 0 \/ (~Req(s) /\ NSrc(s) = 0))
          /\ cb' = [cb EXCEPT ![c] = [st |-> "inert", s |-> s, runner |-> 0, count |-> 0]]
          /\ Done(a, 0)
       \/ /\ "CallbackAddedAfterStopNeverRuns" \in Deviations
          /\ s # 0 /\ Req(s)
          /\ cb' = [cb EXCEPT ![c] = [st |-> "inert", s |-> s, runner |-> 0, count |-> 0]]
          /\ Done(a, 0)
    /\ UNCHANGED <<requested, nsrc, nstates, src, tok, winners>>

LinDestroyCb(a) ==
    LET c == op[a].c IN
    /\ op[a].st = "called" /\ op[a].kind = "destroy_cb"
    /\ \/ /\ cb[c].st \in {"reg", "ran", "inert"}
          /\ cb' = [cb EXCEPT ![c].st = "dead"]
       \/ /\ cb[c].st = "running" /\ cb[c].runner = a       \* destroyed from inside itself
          /\ cb' = [cb EXCEPT ![c].st = "selfdead"]
       \/ /\ "DtorSkipsWaitAmongOsThreads" \in Deviations
          /\ cb[c].st = "running" /\ cb[c].runner # a
          /\ cb[c].runner \in OsActor /\ a \in OsActor
          /\ cb' = [cb EXCEPT ![c].st = "selfdead"]
       \* running on another thread: not enabled, the destructor waits
    /\ Done(a, 0)
    /\ UNCHANGED <<requested, nsrc, nstates, src, tok, winners>>

\* a callback body destroys another callback (or itself) while it runs on actor a: one atomic
\* observable step (the harness logs it after the destructor returned)
NestedDestroy(a, c) ==
    /\ \E d \in Cb : cb[d].st = "running" /\ cb[d].runner = a
    /\ \/ /\ cb[c].st \in {"reg", "ran", "inert"}
          /\ cb' = [cb EXCEPT ![c].st = "dead"]
       \/ /\ cb[c].st = "running" /\ cb[c].runner = a
          /\ cb' = [cb EXCEPT ![c].st = "selfdead"]
    /\ UNCHANGED <<requested, nsrc, nstates, src, tok, winners, op>>

Lin(a) == LinHandle(a) \/ LinRequest(a) \/ LinRequestDone(a) \/ LinMakeCb(a) \/ LinDestroyCb(a)

Ret(a, r) ==
    /\ op[a].st = "done" /\ op[a].res = r
    /\ op' = [op EXCEPT ![a] = Idle]
    /\ UNCHANGED <<requested, nsrc, nstates, src, tok, cb, winners>>

(* ------------------------------- properties ------------------------------- *)
OneWinner == \A s \in States : winners[s] <= 1
CallbackAtMostOnce == \A c \in Cb : cb[c].count <= 1
SourceCountsSane == \A s \in States : nsrc[s] = Cardinality({h \in SrcH : src[h] = s})
\* nothing runs after its destructor returned: CbBegin needs st \in {reg,pending}, never "dead"
\* exactly once if requested: at quiescence no callback is still registered on a requested state
NoPendingCallback == \A c \in Cb : ~(cb[c].st = "reg" /\ Req(cb[c].s)
                                      /\ \A a \in Actor : op[a].st # "stopping")
\* a blocked call that could complete in the current state
CanProceed(a) ==
    \/ op[a].st = "called" /\ op[a].kind # "destroy_cb"
    \/ op[a].st = "called" /\ op[a].kind = "destroy_cb"
          /\ ~(cb[op[a].c].st = "running" /\ cb[op[a].c].runner # a)
    \/ op[a].st = "stopping" /\ ENABLED LinRequestDone(a)
QuiescentOk == \A a \in Actor : ~CanProceed(a)
=============================================================================
