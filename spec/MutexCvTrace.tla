---------------------------- MODULE MutexCvTrace ----------------------------
(* Trace validation for C06 / C07 against MutexCvAbs.  Records:
     {"e":"init","mk":kind}  {"e":"call","a":A,"op":k,"dl":us,"t":us}
     {"e":"ret","a":A,"res":R,"val":V,"t":us}  {"e":"quiescent","t":us}  {"e":"reset"}        *)
EXTENDS MutexCvAbs, Json, IOUtils, TLC, Sequences
TraceLog == ndJsonDeserialize(IOEnv.TRACE)
Slack == 1000
VARIABLE l
tvars == <<vars, l>>
Rec == TraceLog[l]
Has == l <= Len(TraceLog)

TInit == l = 1 /\ TLCSet(1, 0) /\ Init("mutex")
TStart == /\ Has /\ Rec.e = "init"
          /\ mkind' = Rec.mk /\ owner' = 0 /\ depth' = 0 /\ data' = 0
          /\ waiting' = {} /\ wake' = {} /\ flag' = FALSE /\ stopReq' = FALSE
          /\ op' = [a \in Actor |-> Idle]
          /\ l' = l + 1
TCall == Has /\ Rec.e = "call" /\ Call(Rec.a, Rec.op, Rec.dl) /\ l' = l + 1
LockKinds == {"lock", "try_lock", "try_lock_until"}
TRet == /\ Has /\ Rec.e = "ret"
        /\ (op[Rec.a].kind \in LockKinds /\ Rec.res = 1) => Rec.val = data   \* sees the last section's write
        /\ Ret(Rec.a, Rec.res)
        /\ l' = l + 1
TimeOk(a) == Has /\ "t" \in DOMAIN Rec /\ Rec.t + Slack >= op[a].dl
TLin == \E a \in Actor : Lin(a, TimeOk(a)) /\ UNCHANGED l
TQuiescent == /\ Has /\ Rec.e = "quiescent"
              /\ \A a \in Actor : op[a].st # "done"
              /\ QuiescentOk
              /\ UNCHANGED vars /\ l' = l + 1
TReset == /\ Has /\ Rec.e = "reset" /\ \A a \in Actor : op[a].st = "idle"
          /\ UNCHANGED vars /\ l' = l + 1
TNext == TStart \/ TCall \/ TRet \/ TLin \/ TQuiescent \/ TReset
TSpec == TInit /\ [][TNext]_tvars
NotAccepted == l <= Len(TraceLog)
TrackMax == IF l > TLCGet(1) THEN TLCSet(1, l) ELSE TRUE
PrintMax == PrintT(<<"MAXL", TLCGet(1)>>)
=============================================================================
