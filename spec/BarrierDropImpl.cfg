SPECIFICATION Spec
CONSTANTS
  P = 3
  Phases = 3
  Variant = "ok"
  Dropper = {3}
  DropAt = 0
INVARIANT NoEarlyDeparture
INVARIANT CompletionOnce
PROPERTY AllPhasesDone
CHECK_DEADLOCK FALSE
