SPECIFICATION TSpec
CONSTANTS
  Task = {1,2,3,4,5,6,7,8,9,10,11,12}
  Deviations = {"FpControlStateNotPreserved"}
INVARIANT NotAccepted
CONSTRAINT TrackMax
POSTCONDITION PrintMax
CHECK_DEADLOCK FALSE
