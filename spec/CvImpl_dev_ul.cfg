SPECIFICATION Spec
CONSTANTS
  Waiter = {w1}
  StopWaiter = {}
  Notifier = {n1}
  NotifyLocked = {}
  StopReq = {}
  Variant = "ul_before_il"
  None = None
INVARIANT NoLostNotification
INVARIANT ResultOk
PROPERTY Terminates
CHECK_DEADLOCK FALSE
