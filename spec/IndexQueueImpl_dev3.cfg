SPECIFICATION Spec
CONSTANTS
  Thread = {t1, t2, t3}
  First = 2
  Last = 6
  MaxOps = 3
  OwnerThief = TRUE
  Deviations = {"PopRightIndexBeforeLoop"}
INVARIANT ExactlyOnce
INVARIANT Partition
INVARIANT EmptyMeansEmpty
INVARIANT Ordered
PROPERTY Terminates
CHECK_DEADLOCK FALSE
