SPECIFICATION TSpec
CONSTANTS
  Target = {1,2,3}
  Round = {1,2,3,4}
INVARIANT NotAccepted
INVARIANT ResumedOnlyIssued
CONSTRAINT TrackMax
POSTCONDITION PrintMax
CHECK_DEADLOCK FALSE
