SPECIFICATION TSpec
CONSTANTS
  MaxIdx = 70
INVARIANT NotAccepted
CONSTRAINT TrackMax
POSTCONDITION PrintMax
CHECK_DEADLOCK FALSE
