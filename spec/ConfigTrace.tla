---------------------------- MODULE ConfigTrace ----------------------------
(* Judges every record (one configuration case + what the live runtime did) independently: a record
   that ConfigAbs does not accept is reported together with the named deviation that explains it,
   if any.  The runner turns unexplained ones into violations and explained ones into findings. *)
EXTENDS ConfigAbs, Json, IOUtils, TLC, Sequences
TraceLog == ndJsonDeserialize(IOEnv.TRACE)
VARIABLE l
Rec == TraceLog[l]
Has == l <= Len(TraceLog)
Devs == {"PrependedAndCmdlineSameOptionAborts", "InvalidValueIgnored"}
Explains(r) == {d \in Devs : AcceptD(r, r.out, {d})}
Verdict(r) == IF r.e = "case" THEN (IF Accept(r, r.out) THEN TRUE
                                     ELSE PrintT(<<"REJ", l, IF Explains(r) = {} THEN "none" ELSE CHOOSE d \in Explains(r) : TRUE>>))
              ELSE IF r.e = "misc" THEN (IF AcceptMisc(r, r.out) THEN TRUE ELSE PrintT(<<"REJ", l, "none">>))
              ELSE TRUE
TInit == l = 1
TNext == Has /\ Verdict(Rec) /\ l' = l + 1
TSpec == TInit /\ [][TNext]_l
NotAccepted == l <= Len(TraceLog)
=============================================================================
