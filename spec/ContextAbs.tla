------------------------------ MODULE ContextAbs ------------------------------
(* Abstract specification of what a task owns across suspension, migration and recycling (C12).
   Per task: the depth of its call stack (each frame filled with a canary pattern derived from the
   task and the depth), its task-local datum, its identity.  A task's state changes only by its own
   operations; whatever other tasks do, and on whichever worker it resumes, a check of task t must
   observe exactly t's state (and intact canaries, callee-saved registers, floating-point control
   state and identity).  Stacks of live tasks are disjoint; a task bound to a recycled thread object
   starts clean (no inherited interruption request, task datum or exit callbacks) and on a stack of
   the size configured for its class.                                                          *)
EXTENDS Naturals, Integers, FiniteSets
CONSTANTS Task, Deviations
VARIABLES st, depth, tld, lo, hi
vars == <<st, depth, tld, lo, hi>>
Init == /\ st = [t \in Task |-> "none"] /\ depth = [t \in Task |-> 0] /\ tld = [t \in Task |-> 0]
        /\ lo = [t \in Task |-> 0] /\ hi = [t \in Task |-> 0]
Live == {t \in Task : st[t] = "live"}
\* a task starts: clean thread object, stack of the configured size, disjoint from all live stacks
Start(t, clean, sizeOk, l, h) ==
    /\ st[t] = "none" /\ clean /\ sizeOk /\ l < h
    /\ \A u \in Live : h <= lo[u] \/ hi[u] <= l
    /\ st' = [st EXCEPT ![t] = "live"] /\ lo' = [lo EXCEPT ![t] = l] /\ hi' = [hi EXCEPT ![t] = h]
    /\ depth' = [depth EXCEPT ![t] = 0] /\ tld' = [tld EXCEPT ![t] = 0]
Push(t) == st[t] = "live" /\ depth' = [depth EXCEPT ![t] = @ + 1] /\ UNCHANGED <<st, tld, lo, hi>>
Pop(t) == st[t] = "live" /\ depth[t] > 0 /\ depth' = [depth EXCEPT ![t] = @ - 1] /\ UNCHANGED <<st, tld, lo, hi>>
SetTld(t, v) == st[t] = "live" /\ tld' = [tld EXCEPT ![t] = v] /\ UNCHANGED <<st, depth, lo, hi>>
\* after every yield / suspension (possibly on another worker) the task observes its own state
\* ok: stack canaries, callee-saved registers and identity intact; fpOk: floating-point control state
\* (SSE rounding/masks, x87 control word) as the task left it.
\* Deviation "FpControlStateNotPreserved": the context switch does not save the FP control state.
Check(t, d, v, ok, fpOk) ==
    /\ st[t] = "live" /\ d = depth[t] /\ v = tld[t] /\ ok
    /\ (fpOk \/ "FpControlStateNotPreserved" \in Deviations)
    /\ UNCHANGED vars
Finish(t) == st[t] = "live" /\ depth[t] = 0 /\ st' = [st EXCEPT ![t] = "done"]
             /\ UNCHANGED <<depth, tld, lo, hi>>
=============================================================================
