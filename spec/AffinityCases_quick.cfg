SPECIFICATION Spec
CONSTANTS
  Topologies <- T
  Binds <- B
  MaxMaskPus = 6
  Stride = 12
INVARIANT Emit
CHECK_DEADLOCK FALSE
