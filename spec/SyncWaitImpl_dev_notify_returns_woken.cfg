SPECIFICATION Spec
CONSTANTS
  Variant = "notify_returns_woken"
  Channel = "value"
INVARIANTS TypeOK NoUseAfterDestroy ReturnsAfterCompletion ResultIsTheSignal LockFreeAtEnd
PROPERTY Terminates
CHECK_DEADLOCK FALSE
