SPECIFICATION Spec
CONSTANTS
  Worker = {w1, w2}
  Rounds = 2
  MaxHelpers = 2
  Variant = "cas_ignores_snapshot"
  DupRounds = {1}
INVARIANT SingleRunner
INVARIANT EnteredOnce
INVARIANT NoLostWake
PROPERTY Terminates
CHECK_DEADLOCK FALSE
