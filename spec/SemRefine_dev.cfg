SPECIFICATION Spec
CONSTANTS
  Acquirer = {"a1", "a2"}
  Timed = {"t1"}
  Releaser = {"r1", "r2"}
  N <- NFn
  Variant = "timed_take_without_recheck"
  None = "none"
PROPERTY Refines
CHECK_DEADLOCK FALSE
