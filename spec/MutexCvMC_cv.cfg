SPECIFICATION MCSpec
CONSTANTS
  Actor = {a1, a2, a3}
  Deviations = {}
  MaxCalls = 3
  MK = "mutex"
  Kinds = {"lock","unlock","wait","wait_until","wait_pred","notify_one","notify_all","set_flag"}
INVARIANT MutualExclusion
INVARIANT WakeSubset
PROPERTY NoLostWake
PROPERTY OnlyOwnerWrites
CHECK_DEADLOCK FALSE
