---------------------------- MODULE PlaceTrace ----------------------------
EXTENDS PlaceAbs, Json, IOUtils, TLC, Sequences
TraceLog == ndJsonDeserialize(IOEnv.TRACE)
VARIABLE l
tvars == <<vars, l>>
Rec == TraceLog[l]
Has == l <= Len(TraceLog)
Is(e) == Has /\ Rec.e = e
Adv == l' = l + 1
TInit == l = 1 /\ TLCSet(1, 0) /\ Init
TNext ==
    \/ Is("run") /\ RunPhase(Rec.exp, Rec.pool, Rec.w, Rec.tid, Rec.pika = 1, Rec.inline = 1, Rec.hint, Rec.prio) /\ Adv
    \/ Is("runstd") /\ RunStd(Rec.tid, Rec.pika = 1, Rec.inline = 1, Rec.stid) /\ Adv
    \/ Is("end") /\ Rec.runs = Rec.expected /\ UNCHANGED vars /\ Adv     \* nothing dropped or duplicated
    \/ Is("reset") /\ seenStd' = {} /\ UNCHANGED workerTids /\ Adv
TSpec == TInit /\ [][TNext]_tvars
NotAccepted == l <= Len(TraceLog)
TrackMax == IF l > TLCGet(1) THEN TLCSet(1, l) ELSE TRUE
PrintMax == PrintT(<<"MAXL", TLCGet(1)>>)
=============================================================================
