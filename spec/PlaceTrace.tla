---------------------------- MODULE PlaceTrace ----------------------------
EXTENDS PlaceAbs, Json, IOUtils, TLC, Sequences
TraceLog == ndJsonDeserialize(IOEnv.TRACE)
VARIABLE l
tvars == <<vars, l>>
Rec == TraceLog[l]
Has == l <= Len(TraceLog)
Is(e) == Has /\ Rec.e = e
Adv == l' = l + 1
TInit == l = 1 /\ TLCSet(1, 0) /\ Init
TNext ==
    \/ Is("run") /\ RunPhase(Rec.exp, Rec.pool, Rec.w, Rec.tid, Rec.pika = 1, Rec.inline = 1, Rec.hint, Rec.prio) /\ Adv
    \/ Is("runstd") /\ RunStd(Rec.tid, Rec.pika = 1, Rec.inline = 1, Rec.stid) /\ Adv
    \* end of a history.  C10 states WHERE a callable runs, not how often: a difference between the number of
    \* executions and of submissions (Rec.runs, Rec.expected) is C01's business and is reported as drift by the
    \* runner, not judged here
    \/ Is("end") /\ UNCHANGED vars /\ Adv
    \/ Is("reset") /\ seenStd' = {} /\ UNCHANGED workerTids /\ Adv
TSpec == TInit /\ [][TNext]_tvars
NotAccepted == l <= Len(TraceLog)
TrackMax == IF l > TLCGet(1) THEN TLCSet(1, l) ELSE TRUE
PrintMax == PrintT(<<"MAXL", TLCGet(1)>>)
=============================================================================
