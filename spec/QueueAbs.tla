------------------------------ MODULE QueueAbs ------------------------------
(* Sequential specifications of pika's work-distribution containers (property C17), used as the
   reference for linearizability checking of recorded concurrent histories.

     deque  : dq, left end = Head.    push_left/push_right/pop_left/pop_right
     ciq    : contiguous index queue, range [first,last): ipop_left returns first++, ipop_right --last
     mcq    : multi-producer FIFO (moodycamel): FIFO per producer, a dequeue may report "empty" only
              if the queue is empty or other operations are still in flight (not quiescent)
   A pop that finds nothing returns -1.  Call / Lin / Ret as everywhere.                       *)
EXTENDS Naturals, Integers, Sequences, FiniteSets

CONSTANTS Actor, Deviations
VARIABLES dq,        \* deque contents, left to right
          first, last, \* index queue range
          pq,        \* pq[a]: elements enqueued by producer a, oldest first
          op

vars == <<dq, first, last, pq, op>>
Idle == [kind |-> "none", v |-> 0, st |-> "idle", res |-> 0]

Init(f, l) ==
    /\ dq = <<>> /\ first = f /\ last = l
    /\ pq = [a \in Actor |-> <<>>]
    /\ op = [a \in Actor |-> Idle]

Call(a, kind, v) ==
    /\ op[a].st = "idle"
    /\ op' = [op EXCEPT ![a] = [kind |-> kind, v |-> v, st |-> "called", res |-> 0]]
    /\ UNCHANGED <<dq, first, last, pq>>

Done(a, r) == op' = [op EXCEPT ![a].st = "done", ![a].res = r]
Others(a) == \E b \in Actor \ {a} : op[b].st \in {"called"}

Lin(a) ==
    LET k == op[a].kind  v == op[a].v IN
    /\ op[a].st = "called"
    /\ \/ /\ k = "push_left"  /\ dq' = <<v>> \o dq /\ Done(a, 1) /\ UNCHANGED <<first, last, pq>>
       \/ /\ k = "push_right" /\ dq' = Append(dq, v) /\ Done(a, 1) /\ UNCHANGED <<first, last, pq>>
       \/ /\ k = "pop_left" /\ dq # <<>> /\ dq' = Tail(dq) /\ Done(a, Head(dq))
          /\ UNCHANGED <<first, last, pq>>
       \/ /\ k = "pop_right" /\ dq # <<>> /\ dq' = SubSeq(dq, 1, Len(dq) - 1) /\ Done(a, dq[Len(dq)])
          /\ UNCHANGED <<first, last, pq>>
       \/ /\ k \in {"pop_left", "pop_right"} /\ dq = <<>> /\ Done(a, -1)
          /\ UNCHANGED <<dq, first, last, pq>>
       \/ /\ k = "ipop_left" /\ first < last /\ first' = first + 1 /\ Done(a, first)
          /\ UNCHANGED <<dq, last, pq>>
       \/ /\ k = "ipop_right" /\ first < last /\ last' = last - 1 /\ Done(a, last - 1)
          /\ UNCHANGED <<dq, first, pq>>
       \/ /\ k \in {"ipop_left", "ipop_right"} /\ first >= last /\ Done(a, -1)
          /\ UNCHANGED <<dq, first, last, pq>>
       \/ /\ k = "enq" /\ pq' = [pq EXCEPT ![a] = Append(@, v)] /\ Done(a, 1)
          /\ UNCHANGED <<dq, first, last>>
       \/ /\ k = "deq" /\ \E p \in Actor : /\ pq[p] # <<>>
                                           /\ pq' = [pq EXCEPT ![p] = Tail(@)]
                                           /\ Done(a, Head(pq[p]))
          /\ UNCHANGED <<dq, first, last>>
       \/ /\ k = "deq" /\ ((\A p \in Actor : pq[p] = <<>>) \/ Others(a)) /\ Done(a, -1)
          /\ UNCHANGED <<dq, first, last, pq>>

Ret(a, r) ==
    /\ op[a].st = "done" /\ op[a].res = r
    /\ op' = [op EXCEPT ![a] = Idle]
    /\ UNCHANGED <<dq, first, last, pq>>

\* contents as a set (for the closed model's invariants)
Contents == {dq[i] : i \in 1..Len(dq)} \cup UNION {{pq[p][i] : i \in 1..Len(pq[p])} : p \in Actor}
NoDuplicates == Cardinality({i \in 1..Len(dq) : TRUE}) = Cardinality({dq[i] : i \in 1..Len(dq)})
=============================================================================
