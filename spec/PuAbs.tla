------------------------------ MODULE PuAbs ------------------------------
(* Abstract specification of suspending / resuming processing units and pools (property C19).
   One elastic or non-elastic pool with workers Worker; tasks are submitted to it with an optional
   worker hint.  Calls are Call / Lin / Ret.  A worker that is suspended runs nothing between the
   return of the suspend call and the invocation of the resume call; refused operations leave the
   pool unchanged; no task is dropped or duplicated: at the end (all workers resumed) every task
   ran exactly once.                                                                          *)
EXTENDS Naturals, Integers, FiniteSets
CONSTANTS Actor, Worker, Task
VARIABLES ws, elastic, ts, runs, op
vars == <<ws, elastic, ts, runs, op>>
Idle == [kind |-> "none", w |-> 0, st |-> "idle", res |-> 0]
Init(el) == /\ ws = [w \in Worker |-> "running"] /\ elastic = el
            /\ ts = [t \in Task |-> "none"] /\ runs = [t \in Task |-> 0]
            /\ op = [a \in Actor |-> Idle]
Call(a, kind, w) == /\ op[a].st = "idle"
                    /\ op' = [op EXCEPT ![a] = [kind |-> kind, w |-> w, st |-> "called", res |-> 0]]
                    /\ UNCHANGED <<ws, elastic, ts, runs>>
Done(a, r) == op' = [op EXCEPT ![a].st = "done", ![a].res = r]
Lin(a) ==
    LET k == op[a].kind  w == op[a].w IN
    /\ op[a].st = "called"
    /\ \/ /\ k = "suspend_pu" /\ elastic /\ ws' = [ws EXCEPT ![w] = "suspended"] /\ Done(a, 1)
       \/ /\ k = "suspend_pu" /\ ~elastic /\ Done(a, -1) /\ UNCHANGED ws         \* refused, pool unchanged
       \/ /\ k = "suspend_pu_self" /\ Done(a, -1) /\ UNCHANGED ws               \* a non-stealing pool suspending itself
       \/ /\ k = "resume_pu" /\ ws' = [ws EXCEPT ![w] = "running"] /\ Done(a, 1)
       \/ /\ k = "suspend_pool" /\ ws' = [x \in Worker |-> "suspended"] /\ Done(a, 1)
       \/ /\ k = "suspend_pool_self" /\ Done(a, -1) /\ UNCHANGED ws
       \/ /\ k = "resume_pool" /\ ws' = [x \in Worker |-> "running"] /\ Done(a, 1)
    /\ UNCHANGED <<elastic, ts, runs>>
\* resume takes effect from its invocation on (the worker may start before the call returns)
ResumeEarly(a) ==
    /\ op[a].st = "called" /\ op[a].kind \in {"resume_pu", "resume_pool"}
    /\ ws' = IF op[a].kind = "resume_pu" THEN [ws EXCEPT ![op[a].w] = "running"]
                                         ELSE [x \in Worker |-> "running"]
    /\ UNCHANGED <<elastic, ts, runs, op>>
Ret(a, r) == /\ op[a].st = "done" /\ op[a].res = r /\ op' = [op EXCEPT ![a] = Idle]
             /\ UNCHANGED <<ws, elastic, ts, runs>>
Submit(t) == ts[t] = "none" /\ ts' = [ts EXCEPT ![t] = "submitted"] /\ UNCHANGED <<ws, elastic, runs, op>>
\* a task body runs on worker w: only on a worker that is not suspended
Run(t, w) == /\ ts[t] = "submitted" /\ ws[w] = "running"
             /\ ts' = [ts EXCEPT ![t] = "done"] /\ runs' = [runs EXCEPT ![t] = @ + 1]
             /\ UNCHANGED <<ws, elastic, op>>
AllRanOnce == \A t \in Task : ts[t] # "none" => (ts[t] = "done" /\ runs[t] = 1)
\* "tasks continue to complete on the remaining workers": in a pool whose policy steals, work parked on
\* sleeping workers is taken over by the running ones, so a submitter that waits while at least one worker
\* runs eventually sees no outstanding task
NoneOutstanding == \A t \in Task : ts[t] # "submitted"
AllRunning == \A w \in Worker : ws[w] = "running"
=============================================================================
