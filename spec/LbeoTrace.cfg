SPECIFICATION TSpec
CONSTANTS
  Actor = {1,2,3,4,5,6,7}
INVARIANT NotAccepted
INVARIANT CompletionOncePerPhase
CONSTRAINT TrackMax
POSTCONDITION PrintMax
CHECK_DEADLOCK FALSE
