SPECIFICATION Spec
CONSTANTS
  Waiter = {1,2}
  Signaler = {11,12}
  D = 1
  Upper <- UpperDef
  Values <- ValuesDef3
  Variant = "signal_overwrites"
INVARIANTS Admitted QueueOk
PROPERTIES Progress
CHECK_DEADLOCK FALSE
