---- MODULE RwRequestImpl_TTrace_1790388757 ----
EXTENDS Sequences, TLCExt, Toolbox, RwRequestImpl, Naturals, TLC

_expression ==
    LET RwRequestImpl_TEExpression == INSTANCE RwRequestImpl_TEExpression
    IN RwRequestImpl_TEExpression!expression
----

_trace ==
    LET RwRequestImpl_TETrace == INSTANCE RwRequestImpl_TETrace
    IN RwRequestImpl_TETrace!trace
----

_inv ==
    ~(
        TLCGet("level") = Len(_TETrace)
        /\
        st = (<<0, 1>>)
        /\
        nreq = (1)
        /\
        succ = (<<0, 0, 0, 0, 0, 0>>)
        /\
        kind = (<<"R", "-", "-", "-", "-", "-">>)
        /\
        prev = (<<"R", "W">>)
        /\
        members = (<<{1}, {}, {}, {}, {}, {}>>)
        /\
        reqkind = (<<"R">>)
        /\
        ngroups = (1)
    )
----

_init ==
    /\ succ = _TETrace[1].succ
    /\ st = _TETrace[1].st
    /\ ngroups = _TETrace[1].ngroups
    /\ prev = _TETrace[1].prev
    /\ nreq = _TETrace[1].nreq
    /\ reqkind = _TETrace[1].reqkind
    /\ kind = _TETrace[1].kind
    /\ members = _TETrace[1].members
----

_next ==
    /\ \E i,j \in DOMAIN _TETrace:
        /\ \/ /\ j = i + 1
              /\ i = TLCGet("level")
        /\ succ  = _TETrace[i].succ
        /\ succ' = _TETrace[j].succ
        /\ st  = _TETrace[i].st
        /\ st' = _TETrace[j].st
        /\ ngroups  = _TETrace[i].ngroups
        /\ ngroups' = _TETrace[j].ngroups
        /\ prev  = _TETrace[i].prev
        /\ prev' = _TETrace[j].prev
        /\ nreq  = _TETrace[i].nreq
        /\ nreq' = _TETrace[j].nreq
        /\ reqkind  = _TETrace[i].reqkind
        /\ reqkind' = _TETrace[j].reqkind
        /\ kind  = _TETrace[i].kind
        /\ kind' = _TETrace[j].kind
        /\ members  = _TETrace[i].members
        /\ members' = _TETrace[j].members

\* Uncomment the ASSUME below to write the states of the error trace
\* to the given file in Json format. Note that you can pass any tuple
\* to `JsonSerialize`. For example, a sub-sequence of _TETrace.
    \* ASSUME
    \*     LET J == INSTANCE Json
    \*         IN J!JsonSerialize("RwRequestImpl_TTrace_1790388757.json", _TETrace)

=============================================================================

 Note that you can extract this module `RwRequestImpl_TEExpression`
  to a dedicated file to reuse `expression` (the module in the 
  dedicated `RwRequestImpl_TEExpression.tla` file takes precedence 
  over the module `RwRequestImpl_TEExpression` below).

---- MODULE RwRequestImpl_TEExpression ----
EXTENDS Sequences, TLCExt, Toolbox, RwRequestImpl, Naturals, TLC

expression == 
    [
        \* To hide variables of the `RwRequestImpl` spec from the error trace,
        \* remove the variables below.  The trace will be written in the order
        \* of the fields of this record.
        succ |-> succ
        ,st |-> st
        ,ngroups |-> ngroups
        ,prev |-> prev
        ,nreq |-> nreq
        ,reqkind |-> reqkind
        ,kind |-> kind
        ,members |-> members
        
        \* Put additional constant-, state-, and action-level expressions here:
        \* ,_stateNumber |-> _TEPosition
        \* ,_succUnchanged |-> succ = succ'
        
        \* Format the `succ` variable as Json value.
        \* ,_succJson |->
        \*     LET J == INSTANCE Json
        \*     IN J!ToJson(succ)
        
        \* Lastly, you may build expressions over arbitrary sets of states by
        \* leveraging the _TETrace operator.  For example, this is how to
        \* count the number of times a spec variable changed up to the current
        \* state in the trace.
        \* ,_succModCount |->
        \*     LET F[s \in DOMAIN _TETrace] ==
        \*         IF s = 1 THEN 0
        \*         ELSE IF _TETrace[s].succ # _TETrace[s-1].succ
        \*             THEN 1 + F[s-1] ELSE F[s-1]
        \*     IN F[_TEPosition - 1]
    ]

=============================================================================



Parsing and semantic processing can take forever if the trace below is long.
 In this case, it is advised to uncomment the module below to deserialize the
 trace from a generated binary file.

\*
\*---- MODULE RwRequestImpl_TETrace ----
\*EXTENDS IOUtils, RwRequestImpl, TLC
\*
\*trace == IODeserialize("RwRequestImpl_TTrace_1790388757.bin", TRUE)
\*
\*=============================================================================
\*

---- MODULE RwRequestImpl_TETrace ----
EXTENDS RwRequestImpl, TLC

trace == 
    <<
    ([st |-> <<0, 0>>,nreq |-> 0,succ |-> <<0, 0, 0, 0, 0, 0>>,kind |-> <<"-", "-", "-", "-", "-", "-">>,prev |-> <<"W", "W">>,members |-> <<{}, {}, {}, {}, {}, {}>>,reqkind |-> <<>>,ngroups |-> 0]),
    ([st |-> <<1, 0>>,nreq |-> 1,succ |-> <<0, 0, 0, 0, 0, 0>>,kind |-> <<"R", "-", "-", "-", "-", "-">>,prev |-> <<"R", "W">>,members |-> <<{1}, {}, {}, {}, {}, {}>>,reqkind |-> <<"R">>,ngroups |-> 1]),
    ([st |-> <<0, 1>>,nreq |-> 1,succ |-> <<0, 0, 0, 0, 0, 0>>,kind |-> <<"R", "-", "-", "-", "-", "-">>,prev |-> <<"R", "W">>,members |-> <<{1}, {}, {}, {}, {}, {}>>,reqkind |-> <<"R">>,ngroups |-> 1])
    >>
----


=============================================================================

---- CONFIG RwRequestImpl_TTrace_1790388757 ----
CONSTANTS
    Obj = { 1 , 2 }
    MaxReq = 6
    MaxGroups = 6
    Variant = "move_keeps_prev_access"

INVARIANT
    _inv

CHECK_DEADLOCK
    \* CHECK_DEADLOCK off because of PROPERTY or INVARIANT above.
    FALSE

INIT
    _init

NEXT
    _next

CONSTANT
    _TETrace <- _trace

ALIAS
    _expression
=============================================================================
\* Generated on Sat Sep 26 02:12:38 UTC 2026