---------------------------- MODULE ActivityImplMC ----------------------------
EXTENDS ActivityImpl
ParentFn == <<0, 1, 0, 2>>      \* 1 and 3 are roots, 2 is a child of 1, 4 a child of 2
=============================================================================
