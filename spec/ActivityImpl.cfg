SPECIFICATION Spec
CONSTANTS
  Task = {1,2,3,4}
  Roots = {1,3}
  Parent <- ParentFn
  Variant = "ok"
INVARIANT WaitPost
INVARIANT CountNonNeg
CHECK_DEADLOCK FALSE
