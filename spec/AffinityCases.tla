---------------------------- MODULE AffinityCases ----------------------------
(* Enumerates the configuration space of C15 for the conformance run; TLC prints every case as JSON. *)
EXTENDS AffinityAbs, TLC, Json
CONSTANTS Topologies, Binds, MaxMaskPus, Stride
VARIABLE cfg
Masks(t) == IF t[1] * t[2] * t[3] <= MaxMaskPus
              THEN (SUBSET (0..(t[1] * t[2] * t[3] - 1))) \ {{}}
              ELSE \* larger machines: contiguous windows and strided masks only
                   LET N == t[1] * t[2] * t[3] IN
                   (({a..b : a \in 0..(N - 1), b \in 0..(N - 1)} \ {{}})
                    \cup {{x \in 0..(N - 1) : x % 2 = r} : r \in 0..1})
Cases == { [s |-> t[1], c |-> t[2], p |-> t[3], mask |-> m, threads |-> th, n |-> k, bind |-> b, second |-> sp] :
             t \in Topologies, m \in UNION {Masks(t2) : t2 \in Topologies}, th \in {"n", "cores", "all"},
             k \in 0..13, b \in Binds, sp \in 0..1 }
Valid(x) == /\ x.mask \subseteq 0..(NPU(x) - 1) /\ x.mask # {}
            /\ x.mask \in Masks(<<x.s, x.c, x.p>>)
            /\ IF x.threads = "n" THEN x.n \in 1..(Cardinality(x.mask) + 1) ELSE x.n = 0
            /\ x.second = 1 => (x.threads = "n" /\ x.n >= 2 /\ x.n <= Cardinality(x.mask))
Init == cfg \in {x \in Cases : Valid(x)}
Next == UNCHANGED cfg
Spec == Init /\ [][Next]_cfg
\* sampling: a hash of the case decides whether it is printed (Stride = 1 prints everything)
Hash(x) == (x.s * 7 + x.c * 13 + x.p * 31 + Cardinality(x.mask) * 17 + x.n * 5 + x.second * 3
            + (IF x.bind = "balanced" THEN 1 ELSE IF x.bind = "compact" THEN 2 ELSE IF x.bind = "scatter" THEN 3
               ELSE IF x.bind = "numa-balanced" THEN 4 ELSE 5)
            + (CHOOSE v \in x.mask : \A w \in x.mask : v <= w) * 11
            + (CHOOSE v \in x.mask : \A w \in x.mask : v >= w) * 19) % Stride
\* always selected: hardware threads > 1 per core, a process mask with holes, and more workers than cores in
\* the mask (the decoders have to make several passes over partially usable cores)
Hard(x) == /\ x.p >= 2 /\ x.second = 0
           /\ \E v \in (CHOOSE a \in x.mask : \A w \in x.mask : a <= w)..(CHOOSE a \in x.mask : \A w \in x.mask : a >= w) : v \notin x.mask
           /\ (x.threads = "all" \/ (x.threads = "n" /\ x.n > Cardinality({v \div x.p : v \in x.mask})
                                                     /\ x.n <= Cardinality(x.mask)))
Emit == (Hash(cfg) = 0 \/ Hard(cfg)) => PrintT(<<"CASE", ToJson([s |-> cfg.s, c |-> cfg.c, p |-> cfg.p,
            mask |-> cfg.mask, threads |-> cfg.threads, n |-> cfg.n, bind |-> cfg.bind, second |-> cfg.second])>>)
=============================================================================
