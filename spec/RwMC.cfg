SPECIFICATION MCSpec
CONSTANTS
  MaxAcc = 4
INVARIANT Exclusive
INVARIANT WAlone
PROPERTY Progress
CHECK_DEADLOCK FALSE
