---------------------------- MODULE AffinityTrace ----------------------------
(* Every record = one configuration together with what the live runtime reported; it must satisfy
   AffinityAbs!Accept. *)
EXTENDS AffinityAbs, Json, IOUtils, TLC
TraceLog == ndJsonDeserialize(IOEnv.TRACE)
VARIABLE l
Rec == TraceLog[l]
Has == l <= Len(TraceLog)
Cfg(r) == [s |-> r.s, c |-> r.c, p |-> r.p, mask |-> SetOf(r.mask), threads |-> r.threads, n |-> r.n,
           bind |-> r.bind, second |-> r.second]
TInit == l = 1 /\ TLCSet(1, 0)
TNext == \/ Has /\ Rec.e = "case" /\ Accept(Cfg(Rec), Rec.out) /\ l' = l + 1
         \/ Has /\ Rec.e = "reset" /\ l' = l + 1
TSpec == TInit /\ [][TNext]_l
NotAccepted == l <= Len(TraceLog)
TrackMax == IF l > TLCGet(1) THEN TLCSet(1, l) ELSE TRUE
PrintMax == PrintT(<<"MAXL", TLCGet(1)>>)
=============================================================================
