------------------------------- MODULE CvImpl -------------------------------
(* Fine-grained model of pika::condition_variable / condition_variable_any
   (include/pika/synchronization/condition_variable.hpp) on top of pika::detail::condition_variable,
   property C07.

   A user lock `ul`, the condition variable's internal spinlock `il`, the queue of waiting agents, a
   predicate flag protected by the user lock, and a stop request.
     wait(lock, pred):  while !pred():  take il;  release ul;  enqueue;  release il;  suspend;
                                        take il; leave the queue; release il;  take ul
     wait(lock, stoken, pred):  if stop: return pred();  register callback {take il; notify_all};
                        while !pred(): take il; if stop: release il, return false;
                                       release ul; enqueue; release il; suspend; ... take ul
     notifier:          take ul; flag := TRUE; release ul;  take il; notify_all (pop + resume all); release il
                        (NotifyLocked notifiers call notify while still holding ul)
     stop requester:    stop := TRUE;  then the registered callbacks run: take il; notify_all; release il
   Wake tokens as in MutexImpl (a resume that precedes the suspend is not lost: C02).

   Variants:
     "ul_before_il"         wait releases the user lock BEFORE taking the internal lock: a notifier can set
                            the flag and notify in the gap, the waiter then enqueues and sleeps forever
     "stop_before_il"       the stop-token wait tests stop_requested() before taking the internal lock
                            (seeded change C07-1): the stop callback's notify_all can fall into the gap  *)
EXTENDS Naturals, Sequences, FiniteSets
CONSTANTS Waiter, StopWaiter, Notifier, NotifyLocked, StopReq, Variant, None
AllWaiters == Waiter \cup StopWaiter
Thread == AllWaiters \cup Notifier \cup StopReq
ASSUME NotifyLocked \subseteq Notifier

VARIABLES ul, il, queue, token, flag, stop, cbreg, pc, res
vars == <<ul, il, queue, token, flag, stop, cbreg, pc, res>>
Init == /\ ul = None /\ il = None /\ queue = <<>> /\ token = [t \in AllWaiters |-> FALSE]
        /\ flag = FALSE /\ stop = FALSE /\ cbreg = {}
        /\ pc = [t \in Thread |-> "start"] /\ res = [t \in AllWaiters |-> "none"]
Without(s, t) == SelectSeq(s, LAMBDA x : x # t)
Goto(t, p) == pc' = [pc EXCEPT ![t] = p]
Wake(S) == token' = [t \in AllWaiters |-> token[t] \/ t \in S]
Elems(s) == {s[i] : i \in 1..Len(s)}

(* ------------------------------ waiters ------------------------------ *)
WLockUser(t) ==   \* initial lock and re-acquisition after a wait
    /\ t \in AllWaiters /\ pc[t] \in {"start", "reul"} /\ ul = None /\ ul' = t
    /\ Goto(t, IF pc[t] = "start" /\ t \in StopWaiter THEN "precheck" ELSE "pred")
    /\ UNCHANGED <<il, queue, token, flag, stop, cbreg, res>>
WPreCheck(t) ==   \* stop-token form: early out, else register the callback
    /\ pc[t] = "precheck"
    /\ IF stop THEN /\ res' = [res EXCEPT ![t] = IF flag THEN "true" ELSE "false"] /\ ul' = None
                    /\ Goto(t, "done") /\ UNCHANGED cbreg
               ELSE cbreg' = cbreg \cup {t} /\ Goto(t, "pred") /\ UNCHANGED <<res, ul>>
    /\ UNCHANGED <<il, queue, token, flag, stop>>
WPred(t) ==
    /\ pc[t] = "pred" /\ ul = t
    /\ IF flag THEN res' = [res EXCEPT ![t] = "true"] /\ ul' = None /\ Goto(t, "done")
       ELSE IF Variant = "ul_before_il" THEN ul' = None /\ Goto(t, "takeil") /\ UNCHANGED res
       ELSE IF Variant = "stop_before_il" /\ t \in StopWaiter /\ stop
               THEN res' = [res EXCEPT ![t] = "false"] /\ ul' = None /\ Goto(t, "done")
       ELSE Goto(t, "takeil") /\ UNCHANGED <<res, ul>>
    /\ UNCHANGED <<il, queue, token, flag, stop, cbreg>>
WTakeIl(t) ==
    /\ pc[t] = "takeil" /\ il = None /\ il' = t /\ Goto(t, "enq")
    /\ UNCHANGED <<ul, queue, token, flag, stop, cbreg, res>>
WEnq(t) ==        \* under il: (stop check,) release the user lock, enqueue, release il
    /\ pc[t] = "enq" /\ il = t
    /\ IF t \in StopWaiter /\ stop /\ Variant # "stop_before_il"
          THEN /\ res' = [res EXCEPT ![t] = "false"] /\ il' = None
               /\ ul' = (IF ul = t THEN None ELSE ul) /\ Goto(t, "done") /\ UNCHANGED queue
          ELSE /\ ul' = (IF ul = t THEN None ELSE ul) /\ queue' = Append(queue, t) /\ il' = None
               /\ Goto(t, "suspend") /\ UNCHANGED res
    /\ UNCHANGED <<token, flag, stop, cbreg>>
WSuspend(t) ==
    /\ pc[t] = "suspend" /\ token[t] /\ token' = [token EXCEPT ![t] = FALSE] /\ Goto(t, "woken")
    /\ UNCHANGED <<ul, il, queue, flag, stop, cbreg, res>>
WWoken(t) ==      \* take il, leave the queue, release il (one atomic section under il)
    /\ pc[t] = "woken" /\ il = None /\ queue' = Without(queue, t) /\ Goto(t, "reul")
    /\ UNCHANGED <<ul, il, token, flag, stop, cbreg, res>>

(* ------------------------------ notifiers ------------------------------ *)
NLock(n) == /\ n \in Notifier /\ pc[n] = "start" /\ ul = None /\ ul' = n /\ Goto(n, "set")
            /\ UNCHANGED <<il, queue, token, flag, stop, cbreg, res>>
NSet(n) == /\ pc[n] = "set" /\ ul = n /\ flag' = TRUE
           /\ IF n \in NotifyLocked THEN Goto(n, "notify") /\ UNCHANGED ul ELSE ul' = None /\ Goto(n, "notify")
           /\ UNCHANGED <<il, queue, token, stop, cbreg, res>>
NNotify(n) ==     \* take il, notify_all, release il
    /\ pc[n] = "notify" /\ il = None
    /\ Wake(Elems(queue)) /\ queue' = <<>>
    /\ ul' = (IF ul = n THEN None ELSE ul) /\ Goto(n, "done")
    /\ UNCHANGED <<il, flag, stop, cbreg, res>>

(* ------------------------------ stop requester ------------------------------ *)
SRequest(q) == /\ q \in StopReq /\ pc[q] = "start" /\ stop' = TRUE /\ Goto(q, "callbacks")
               /\ UNCHANGED <<ul, il, queue, token, flag, cbreg, res>>
SCallbacks(q) ==  \* every registered callback: take il; notify_all; release il
    /\ pc[q] = "callbacks" /\ il = None
    /\ IF cbreg # {} THEN Wake(Elems(queue)) /\ queue' = <<>> ELSE UNCHANGED <<token, queue>>
    /\ Goto(q, "done")
    /\ UNCHANGED <<ul, il, flag, stop, cbreg, res>>

Step(t) == WLockUser(t) \/ WPreCheck(t) \/ WPred(t) \/ WTakeIl(t) \/ WEnq(t) \/ WSuspend(t) \/ WWoken(t)
           \/ NLock(t) \/ NSet(t) \/ NNotify(t) \/ SRequest(t) \/ SCallbacks(t)
Next == \E t \in Thread : Step(t)
Spec == Init /\ [][Next]_vars /\ \A t \in Thread : WF_vars(Step(t))

\* no notification is lost: once all notifiers / stop requesters are done nobody who is owed a wake-up sleeps
NoLostNotification ==
    ~(/\ \A n \in Notifier \cup StopReq : pc[n] = "done"
      /\ \E t \in AllWaiters : /\ pc[t] = "suspend" /\ ~token[t]
                               /\ (flag \/ (t \in StopWaiter /\ stop)))
\* predicate forms return the value of the predicate; a stop wait returns false only after a stop request
ResultOk == \A t \in AllWaiters : /\ res[t] = "true" => flag
                                  /\ res[t] = "false" => (t \in StopWaiter /\ stop)
\* wait returns with the user lock released by the caller afterwards: nobody finishes holding it
Terminates == <>(\A t \in Thread : pc[t] = "done")
=============================================================================
