SPECIFICATION Spec
CONSTANTS
  Locker = {l1, l2}
  Timed = {t1}
  Rounds = 2
  Variant = "ok"
  None = None
PROPERTY Refines
CHECK_DEADLOCK FALSE
