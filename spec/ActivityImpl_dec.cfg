SPECIFICATION Spec
CONSTANTS
  Task = {1,2,3,4}
  Roots = {1,3}
  Parent <- ParentFn
  Variant = "dec_before_done"
INVARIANT WaitPost
INVARIANT CountNonNeg
CHECK_DEADLOCK FALSE
