SPECIFICATION Spec
CONSTANTS
  Req = {r1}
  Cb = {c1, c2}
  SelfDestroy = {}
  KeepAlive = {c1, c2}
  Variant = "no_recheck"
  None = None
INVARIANT EveryCallbackAccountedFor
CHECK_DEADLOCK FALSE
