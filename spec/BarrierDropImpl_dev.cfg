SPECIFICATION Spec
CONSTANTS
  P = 3
  Phases = 3
  Variant = "drop_after_arrive"
  Dropper = {3}
  DropAt = 0
INVARIANT NoEarlyDeparture
INVARIANT CompletionOnce
PROPERTY AllPhasesDone
CHECK_DEADLOCK FALSE
