SPECIFICATION Spec
CONSTANTS
  MaxN = 72
  MaxW = 4
  Bits = 0
INVARIANT Partition
INVARIANT LoopBounded
PROPERTY Terminates
CHECK_DEADLOCK FALSE
