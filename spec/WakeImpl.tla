------------------------------ MODULE WakeImpl ------------------------------
(* Fine-grained model of pika's suspend / resume hand-off (property C02, shared with C01).

   One target task T with the thread state word <<state, tag>> (thread_data::current_state_), a run
   queue that may hold several entries for T, Workers executing scheduling_loop, one waker per
   wait round executing set_thread_state(T, pending), and helper tasks executing
   set_active_state ("set state for active thread").

   T's body performs Rounds waits.  Each wait is the generic blocking shape used by every pika
   facility:  register as waiter under the facility's lock (atomic here) -> release the lock ->
   return `suspended` to the worker (do_yield) -> the worker stores `suspended` into the word.
   Waker i may start as soon as registration i exists - in particular before the worker has stored
   `suspended` (the resume-before-suspend window).

   scheduling_loop (per worker):  pop; load word; if pending: CAS(word -> <<active, tag+1>>)
   (set_state_tagged), fail => skip; run the phase; CAS(<<active,t>> -> <<next, t+1>>)
   (switch_status::store_state), fail => skip; if next = pending: requeue.
   set_thread_state(T, pending, retry_on_active = true):
       loop: prev := load; pending => return; terminated => return;
             active => create helper(prev), return;
             suspended => CAS(prev -> <<pending, tag+1>>) (restore_state); fail => loop;
                          success => schedule_thread(T)
   set_active_state(prev): cur := load;
       abort iff cur.state = prev.state /\ cur # prev   (target was non-active in between);
       else set_thread_state(T, pending, retry_on_active = true) again.

   Variant selects deliberately broken protocols (to show the model is sensitive to the mechanism
   the property names); "ok" is the code as written.                                          *)
EXTENDS Naturals, Integers, FiniteSets, Sequences

CONSTANTS Worker, Rounds, MaxHelpers, Variant,
          DupRounds   \* rounds that get a second, independent wake-up (a timer racing the notifier)
ASSUME Variant \in {"ok", "abort_if_still_active", "abort_never_retry", "no_tag_on_wake",
                    "worker_ignores_cas", "cas_ignores_snapshot"}

VARIABLES word,      \* [st, tag]
          queue,     \* number of run-queue entries referring to T
          wpc, wseen, worig, wnext,   \* per worker
          tpc,       \* T's position inside its body while it runs: "start","registered","yield","exit"
          round,     \* current wait round of T (1..Rounds), Rounds+1 when finished
          regs,      \* registrations not yet popped by their waker
          kpc, kprev,            \* waker i (one per round)
          hpc, hprev, hseen,     \* helper slots
          everReg,   \* rounds that have been registered at some point
          due,       \* rounds whose wake-up has been issued (registration popped)
          resumed,   \* rounds from whose wait T has been resumed
          entered    \* how many times T's body was entered from the start
vars == <<word, queue, wpc, wseen, worig, wnext, tpc, round, regs, kpc, kprev, hpc, hprev, hseen,
          everReg, everReg, due, resumed, entered>>

Helper == 1..MaxHelpers
Round == 1..Rounds
\* wakers: 1..Rounds are the notifiers (they pop the registration); Rounds + r is the duplicate
\* (timer) waker of round r
Waker == Round \cup {Rounds + r : r \in DupRounds}
TargetRound(k) == IF k <= Rounds THEN k ELSE k - Rounds
W(s, t) == [st |-> s, tag |-> t]

Init ==
    /\ word = W("pending", 0) /\ queue = 1
    /\ wpc = [w \in Worker |-> "idle"] /\ wseen = [w \in Worker |-> W("pending", 0)]
    /\ worig = [w \in Worker |-> W("pending", 0)] /\ wnext = [w \in Worker |-> "pending"]
    /\ tpc = "start" /\ round = 1 /\ regs = {}
    /\ kpc = [i \in Waker |-> "wait"] /\ kprev = [i \in Waker |-> W("pending", 0)]
    /\ hpc = [h \in Helper |-> "free"] /\ hprev = [h \in Helper |-> W("pending", 0)]
    /\ hseen = [h \in Helper |-> W("pending", 0)]
    /\ everReg = {} /\ due = {} /\ resumed = {} /\ entered = 0

Running(w) == wpc[w] = "running"

(* ------------------------------- worker ------------------------------- *)
WPop(w) ==
    /\ wpc[w] = "idle" /\ queue > 0
    /\ queue' = queue - 1
    /\ wseen' = [wseen EXCEPT ![w] = word]
    /\ wpc' = [wpc EXCEPT ![w] = "loaded"]
    /\ UNCHANGED <<word, worig, wnext, tpc, round, regs, kpc, kprev, hpc, hprev, hseen, everReg, due, resumed, entered>>

WActivate(w) ==
    /\ wpc[w] = "loaded"
    /\ IF wseen[w].st = "pending"
          THEN IF word = wseen[w] \/ Variant = "worker_ignores_cas"
                  THEN /\ word' = W("active", word.tag + 1)
                       /\ worig' = [worig EXCEPT ![w] = W("active", word.tag + 1)]
                       /\ wpc' = [wpc EXCEPT ![w] = "running"]
                       /\ entered' = IF tpc = "start" THEN entered + 1 ELSE entered
                       /\ resumed' = IF tpc = "yield" THEN resumed \cup {round} ELSE resumed
                       /\ tpc' = IF tpc = "yield" THEN "resumed" ELSE tpc
                       /\ UNCHANGED queue
                  ELSE /\ wpc' = [wpc EXCEPT ![w] = "idle"]      \* "no execution"
                       /\ UNCHANGED <<word, worig, entered, resumed, tpc, queue>>
          ELSE IF wseen[w].st = "active"
                  THEN /\ queue' = queue + 1                     \* "rescheduling"
                       /\ wpc' = [wpc EXCEPT ![w] = "idle"]
                       /\ UNCHANGED <<word, worig, entered, resumed, tpc>>
                  ELSE /\ wpc' = [wpc EXCEPT ![w] = "idle"]      \* suspended / terminated: drop
                       /\ UNCHANGED <<word, worig, entered, resumed, tpc, queue>>
    /\ UNCHANGED <<wseen, wnext, round, regs, kpc, kprev, hpc, hprev, hseen, everReg, due>>

(* T's body, executed by the worker that activated it.  After a resume T looks at its wait entry: if
   the notifier has popped it (round \in due) the wait is over; otherwise the resume was spurious
   (a stale or duplicate wake-up) and T suspends again on the same registration. *)
TStep(w) ==
    /\ Running(w)
    /\ \/ /\ tpc = "resumed" /\ round \notin due          \* spurious: wait again
          /\ tpc' = "registered"
          /\ UNCHANGED <<round, regs, everReg, wpc, wnext>>
       \/ /\ (tpc = "start" \/ (tpc = "resumed" /\ round \in due))
          /\ IF (tpc = "start" /\ round <= Rounds) \/ (tpc = "resumed" /\ round < Rounds)
                THEN \* next wait: register under the facility's lock, then unlock
                     LET r == IF tpc = "resumed" THEN round + 1 ELSE round IN
                     /\ round' = r
                     /\ regs' = regs \cup {r} /\ everReg' = everReg \cup {r}
                     /\ tpc' = "registered"
                     /\ UNCHANGED <<wpc, wnext>>
                ELSE \* body finished
                     /\ round' = Rounds + 1
                     /\ tpc' = "exit"
                     /\ wnext' = [wnext EXCEPT ![w] = "terminated"]
                     /\ wpc' = [wpc EXCEPT ![w] = "store"]
                     /\ UNCHANGED <<regs, everReg>>
       \/ /\ tpc = "registered"                     \* do_yield(suspended): switch back to the worker
          /\ tpc' = "yield"
          /\ wnext' = [wnext EXCEPT ![w] = "suspended"]
          /\ wpc' = [wpc EXCEPT ![w] = "store"]
          /\ UNCHANGED <<round, regs, everReg>>
    /\ UNCHANGED <<word, queue, wseen, worig, kpc, kprev, hpc, hprev, hseen, due, resumed, entered>>

WStore(w) ==
    /\ wpc[w] = "store"
    /\ IF word = worig[w]
          THEN /\ word' = W(wnext[w], word.tag + 1)
               /\ queue' = IF wnext[w] = "pending" THEN queue + 1 ELSE queue
          ELSE UNCHANGED <<word, queue>>           \* "no state change"
    /\ wpc' = [wpc EXCEPT ![w] = "idle"]
    /\ UNCHANGED <<wseen, worig, wnext, tpc, round, regs, kpc, kprev, hpc, hprev, hseen, everReg, due, resumed, entered>>

(* --------------------- set_thread_state, shared by wakers and helpers --------------------- *)
FreeHelper == {h \in Helper : hpc[h] = "free"}

(* ------------------------------- waker i ------------------------------- *)
KPop(i) ==
    /\ kpc[i] = "wait"
    /\ IF i <= Rounds
          THEN i \in regs /\ regs' = regs \ {i} /\ due' = due \cup {i}
          ELSE TargetRound(i) \in everReg /\ UNCHANGED <<regs, due>>   \* timer: no pop
    /\ kpc' = [kpc EXCEPT ![i] = "load"]
    /\ UNCHANGED <<word, queue, wpc, wseen, worig, wnext, tpc, round, kprev, hpc, hprev, hseen, everReg, resumed, entered>>

KLoad(i) ==
    /\ kpc[i] = "load"
    /\ kprev' = [kprev EXCEPT ![i] = word]
    /\ IF word.st \in {"pending", "terminated"}
          THEN kpc' = [kpc EXCEPT ![i] = "done"] /\ UNCHANGED <<hpc, hprev>>
          ELSE IF word.st = "active"
                  THEN /\ FreeHelper # {}
                       /\ LET h == CHOOSE x \in FreeHelper : TRUE IN
                             /\ hpc' = [hpc EXCEPT ![h] = "check"]
                             /\ hprev' = [hprev EXCEPT ![h] = word]
                       /\ kpc' = [kpc EXCEPT ![i] = "done"]
                  ELSE kpc' = [kpc EXCEPT ![i] = "cas"] /\ UNCHANGED <<hpc, hprev>>
    /\ UNCHANGED <<word, queue, wpc, wseen, worig, wnext, tpc, round, regs, hseen, everReg, due, resumed, entered>>

WakeTag(t) == IF Variant = "no_tag_on_wake" THEN t ELSE t + 1

\* "cas_ignores_snapshot": restore_state compares against the freshly loaded word instead of the caller's
\* checked snapshot, so the exchange always succeeds (seeded change C01-3)
KCas(i) ==
    /\ kpc[i] = "cas"
    /\ IF word = kprev[i] \/ Variant = "cas_ignores_snapshot"
          THEN word' = W("pending", WakeTag(word.tag)) /\ kpc' = [kpc EXCEPT ![i] = "sched"]
          ELSE UNCHANGED word /\ kpc' = [kpc EXCEPT ![i] = "load"]
    /\ UNCHANGED <<queue, wpc, wseen, worig, wnext, tpc, round, regs, kprev, hpc, hprev, hseen, everReg, due, resumed, entered>>

KSched(i) ==
    /\ kpc[i] = "sched"
    /\ queue' = queue + 1
    /\ kpc' = [kpc EXCEPT ![i] = "done"]
    /\ UNCHANGED <<word, wpc, wseen, worig, wnext, tpc, round, regs, kprev, hpc, hprev, hseen, everReg, due, resumed, entered>>

(* ------------------------------- helper h ------------------------------- *)
HAbortCond(h) ==
    CASE Variant = "abort_if_still_active" -> word.st = hprev[h].st
      [] OTHER -> word.st = hprev[h].st /\ word # hprev[h]

HCheck(h) ==
    /\ hpc[h] = "check"
    /\ IF HAbortCond(h) \/ Variant = "abort_never_retry"
          THEN hpc' = [hpc EXCEPT ![h] = "free"]
          ELSE hpc' = [hpc EXCEPT ![h] = "load"]
    /\ UNCHANGED <<word, queue, wpc, wseen, worig, wnext, tpc, round, regs, kpc, kprev, hprev, hseen, everReg, due, resumed, entered>>

HLoad(h) ==
    /\ hpc[h] = "load"
    /\ hseen' = [hseen EXCEPT ![h] = word]
    /\ IF word.st \in {"pending", "terminated"}
          THEN hpc' = [hpc EXCEPT ![h] = "free"] /\ UNCHANGED hprev
          ELSE IF word.st = "active"
                  THEN \* schedule a new helper (re-use this slot: the old one terminates)
                       hpc' = [hpc EXCEPT ![h] = "check"] /\ hprev' = [hprev EXCEPT ![h] = word]
                  ELSE hpc' = [hpc EXCEPT ![h] = "cas"] /\ UNCHANGED hprev
    /\ UNCHANGED <<word, queue, wpc, wseen, worig, wnext, tpc, round, regs, kpc, kprev, everReg, due, resumed, entered>>

HCas(h) ==
    /\ hpc[h] = "cas"
    /\ IF word = hseen[h]
          THEN word' = W("pending", WakeTag(word.tag)) /\ hpc' = [hpc EXCEPT ![h] = "sched"]
          ELSE UNCHANGED word /\ hpc' = [hpc EXCEPT ![h] = "load"]
    /\ UNCHANGED <<queue, wpc, wseen, worig, wnext, tpc, round, regs, kpc, kprev, hprev, hseen, everReg, due, resumed, entered>>

HSched(h) ==
    /\ hpc[h] = "sched"
    /\ queue' = queue + 1
    /\ hpc' = [hpc EXCEPT ![h] = "free"]
    /\ UNCHANGED <<word, wpc, wseen, worig, wnext, tpc, round, regs, kpc, kprev, hprev, hseen, everReg, due, resumed, entered>>

Next ==
    \/ \E w \in Worker : WPop(w) \/ WActivate(w) \/ TStep(w) \/ WStore(w)
    \/ \E i \in Waker : KPop(i) \/ KLoad(i) \/ KCas(i) \/ KSched(i)
    \/ \E h \in Helper : HCheck(h) \/ HLoad(h) \/ HCas(h) \/ HSched(h)

Fairness ==
    /\ \A w \in Worker : WF_vars(WPop(w) \/ WActivate(w) \/ TStep(w) \/ WStore(w))
    /\ \A i \in Waker : WF_vars(KPop(i) \/ KLoad(i) \/ KCas(i) \/ KSched(i))
    /\ \A h \in Helper : WF_vars(HCheck(h) \/ HLoad(h) \/ HCas(h) \/ HSched(h))

Spec == Init /\ [][Next]_vars /\ Fairness

(* ------------------------------- properties ------------------------------- *)
\* the same task is never executing on two workers
SingleRunner == Cardinality({w \in Worker : wpc[w] \in {"running", "store"}}) <= 1
\* body entered at most once
EnteredOnce == entered <= 1
\* quiescent: nothing queued, all workers idle, wakers and helpers have nothing left to do
Quiescent ==
    /\ queue = 0
    /\ \A w \in Worker : wpc[w] = "idle"
    /\ \A i \in Waker : kpc[i] = "done" \/ (kpc[i] = "wait" /\ ~ENABLED KPop(i))
    /\ \A h \in Helper : hpc[h] = "free"
\* never quiescent with a suspended task whose wake-up has been issued
NoLostWake == ~(Quiescent /\ word.st = "suspended" /\ (due \ resumed) # {})
\* each issued wake-up resumes the task, and the task runs to completion
Terminates == <>(word.st = "terminated")
\* (spurious resumes are legal, so `resumed \subseteq due` is NOT required)
=============================================================================
