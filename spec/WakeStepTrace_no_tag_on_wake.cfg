SPECIFICATION TSpec
CONSTANTS
  Worker = {0, 1, 2, 3}
  Rounds = 3
  MaxHelpers = 3
  Variant = "no_tag_on_wake"
  DupRounds = {}
INVARIANT NotAccepted
CONSTRAINT TrackMax
POSTCONDITION PrintMax
CHECK_DEADLOCK FALSE
