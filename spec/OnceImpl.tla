---------------------------- MODULE OnceImpl ----------------------------
(* pika::call_once and the pika::experimental::event it is built on (once.hpp, event.hpp; C09).

     call_once:  while (status != DONE) {
                    s := 0;  if CAS(status, 0 -> RUNNING) {
                                 event.reset();  f();                       -- f may throw
                                 ok:    status := DONE;  event.set();  return
                                 throw: status := 0;     event.set();  rethrow }
                    if (s == DONE) return                                   -- value seen by the failed CAS
                    event.wait() }
     event.set:   flag := true;  lock;  notify_all (queue emptied, everybody woken);  unlock
     event.wait:  if flag return;  lock;  while (!flag) { enqueue; unlock; sleep; lock }  unlock
     event.reset: flag := false

   The first Throws executions of f throw.  Properties: f completes successfully exactly once and never runs in
   two callers at the same time (RunsOnce, OneRunner); a caller returns normally only after that successful
   execution finished (ReturnAfterDone); a caller that was handed the exception is the one that ran f; everybody
   returns (Terminates).
   Observation kept as a named predicate, not a property: EventFollowsStatus ("the event is never set while a
   runner is active") does NOT hold - the event.set() of a failed runner can land after the next runner's
   reset(); waiters then spin through event.wait() instead of blocking until that runner is done.  This costs
   cycles, not correctness (OnceImpl_obs.cfg shows TLC reaching it).
   Variants: "done_on_throw" (status := DONE on the exception path), "claim_by_store" (load + store instead of
   the CAS), "set_before_done" (success path: event.set() before status := DONE).                    *)
EXTENDS Naturals, Sequences, FiniteSets
CONSTANTS Caller, Throws, Variant
VARIABLES status, flag, lock, queue, token, pc, seen, attempts, succ, running, outcome
vars == <<status, flag, lock, queue, token, pc, seen, attempts, succ, running, outcome>>
Init == /\ status = "zero" /\ flag = FALSE /\ lock = 0 /\ queue = <<>>
        /\ token = [c \in Caller |-> FALSE] /\ pc = [c \in Caller |-> "top"]
        /\ seen = [c \in Caller |-> "zero"] /\ attempts = 0 /\ succ = 0 /\ running = {}
        /\ outcome = [c \in Caller |-> "-"]
Goto(c, p) == pc' = [pc EXCEPT ![c] = p]
\* while (status != DONE)
Top(c) == /\ pc[c] = "top"
          /\ IF status = "done" THEN Goto(c, "ret") /\ outcome' = [outcome EXCEPT ![c] = "normal"]
                               ELSE Goto(c, "cas") /\ UNCHANGED outcome
          /\ UNCHANGED <<status, flag, lock, queue, token, seen, attempts, succ, running>>
Cas(c) == /\ pc[c] = "cas"
          /\ IF Variant = "claim_by_store"
                THEN /\ seen' = [seen EXCEPT ![c] = status]                   \* plain load ...
                     /\ Goto(c, IF status = "zero" THEN "claim" ELSE "after") /\ UNCHANGED status
                ELSE IF status = "zero"
                        THEN status' = "running" /\ Goto(c, "reset") /\ UNCHANGED seen
                        ELSE seen' = [seen EXCEPT ![c] = status] /\ Goto(c, "after") /\ UNCHANGED status
          /\ UNCHANGED <<flag, lock, queue, token, attempts, succ, running, outcome>>
Claim(c) == /\ pc[c] = "claim" /\ status' = "running" /\ Goto(c, "reset")      \* ... then store
            /\ UNCHANGED <<flag, lock, queue, token, seen, attempts, succ, running, outcome>>
Reset(c) == /\ pc[c] = "reset" /\ flag' = FALSE /\ Goto(c, "call") /\ running' = running \cup {c}
            /\ UNCHANGED <<status, lock, queue, token, seen, attempts, succ, outcome>>
\* f runs; it throws while fewer than Throws attempts have been made
Call(c) == /\ pc[c] = "call" /\ attempts' = attempts + 1 /\ running' = running \ {c}
           /\ IF attempts < Throws
                 THEN Goto(c, "fail") /\ UNCHANGED succ
                 ELSE succ' = succ + 1 /\ Goto(c, IF Variant = "set_before_done" THEN "set1" ELSE "store")
           /\ UNCHANGED <<status, flag, lock, queue, token, seen, outcome>>
Store(c) == /\ pc[c] = "store" /\ status' = "done"
            /\ Goto(c, IF Variant = "set_before_done" THEN "ret" ELSE "set1")
            /\ outcome' = [outcome EXCEPT ![c] = IF Variant = "set_before_done" THEN "normal" ELSE @]
            /\ UNCHANGED <<flag, lock, queue, token, seen, attempts, succ, running>>
Fail(c) == /\ pc[c] = "fail" /\ status' = (IF Variant = "done_on_throw" THEN "done" ELSE "zero")
           /\ Goto(c, "set1") /\ outcome' = [outcome EXCEPT ![c] = "threw"]
           /\ UNCHANGED <<flag, lock, queue, token, seen, attempts, succ, running>>
\* event.set(): flag, lock, notify_all
Set1(c) == /\ pc[c] = "set1" /\ flag' = TRUE /\ Goto(c, "set2")
           /\ UNCHANGED <<status, lock, queue, token, seen, attempts, succ, running, outcome>>
Set2(c) == /\ pc[c] = "set2" /\ lock = 0 /\ lock' = c /\ Goto(c, "set3")
           /\ UNCHANGED <<status, flag, queue, token, seen, attempts, succ, running, outcome>>
Set3(c) == /\ pc[c] = "set3" /\ lock = c /\ lock' = 0
           /\ token' = [x \in Caller |-> token[x] \/ \E i \in 1..Len(queue) : queue[i] = x]
           /\ queue' = <<>>
           /\ IF Variant = "set_before_done" /\ outcome[c] = "-" THEN Goto(c, "store") /\ UNCHANGED outcome
              ELSE /\ Goto(c, "ret")
                   /\ outcome' = [outcome EXCEPT ![c] = IF @ = "-" THEN "normal" ELSE @]
           /\ UNCHANGED <<status, flag, seen, attempts, succ, running>>
\* after a failed CAS
After(c) == /\ pc[c] = "after"
            /\ IF seen[c] = "done" THEN Goto(c, "ret") /\ outcome' = [outcome EXCEPT ![c] = "normal"]
                                   ELSE Goto(c, "wait1") /\ UNCHANGED outcome
            /\ UNCHANGED <<status, flag, lock, queue, token, seen, attempts, succ, running>>
\* event.wait()
Wait1(c) == /\ pc[c] = "wait1" /\ Goto(c, IF flag THEN "top" ELSE "wait2")
            /\ UNCHANGED <<status, flag, lock, queue, token, seen, attempts, succ, running, outcome>>
Wait2(c) == /\ pc[c] \in {"wait2", "woken"} /\ lock = 0 /\ lock' = c /\ Goto(c, "wait3")
            /\ UNCHANGED <<status, flag, queue, token, seen, attempts, succ, running, outcome>>
Wait3(c) == /\ pc[c] = "wait3" /\ lock = c /\ lock' = 0
            /\ IF flag THEN Goto(c, "top") /\ UNCHANGED queue
                       ELSE Goto(c, "sleep") /\ queue' = Append(queue, c)
            /\ UNCHANGED <<status, flag, token, seen, attempts, succ, running, outcome>>
Sleep(c) == /\ pc[c] = "sleep" /\ token[c] /\ token' = [token EXCEPT ![c] = FALSE] /\ Goto(c, "woken")
            /\ UNCHANGED <<status, flag, lock, queue, seen, attempts, succ, running, outcome>>
Step(c) == Top(c) \/ Cas(c) \/ Claim(c) \/ Reset(c) \/ Call(c) \/ Store(c) \/ Fail(c) \/ Set1(c) \/ Set2(c)
              \/ Set3(c) \/ After(c) \/ Wait1(c) \/ Wait2(c) \/ Wait3(c) \/ Sleep(c)
Next == \E c \in Caller : Step(c)
Spec == Init /\ [][Next]_vars /\ \A c \in Caller : WF_vars(Step(c))
OneRunner == Cardinality(running) <= 1
RunsOnce == succ <= 1 /\ ((\A c \in Caller : pc[c] = "ret") => succ = 1)
\* a normal return happens only after the successful execution of f finished
ReturnAfterDone == \A c \in Caller : outcome[c] = "normal" => succ = 1
\* exceptions are handed only to callers that ran f, at most Throws of them
ThrowsOk == Cardinality({c \in Caller : outcome[c] = "threw"}) <= Throws
Terminates == <>(\A c \in Caller : pc[c] = "ret")
\* not a property of the code (see header)
EventFollowsStatus == ~(flag /\ status = "running" /\ running # {})
=============================================================================
