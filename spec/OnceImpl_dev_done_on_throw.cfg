SPECIFICATION Spec
CONSTANTS
  Caller = {1,2,3}
  Throws = 1
  Variant = "done_on_throw"
INVARIANTS OneRunner RunsOnce ReturnAfterDone ThrowsOk
PROPERTY Terminates
CHECK_DEADLOCK FALSE
