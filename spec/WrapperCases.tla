---------------------------- MODULE WrapperCases ----------------------------
(* Prints every behaviour of WrapperAbs of length MaxLen (exhaustive mode) or the behaviours of a
   simulation run as JSON: the operation sequence together with the expected observations. *)
EXTENDS WrapperAbs, TLC, Json
Emit == (Len(hist) = MaxLen) => PrintT(<<"CASE", ToJson(hist)>>)
=============================================================================
