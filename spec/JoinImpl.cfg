SPECIFICATION Spec
CONSTANTS
  UserCallbacks = 1
  Deviations = {}
INVARIANT JoinOnlyAfterBody
INVARIANT EachCallbackOnce
INVARIANT AllCallbacksRun
PROPERTY JoinReturns
CHECK_DEADLOCK FALSE
