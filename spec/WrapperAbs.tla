------------------------------ MODULE WrapperAbs ------------------------------
(* Abstract specification of pika's type-erased wrappers (function / unique_function / any_sender /
   unique_any_sender) (property C18).  Slots hold Empty or a contained object
   [id, big, val, calls]: `big` = stored on the heap (does not fit the inline buffer), `val` = what
   it yields, `calls` = how often this very object was invoked (copies are independent objects).
   Every operation records what must be observable afterwards: emptiness of every slot, the
   result of an invocation (or the defined "empty" error) and the number of live contained objects
   (each object constructed is destroyed exactly once).                                        *)
EXTENDS Naturals, Integers, Sequences, FiniteSets
CONSTANTS Slot, Copyable, MaxLen,
          InvokeMode   \* "call": callable invoked in place; "copy": the contained sender is copied by connect
                       \* (any_sender); "consume": connect consumes the wrapper (unique_any_sender)
VARIABLES w, nextId, live, hist
vars == <<w, nextId, live, hist>>
Empty == [id |-> 0, big |-> FALSE, val |-> 0, calls |-> 0]
IsEmpty(i) == w[i].id = 0
Init == w = [i \in Slot |-> Empty] /\ nextId = 1 /\ live = {} /\ hist = <<>>
Obs(ww, lv, res) == [empty |-> [i \in Slot |-> ww[i].id = 0], live |-> Cardinality(lv), res |-> res]
Log(op, i, j, big, ww, lv, res) ==
    hist' = Append(hist, [op |-> op, i |-> i, j |-> j, big |-> big, obs |-> Obs(ww, lv, res)])
Gone(i) == IF IsEmpty(i) THEN {} ELSE {w[i].id}

\* w[i] = fresh callable/sender (val = its id)
Make(i, big) ==
    LET o == [id |-> nextId, big |-> big, val |-> nextId, calls |-> 0]
        ww == [w EXCEPT ![i] = o]  lv == (live \ Gone(i)) \cup {nextId} IN
    /\ w' = ww /\ live' = lv /\ nextId' = nextId + 1 /\ Log("make", i, 0, big, ww, lv, 0)
\* w[i] = w[j]   (copyable wrappers only): an independent copy, including its state
Copy(i, j) ==
    /\ Copyable
    /\ IF i = j \/ IsEmpty(j)
          THEN LET ww == IF i = j THEN w ELSE [w EXCEPT ![i] = Empty]
                   lv == IF i = j THEN live ELSE live \ Gone(i) IN
               w' = ww /\ live' = lv /\ UNCHANGED nextId /\ Log("copy", i, j, FALSE, ww, lv, 0)
          ELSE LET o == [w[j] EXCEPT !.id = nextId]
                   ww == [w EXCEPT ![i] = o]  lv == (live \ Gone(i)) \cup {nextId} IN
               w' = ww /\ live' = lv /\ nextId' = nextId + 1 /\ Log("copy", i, j, FALSE, ww, lv, 0)
\* w[i] = std::move(w[j]),  i # j: the source becomes empty
Move(i, j) ==
    /\ i # j
    /\ LET ww == [w EXCEPT ![i] = w[j], ![j] = Empty]  lv == live \ Gone(i) IN
       w' = ww /\ live' = lv /\ UNCHANGED nextId /\ Log("move", i, j, FALSE, ww, lv, 0)
Reset(i) ==
    LET ww == [w EXCEPT ![i] = Empty]  lv == live \ Gone(i) IN
    w' = ww /\ live' = lv /\ UNCHANGED nextId /\ Log("reset", i, 0, FALSE, ww, lv, 0)
Swap(i, j) ==
    /\ i < j
    /\ LET ww == [w EXCEPT ![i] = w[j], ![j] = w[i]] IN
       w' = ww /\ UNCHANGED <<live, nextId>> /\ Log("swap", i, j, FALSE, ww, live, 0)
\* invoke / connect+start: yields val * 100 + number of earlier invocations of this object;
\* an empty wrapper yields the defined error (-1)
Invoke(i) ==
    IF IsEmpty(i)
       THEN UNCHANGED <<w, live, nextId>> /\ Log("invoke", i, 0, FALSE, w, live, -1)
       ELSE LET r == w[i].val * 100 + w[i].calls IN
            CASE InvokeMode = "call" ->
                   LET ww == [w EXCEPT ![i].calls = @ + 1] IN
                   w' = ww /\ UNCHANGED <<live, nextId>> /\ Log("invoke", i, 0, FALSE, ww, live, r)
              [] InvokeMode = "copy" ->
                   UNCHANGED <<w, live, nextId>> /\ Log("invoke", i, 0, FALSE, w, live, r)
              [] OTHER ->
                   LET ww == [w EXCEPT ![i] = Empty]  lv == live \ Gone(i) IN
                   w' = ww /\ live' = lv /\ UNCHANGED nextId /\ Log("invoke", i, 0, FALSE, ww, lv, r)
Next == /\ Len(hist) < MaxLen
        /\ \E i, j \in Slot : \/ \E b \in BOOLEAN : Make(i, b)
                              \/ Copy(i, j) \/ Move(i, j) \/ Reset(i) \/ Swap(i, j) \/ Invoke(i)
Spec == Init /\ [][Next]_vars
\* sanity of the abstract model itself
LiveMatches == live = {w[i].id : i \in {k \in Slot : w[k].id # 0}}
DistinctIds == \A i, j \in Slot : (i # j /\ w[i].id # 0) => w[i].id # w[j].id
=============================================================================
