SPECIFICATION Spec
CONSTANTS
  Waiter = {}
  StopWaiter = {s1, s2}
  Notifier = {}
  NotifyLocked = {}
  StopReq = {q1}
  Variant = "ok"
  None = None
INVARIANT NoLostNotification
INVARIANT ResultOk
PROPERTY Terminates
CHECK_DEADLOCK FALSE
