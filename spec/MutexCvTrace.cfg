SPECIFICATION TSpec
CONSTANTS
  Actor = {1,2,3,4}
  Deviations = {}
INVARIANT NotAccepted
INVARIANT MutualExclusion
CONSTRAINT TrackMax
POSTCONDITION PrintMax
CHECK_DEADLOCK FALSE
