---------------------------- MODULE RwRequestImpl ----------------------------
(* Request bookkeeping of async_rw_mutex (async_rw_mutex.hpp: read(), readwrite(), the members
   prev_access / state, and move construction / assignment of the mutex object; C04).
   A mutex object holds  prev_access  (kind of the last request) and  state  (the shared state = access
   group of the last request).   readwrite() always opens a new group and links it behind the previous
   one;  read() opens a new group only if the previous request was a readwrite, otherwise the new read
   joins the current group.  Objects can be move-assigned: the assigned-to object continues the request
   sequence of the assigned-from object.
   All of this is done by one thread (the mutex object is not thread-safe), so the model is sequential:
   TLC enumerates every sequence of read / readwrite / move-assign over two objects up to MaxReq requests.
   Invariants: a group holds accesses of one kind, a readwrite group exactly one (KindMatches); an object's
   state is the last group of its chain (IsLast); the groups reachable from one chain head are in request
   order (Ordered).
   Variant "move_keeps_prev_access" (seeded change C04-3): the move assignment forgets prev_access.  *)
EXTENDS Naturals, Sequences, FiniteSets
CONSTANTS Obj, MaxReq, MaxGroups, Variant
VARIABLES prev, st, kind, members, succ, ngroups, nreq, reqkind
vars == <<prev, st, kind, members, succ, ngroups, nreq, reqkind>>
Group == 1..MaxGroups
Init == /\ prev = [o \in Obj |-> "W"] /\ st = [o \in Obj |-> 0]
        /\ kind = [g \in Group |-> "-"] /\ members = [g \in Group |-> {}] /\ succ = [g \in Group |-> 0]
        /\ ngroups = 0 /\ nreq = 0 /\ reqkind = <<>>
NewGroup(o, k) ==
    LET g == ngroups + 1 IN
    /\ ngroups < MaxGroups
    /\ ngroups' = g /\ kind' = [kind EXCEPT ![g] = k]
    /\ members' = [members EXCEPT ![g] = {nreq + 1}]
    /\ succ' = IF st[o] # 0 THEN [succ EXCEPT ![st[o]] = g] ELSE succ
    /\ st' = [st EXCEPT ![o] = g]
Read(o) == /\ nreq < MaxReq
           /\ IF prev[o] = "W"
                 THEN NewGroup(o, "R") /\ prev' = [prev EXCEPT ![o] = "R"]
                 ELSE /\ members' = [members EXCEPT ![st[o]] = @ \cup {nreq + 1}]
                      /\ UNCHANGED <<prev, st, kind, succ, ngroups>>
           /\ nreq' = nreq + 1 /\ reqkind' = Append(reqkind, "R")
ReadWrite(o) == /\ nreq < MaxReq
                /\ NewGroup(o, "W") /\ prev' = [prev EXCEPT ![o] = "W"]
                /\ nreq' = nreq + 1 /\ reqkind' = Append(reqkind, "W")
\* a := std::move(b); b is left without a state (and is not used again until assigned to)
MoveAssign(a, b) ==
    /\ a # b /\ st[b] # 0
    /\ st' = [st EXCEPT ![a] = st[b], ![b] = 0]
    /\ prev' = IF Variant = "move_keeps_prev_access" THEN prev ELSE [prev EXCEPT ![a] = prev[b]]
    /\ UNCHANGED <<kind, members, succ, ngroups, nreq, reqkind>>
\* a moved-from object is only assigned to, a fresh object (no state, prev = W as constructed) may be used
Usable(o) == st[o] # 0 \/ prev[o] = "W"
Next == \E o \in Obj : \/ (Usable(o) /\ (Read(o) \/ ReadWrite(o)))
                       \/ \E b \in Obj : MoveAssign(o, b)
Spec == Init /\ [][Next]_vars
KindMatches == \A g \in 1..ngroups :
                  /\ \A r \in members[g] : reqkind[r] = kind[g]
                  /\ (kind[g] = "W" => Cardinality(members[g]) = 1)
IsLast == \A o \in Obj : st[o] # 0 => (succ[st[o]] = 0 /\ kind[st[o]] = prev[o])
\* along a chain the requests of a group all precede the requests of its successor
Ordered == \A g \in 1..ngroups : succ[g] # 0 =>
               \A r \in members[g], q \in members[succ[g]] : r < q
=============================================================================
