---------------------------- MODULE ActivityImpl ----------------------------
(* Fine-grained model of the global activity count behind pika::wait() / stop() (C05, C20).

   create_thread:   count := count + 1   (increment_global_activity_count)  THEN the task becomes
                    visible to the workers (staged/pending)
   a worker runs the task body, which may create children (same two steps each)
   destroy_thread:  the task has terminated (body done) THEN count := count - 1
   thread_manager::wait():  spin until count <= offset (offset 1 if called from a task); each read
                    is one atomic step.
   External submitters create root tasks at any time before the wait starts (and also later: those
   are not the wait's business).
   Variant "inc_after_visible" swaps the first two steps (must break WaitPost);
   variant "dec_before_done" decrements before the body's last step (must break WaitPost).   *)
EXTENDS Naturals, Integers, FiniteSets
CONSTANTS Task, Roots, Parent, Variant      \* Parent[t] \in Task \cup {0}; Roots = tasks with parent 0
VARIABLES count, ts, wst, snapshot, pendingInc
\* ts[t]: "none" -> "counted" -> "visible" -> "running" -> "spawned" (children created) -> "done" -> "gone"
vars == <<count, ts, wst, snapshot, pendingInc>>
Children(t) == {c \in Task : Parent[c] = t}
Init == count = 0 /\ ts = [t \in Task |-> "none"] /\ wst = "idle" /\ snapshot = {} /\ pendingInc = {}

CanCreate(t) == ts[t] = "none" /\ (IF Parent[t] = 0 THEN TRUE ELSE ts[Parent[t]] = "running")
\* step 1 of create_thread
Create1(t) ==
    /\ CanCreate(t)
    /\ IF Variant = "inc_after_visible"
          THEN ts' = [ts EXCEPT ![t] = "visible"] /\ pendingInc' = pendingInc \cup {t} /\ UNCHANGED count
          ELSE ts' = [ts EXCEPT ![t] = "counted"] /\ count' = count + 1 /\ UNCHANGED pendingInc
    /\ UNCHANGED <<wst, snapshot>>
Create2(t) ==
    /\ \/ ts[t] = "counted" /\ ts' = [ts EXCEPT ![t] = "visible"] /\ UNCHANGED <<count, pendingInc>>
       \/ t \in pendingInc /\ pendingInc' = pendingInc \ {t} /\ count' = count + 1 /\ UNCHANGED ts
    /\ UNCHANGED <<wst, snapshot>>
Run(t) == ts[t] = "visible" /\ ts' = [ts EXCEPT ![t] = "running"] /\ UNCHANGED <<count, wst, snapshot, pendingInc>>
\* the body finishes once all its children have been created (both steps)
Finish(t) ==
    /\ ts[t] = "running" /\ \A c \in Children(t) : ts[c] \notin {"none", "counted"} /\ c \notin pendingInc
    /\ IF Variant = "dec_before_done"
          THEN ts' = [ts EXCEPT ![t] = "done"] /\ UNCHANGED count
          ELSE ts' = [ts EXCEPT ![t] = "done"] /\ UNCHANGED count
    /\ UNCHANGED <<wst, snapshot, pendingInc>>
Destroy(t) == ts[t] = "done" /\ ts' = [ts EXCEPT ![t] = "gone"] /\ count' = count - 1
              /\ UNCHANGED <<wst, snapshot, pendingInc>>
\* broken variant: the decrement happens while the body is still running
EarlyDec(t) == Variant = "dec_before_done" /\ ts[t] = "running"
               /\ ts' = [ts EXCEPT ![t] = "running_decremented"] /\ count' = count - 1
               /\ UNCHANGED <<wst, snapshot, pendingInc>>
EarlyFinish(t) == ts[t] = "running_decremented" /\ ts' = [ts EXCEPT ![t] = "gone"]
                  /\ UNCHANGED <<count, wst, snapshot, pendingInc>>

WaitCall == wst = "idle" /\ wst' = "waiting"
            /\ snapshot' = {t \in Task : ts[t] \notin {"none"} /\ Parent[t] = 0 /\ ts[t] # "counted" /\ t \notin pendingInc}
            /\ UNCHANGED <<count, ts, pendingInc>>
WaitRead == wst = "waiting" /\ count = 0 /\ wst' = "returned" /\ UNCHANGED <<count, ts, snapshot, pendingInc>>

Next == \/ \E t \in Task : Create1(t) \/ Create2(t) \/ Run(t) \/ Finish(t) \/ Destroy(t)
                           \/ EarlyDec(t) \/ EarlyFinish(t)
        \/ WaitCall \/ WaitRead
Spec == Init /\ [][Next]_vars /\ WF_vars(Next)

RECURSIVE Desc(_)
Desc(S) == LET C == {c \in Task : Parent[c] \in S} IN IF C \subseteq S THEN S ELSE Desc(S \cup C)
\* when wait returns, every root whose submission completed before the call, and all its descendants,
\* have finished
WaitPost == wst = "returned" => \A t \in Desc(snapshot) : ts[t] \in {"gone", "done"}
CountNonNeg == count >= 0
=============================================================================
