SPECIFICATION Spec
CONSTANTS
  Worker = {1,2,3,4}
  Asleep = {3,4}
  MaxIdle = 6
  PerSleeper = 3
  Stealing = TRUE
  Variant = "none"
INVARIANTS TypeOK Conserved
PROPERTIES Drains StaysPut
