SPECIFICATION Spec
CONSTANTS
  Slot = {1, 2}
  Copyable = FALSE
  MaxLen = 4
  InvokeMode = "consume"
INVARIANT LiveMatches
INVARIANT DistinctIds
INVARIANT Emit
CHECK_DEADLOCK FALSE
