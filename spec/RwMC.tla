---------------------------- MODULE RwMC ----------------------------
EXTENDS RwAbs, TLC
MCNext == \/ \E k \in {"R", "W"} : Request(k)
          \/ \E i \in Acc : Start(i) \/ Drop(i) \/ Release(i) \/ \E v \in 0..MaxAcc : Grant(i, v)
MCSpec == Init /\ [][MCNext]_vars /\ WF_vars(MCNext)
\* every started access is eventually granted once all earlier accesses have been released
Progress == \A i \in Acc : [](Owed(i) => <>(st[i] # "started"))
=============================================================================
