SPECIFICATION Spec
CONSTANTS
  Req = {r1, r2, r3}
  Cb = {c1, c2, c3}
  SelfDestroy = {c3}
  KeepAlive = {}
  Variant = "ok"
  None = None
INVARIANT OneWinner
INVARIANT AtMostOnce
INVARIANT NoUseAfterDestroy
INVARIANT DtorWaits
INVARIANT EveryCallbackAccountedFor
INVARIANT SomeWinner
CHECK_DEADLOCK FALSE
