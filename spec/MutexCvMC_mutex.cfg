SPECIFICATION MCSpec
CONSTANTS
  Actor = {a1, a2, a3}
  Deviations = {}
  MaxCalls = 3
  MK = "mutex"
  Kinds = {"lock","try_lock","try_lock_until","unlock"}
INVARIANT MutualExclusion
INVARIANT WakeSubset
PROPERTY NoLostWake
PROPERTY OnlyOwnerWrites
CHECK_DEADLOCK FALSE
