SPECIFICATION Spec
CONSTANTS
  Thread = {1,2,3}
  Depth = 2
  Rounds = 2
  Variant = "late_count_store"
  None = 0
INVARIANTS Exclusive CountIsDepth NoLeak
PROPERTY Terminates
CHECK_DEADLOCK FALSE
