SPECIFICATION Spec
CONSTANTS
  UserCallbacks = 1
  Deviations = {"RegisterChecksBeforeLock"}
INVARIANT JoinOnlyAfterBody
INVARIANT EachCallbackOnce
INVARIANT AllCallbacksRun
PROPERTY JoinReturns
CHECK_DEADLOCK FALSE
