SPECIFICATION Spec
CONSTANTS
  Worker = {1,2,3}
  Asleep = {2,3}
  MaxIdle = 4
  PerSleeper = 2
  Stealing = TRUE
  Variant = "threshold_full"
INVARIANTS TypeOK Conserved
PROPERTIES Drains StaysPut
