---------------------------- MODULE MutexCvMC ----------------------------
EXTENDS MutexCvAbs, TLC
CONSTANTS MaxCalls, MK, Kinds
VARIABLE calls
mvars == <<vars, calls>>
MCInit == Init(MK) /\ calls = [a \in Actor |-> 0]

\* programs respect the documented preconditions: wait / set_flag only while holding the lock once
MCCall(a) ==
    /\ calls[a] < MaxCalls /\ op[a].st = "idle"
    /\ calls' = [calls EXCEPT ![a] = @ + 1]
    /\ \E k \in Kinds :
          /\ (k \in WaitKinds \cup {"set_flag"} => (owner = a /\ depth = 1))
          /\ (k = "unlock" /\ ~Detects => owner = a)
          /\ (k \in {"lock", "try_lock", "try_lock_until"} /\ ~Detects /\ mkind # "recursive" => owner # a)
          /\ Call(a, k, 0)

MCNext == \/ \E a \in Actor : MCCall(a)
          \/ \E a \in Actor : Lin(a, TRUE) /\ UNCHANGED calls
          \/ \E a \in Actor : Ret(a, op[a].res) /\ UNCHANGED calls
MCSpec == MCInit /\ [][MCNext]_mvars
          /\ \A a \in Actor : WF_mvars((Wake(a) \/ Reacquire(a) \/ LinLock(a) \/ Ret(a, op[a].res)) /\ UNCHANGED calls)

\* a due wake-up is delivered
NoLostWake == \A a \in Actor : [](a \in wake => <>(a \notin waiting))
\* the data written in one critical section is what the next one sees: by construction (data only
\* changes in LinUnlock by the owner)
OnlyOwnerWrites == [][data' # data => owner # 0]_mvars
=============================================================================
