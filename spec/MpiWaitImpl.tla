----------------------------- MODULE MpiWaitImpl -----------------------------
(* The part of pika's MPI polling that pika::wait() relies on (mpi_polling.cpp, poll_multithreaded), C20.

   Posting a request increments the global activity count.  A polling worker that holds the polling
   lock moves completed requests to the ready queue; ANY worker (the finder after it released the lock,
   or another worker at the top of its own poll) dequeues a ready callback and
        invokes it (the continuation of the transform_mpi sender runs inside)   then
        decrements the activity count.
   pika::wait() returns when the count is 0.
   Variant "dec_before_invoke": the first drain loop decrements before it invokes (seeded change C20-2). *)
EXTENDS Naturals, Sequences, FiniteSets
CONSTANTS Req, Worker, Variant, None
VARIABLES count, rs, ready, wpc, wcur, wst
\* rs[k]: "none" -> "posted" -> "complete" (in MPI) -> "ready" (queued) -> "taken" -> "running" -> "signalled"
vars == <<count, rs, ready, wpc, wcur, wst>>
Init == count = 0 /\ rs = [k \in Req |-> "none"] /\ ready = <<>> /\ wpc = [w \in Worker |-> "idle"]
        /\ wcur = [w \in Worker |-> None] /\ wst = "idle"
Post(k) == rs[k] = "none" /\ wst = "idle" /\ rs' = [rs EXCEPT ![k] = "posted"] /\ count' = count + 1
           /\ UNCHANGED <<ready, wpc, wcur, wst>>
Complete(k) == rs[k] = "posted" /\ rs' = [rs EXCEPT ![k] = "complete"] /\ UNCHANGED <<count, ready, wpc, wcur, wst>>
\* under the polling lock: every completed request is moved to the ready queue
Poll(w) == /\ wpc[w] = "idle" /\ \A v \in Worker : wpc[v] # "polling"
           /\ \E k \in Req : rs[k] = "complete"
           /\ LET S == {k \in Req : rs[k] = "complete"} IN
              /\ rs' = [k \in Req |-> IF k \in S THEN "ready" ELSE rs[k]]
              /\ ready' = ready \o (CHOOSE q \in [1..Cardinality(S) -> S] : \A i, j \in 1..Cardinality(S) : i # j => q[i] # q[j])
           /\ UNCHANGED <<count, wpc, wcur, wst>>
Take(w) == /\ wpc[w] = "idle" /\ ready # <<>> /\ wcur' = [wcur EXCEPT ![w] = Head(ready)] /\ ready' = Tail(ready)
           /\ rs' = [rs EXCEPT ![Head(ready)] = "taken"]
           /\ wpc' = [wpc EXCEPT ![w] = IF Variant = "dec_before_invoke" THEN "dec" ELSE "invoke"]
           /\ UNCHANGED <<count, wst>>
Invoke(w) == /\ wpc[w] = "invoke" /\ rs' = [rs EXCEPT ![wcur[w]] = "running"]
             /\ wpc' = [wpc EXCEPT ![w] = "finish"] /\ UNCHANGED <<count, ready, wcur, wst>>
Finish(w) == /\ wpc[w] = "finish" /\ rs' = [rs EXCEPT ![wcur[w]] = "signalled"]
             /\ wpc' = [wpc EXCEPT ![w] = IF Variant = "dec_before_invoke" THEN "idle" ELSE "dec"]
             /\ UNCHANGED <<count, ready, wcur, wst>>
Dec(w) == /\ wpc[w] = "dec" /\ count' = count - 1
          /\ wpc' = [wpc EXCEPT ![w] = IF Variant = "dec_before_invoke" THEN "invoke" ELSE "idle"]
          /\ UNCHANGED <<rs, ready, wcur, wst>>
WaitCall == wst = "idle" /\ wst' = "waiting" /\ UNCHANGED <<count, rs, ready, wpc, wcur>>
WaitRet == wst = "waiting" /\ count = 0 /\ wst' = "returned" /\ UNCHANGED <<count, rs, ready, wpc, wcur>>
Next == (\E k \in Req : Post(k) \/ Complete(k)) \/ (\E w \in Worker : Poll(w) \/ Take(w) \/ Invoke(w) \/ Finish(w) \/ Dec(w))
        \/ WaitCall \/ WaitRet
Spec == Init /\ [][Next]_vars /\ WF_vars(Next)
\* wait() returns only after every request posted before it was signalled (its continuation finished)
WaitPost == wst = "returned" => \A k \in Req : rs[k] \in {"none", "signalled"}
ExactlyOnce == \A k \in Req : Cardinality({w \in Worker : wcur[w] = k /\ wpc[w] # "idle"}) <= 1
AllSignalled == <>(\A k \in Req : rs[k] \in {"none", "signalled"})
=============================================================================
