SPECIFICATION Spec
CONSTANTS
  Pred = {"a", "b", "c"}
  Outcome <- O_vee
  Variant = "ok"
INVARIANT AtMostOneSignal
INVARIANT RightSignal
INVARIANT SingleErrorWriter
PROPERTY Terminates
CHECK_DEADLOCK FALSE
