SPECIFICATION Spec
CONSTANTS
  Task = {t1, t2}
  Worker = {w1, w2}
  Phases = 3
  Variant = "ok"
  None = None
INVARIANT NeverDropped
INVARIANT SingleRunner
INVARIANT AllPhases
PROPERTY Terminates
CHECK_DEADLOCK FALSE
