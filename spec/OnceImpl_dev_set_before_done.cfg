SPECIFICATION Spec
CONSTANTS
  Caller = {1,2,3}
  Throws = 1
  Variant = "set_before_done"
INVARIANTS OneRunner RunsOnce ReturnAfterDone ThrowsOk
PROPERTY Terminates
CHECK_DEADLOCK FALSE
