SPECIFICATION Spec
CONSTANTS
  Task = {t1, t2, t3}
  Variant = "idle_before_finalize"
INVARIANT StopPost
PROPERTY StopReturns
CHECK_DEADLOCK FALSE
