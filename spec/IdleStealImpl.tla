---------------------------- MODULE IdleStealImpl ----------------------------
(* The part of the scheduling loop (scheduling_loop.hpp) that decides when an idle worker takes over
   *staged* tasks (created but not yet converted to threads) from other workers' queues - the only
   mechanism by which work parked on a sleeping worker is executed by the rest of the pool (C19):

       loop {  ess := stealing /\ idle_loop_count > max_idle_loop_count / 2          -- top of iteration
               if own work      { run it;  idle_loop_count := 0 }
               else             { ++idle_loop_count;
                                  wait_or_add_new(..., ess): if ess, take staged tasks of a victim }
               if idle_loop_count > max_idle_loop_count { idle_loop_count := 0 }     -- bottom
       }

   Workers in Asleep never iterate (their processing unit is suspended) and nobody resumes them.
   Each task is a unit in staged[w].  Property: every task is eventually run although its owner sleeps
   (Drains), nothing is run twice or invented (Conserved).
   Variant "threshold_full" (seeded change C19-3): the threshold is max_idle_loop_count itself; the
   bottom-of-loop reset then keeps the condition false for ever and Drains fails.
   Variant "steal_when_disabled" (seeded change C10-3): staged work of other workers is taken over although the
   policy does not steal; NoMigration fails.                                                         *)
EXTENDS Naturals, FiniteSets
CONSTANTS Worker, Asleep, MaxIdle, PerSleeper, Stealing, Variant
VARIABLES staged, idle, ran
vars == <<staged, idle, ran>>
Awake == Worker \ Asleep
\* the tasks were submitted while the whole pool slept: they are parked on the workers that stay asleep
InitStaged == [w \in Worker |-> IF w \in Asleep THEN PerSleeper ELSE 0]
Threshold == IF Variant = "threshold_full" THEN MaxIdle ELSE MaxIdle \div 2
Total == LET Sum[S \in SUBSET Worker] == IF S = {} THEN 0 ELSE LET x == CHOOSE x \in S : TRUE
                                                            IN InitStaged[x] + Sum[S \ {x}]
         IN Sum[Worker]
Init == staged = InitStaged /\ idle = [w \in Worker |-> 0] /\ ran = 0
Reset(n) == IF n > MaxIdle THEN 0 ELSE n
\* one iteration of worker w with work of its own
RunOwn(w) == /\ w \in Awake /\ staged[w] > 0
             /\ staged' = [staged EXCEPT ![w] = @ - 1] /\ ran' = ran + 1
             /\ idle' = [idle EXCEPT ![w] = 0]
\* one idle iteration; ess was evaluated at the top, i.e. on the counter before the increment
IdleIter(w) ==
    /\ w \in Awake /\ staged[w] = 0
    /\ LET ess == (Stealing \/ Variant = "steal_when_disabled") /\ idle[w] > Threshold IN
       /\ \/ /\ ess /\ \E v \in Worker \ {w} : staged[v] > 0
                        /\ staged' = [staged EXCEPT ![v] = @ - 1, ![w] = @ + 1]
          \/ /\ ~(ess /\ \E v \in Worker \ {w} : staged[v] > 0) /\ UNCHANGED staged
       /\ idle' = [idle EXCEPT ![w] = Reset(@ + 1)]
       /\ UNCHANGED ran
Next == \E w \in Worker : RunOwn(w) \/ IdleIter(w)
\* Fairness: every awake worker keeps iterating (WF), and a worker that has work of its own again and again
\* eventually runs it (SF) - without the latter two idle workers could steal one task from each other for
\* ever (TLC finds that behaviour under weak fairness with two awake workers; in the code it would take an
\* adversary that always wins the race for the queue, so it is assumed away and said so here)
Spec == Init /\ [][Next]_vars /\ \A w \in Worker : SF_vars(RunOwn(w)) /\ WF_vars(IdleIter(w))
TypeOK == idle \in [Worker -> 0..MaxIdle] /\ ran \in 0..Total
Conserved == LET Sum[S \in SUBSET Worker] == IF S = {} THEN 0 ELSE LET x == CHOOSE x \in S : TRUE
                                                                IN staged[x] + Sum[S \ {x}]
             IN ran + Sum[Worker] = Total
\* with stealing on and somebody awake, everything parked on sleeping workers is eventually run
Drains == (Stealing /\ Awake # {}) => <>(ran = Total)
\* without stealing nothing leaves a sleeping worker's queue (the property then allows the wait for resume)
StaysPut == [][\A w \in Asleep : ~Stealing => staged'[w] = staged[w]]_vars
\* C10: in a pool whose policy does not steal, no task ever arrives in a queue it was not sent to
NoMigration == [][~Stealing => \A w \in Worker : staged'[w] <= staged[w]]_vars
=============================================================================
