SPECIFICATION Spec
CONSTANTS
  Op = {o1, o2, o3}
  Variant = "done_load_store"
INVARIANT AtMostOnce
PROPERTY EveryStartedGranted
CHECK_DEADLOCK FALSE
