SPECIFICATION Spec
CONSTANTS
  Variant = "none"
  Channel = "value"
INVARIANTS TypeOK NoUseAfterDestroy ReturnsAfterCompletion ResultIsTheSignal LockFreeAtEnd
PROPERTY Terminates
CHECK_DEADLOCK FALSE
