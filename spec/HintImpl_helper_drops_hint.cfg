SPECIFICATION Spec
CONSTANTS
  MaxN = 4
  MaxOff = 5
  Phases = 3
  Variant = "helper_drops_hint"
INVARIANT StaysOnHintedWorker
PROPERTY Completes
CHECK_DEADLOCK FALSE
