------------------------------ MODULE SharedStateImpl ------------------------------
(* Fine-grained model of the shared state behind split / split_tuple / ensure_started (C03):
     completer (predecessor's completion):  store result; predecessor_done := TRUE;
                                            { lock; unlock }          (barrier with adders)
                                            run every stored continuation
     consumer k (start of a connected receiver):
            if predecessor_done: deliver inline
            else lock; if predecessor_done: unlock; deliver inline
                       else store continuation k; unlock
   Every consumer must be delivered the result exactly once.
   Variant "flag_after_lock" sets predecessor_done after the barrier instead of before it.     *)
EXTENDS Integers, FiniteSets
CONSTANTS Consumer, Variant
\* lock: 0 free, -1 held by the completer, k held by consumer k
VARIABLES done, lock, conts, cpc, kpc, delivered
vars == <<done, lock, conts, cpc, kpc, delivered>>
Init == done = FALSE /\ lock = 0 /\ conts = {} /\ cpc = "start"
        /\ kpc = [k \in Consumer |-> "start"] /\ delivered = [k \in Consumer |-> 0]
\* completer
CFlag == /\ cpc = (IF Variant = "flag_after_lock" THEN "barrier_done" ELSE "start")
         /\ done' = TRUE
         /\ cpc' = (IF Variant = "flag_after_lock" THEN "drain" ELSE "flagged")
         /\ UNCHANGED <<lock, conts, kpc, delivered>>
CLock == /\ cpc = (IF Variant = "flag_after_lock" THEN "start" ELSE "flagged") /\ lock = 0
         /\ lock' = -1 /\ cpc' = "locked" /\ UNCHANGED <<done, conts, kpc, delivered>>
CUnlock == /\ cpc = "locked" /\ lock' = 0
           /\ cpc' = (IF Variant = "flag_after_lock" THEN "barrier_done" ELSE "drain")
           /\ UNCHANGED <<done, conts, kpc, delivered>>
\* runs the continuations it sees (one atomic read of the vector, as in the code: no lock)
CDrain == /\ cpc = "drain"
          /\ delivered' = [k \in Consumer |-> IF k \in conts THEN delivered[k] + 1 ELSE delivered[k]]
          /\ conts' = {} /\ cpc' = "finished" /\ UNCHANGED <<done, lock, kpc>>
\* consumer k
KFast(k) == /\ kpc[k] = "start"
            /\ IF done THEN delivered' = [delivered EXCEPT ![k] = @ + 1] /\ kpc' = [kpc EXCEPT ![k] = "finished"]
                       ELSE kpc' = [kpc EXCEPT ![k] = "tolock"] /\ UNCHANGED delivered
            /\ UNCHANGED <<done, lock, conts, cpc>>
KLock(k) == /\ kpc[k] = "tolock" /\ lock = 0 /\ lock' = k /\ kpc' = [kpc EXCEPT ![k] = "locked"]
            /\ UNCHANGED <<done, conts, cpc, delivered>>
\* (the test of the flag and the store of the continuation are separate steps under the lock)
KDecide(k) == /\ kpc[k] = "locked" /\ lock = k
              /\ IF done THEN /\ delivered' = [delivered EXCEPT ![k] = @ + 1] /\ lock' = 0
                              /\ kpc' = [kpc EXCEPT ![k] = "finished"]
                         ELSE kpc' = [kpc EXCEPT ![k] = "storing"] /\ UNCHANGED <<delivered, lock>>
              /\ UNCHANGED <<done, conts, cpc>>
KStore(k) == /\ kpc[k] = "storing" /\ lock = k
             /\ conts' = conts \cup {k} /\ lock' = 0 /\ kpc' = [kpc EXCEPT ![k] = "finished"]
             /\ UNCHANGED <<done, cpc, delivered>>
Next == CFlag \/ CLock \/ CUnlock \/ CDrain \/ \E k \in Consumer : KFast(k) \/ KLock(k) \/ KDecide(k) \/ KStore(k)
Spec == Init /\ [][Next]_vars /\ WF_vars(CFlag \/ CLock \/ CUnlock \/ CDrain)
        /\ \A k \in Consumer : WF_vars(KFast(k) \/ KLock(k) \/ KDecide(k) \/ KStore(k))
AtMostOnce == \A k \in Consumer : delivered[k] <= 1
ExactlyOnce == <>(\A k \in Consumer : delivered[k] = 1)
\* once everybody is finished nobody is left waiting in the vector
NoStranded == (cpc = "finished" /\ \A k \in Consumer : kpc[k] = "finished") => \A k \in Consumer : delivered[k] = 1
=============================================================================
