---------------------------- MODULE IndexQueueInd ----------------------------
(* Inductive-invariant version of IndexQueueImpl for Apalache: the range bounds First/Last are
   arbitrary integers (not small model constants), three threads.  Shows that no index is handed out
   twice and none is invented for EVERY size of the range (the TLC runs cover sizes up to 4).
   check:  apalache-mc check --init=IndInit --inv=IndInv --length=1 IndexQueueInd.tla   (induction step)
           apalache-mc check --init=Init --inv=IndInv --length=0 IndexQueueInd.tla      (base case)      *)
EXTENDS Integers
CONSTANTS
    \* @type: Int;
    First,
    \* @type: Int;
    Last
ASSUME First <= Last
VARIABLES
    \* @type: Int;
    c1,
    \* @type: Int;
    c2,
    \* @type: Str -> Str;
    pc,
    \* @type: Str -> Str;
    side,
    \* @type: Str -> Int;
    e1,
    \* @type: Str -> Int;
    e2,
    \* @type: Set(Int);
    returned,
    \* @type: Bool;
    dup
Thread == {"t1", "t2", "t3"}
ConstInit == First \in Int /\ Last \in Int /\ First <= Last
Init == /\ c1 = First /\ c2 = Last
        /\ pc = [t \in Thread |-> "idle"] /\ side = [t \in Thread |-> "L"]
        /\ e1 = [t \in Thread |-> 0] /\ e2 = [t \in Thread |-> 0]
        /\ returned = {} /\ dup = FALSE
Load(t) == /\ pc[t] = "idle"
           /\ \E s \in {"L", "R"} : side' = [side EXCEPT ![t] = s]
           /\ e1' = [e1 EXCEPT ![t] = c1] /\ e2' = [e2 EXCEPT ![t] = c2]
           /\ pc' = [pc EXCEPT ![t] = "loaded"]
           /\ UNCHANGED <<c1, c2, returned, dup>>
Step(t) ==
    /\ pc[t] = "loaded"
    /\ IF e1[t] >= e2[t]
          THEN pc' = [pc EXCEPT ![t] = "idle"] /\ UNCHANGED <<c1, c2, e1, e2, returned, dup>>
          ELSE IF c1 = e1[t] /\ c2 = e2[t]
                  THEN LET idx == IF side[t] = "L" THEN c1 ELSE c2 - 1 IN
                       /\ (IF side[t] = "L" THEN c1' = c1 + 1 /\ c2' = c2 ELSE c1' = c1 /\ c2' = c2 - 1)
                       /\ dup' = (dup \/ idx \in returned)
                       /\ returned' = returned \union {idx}
                       /\ pc' = [pc EXCEPT ![t] = "idle"] /\ UNCHANGED <<e1, e2>>
                  ELSE /\ e1' = [e1 EXCEPT ![t] = c1] /\ e2' = [e2 EXCEPT ![t] = c2]
                       /\ UNCHANGED <<c1, c2, returned, dup, pc>>
    /\ UNCHANGED side
Next == \E t \in Thread : Load(t) \/ Step(t)
\* the property: nothing handed out twice, nothing invented
ExactlyOnce == ~dup /\ \A i \in returned : First <= i /\ i < Last
\* inductive strengthening: handed-out indices lie outside the current range
IndInv == /\ First <= c1 /\ c1 <= c2 /\ c2 <= Last
          /\ ~dup
          /\ \A i \in returned : (First <= i /\ i < c1) \/ (c2 <= i /\ i < Last)
          /\ \A t \in Thread : pc[t] \in {"idle", "loaded"} /\ side[t] \in {"L", "R"}
\* "any state satisfying the invariant" (for the induction step)
IndInit == /\ c1 \in Int /\ c2 \in Int
           /\ pc \in [Thread -> {"idle", "loaded"}] /\ side \in [Thread -> {"L", "R"}]
           /\ e1 \in [Thread -> Int] /\ e2 \in [Thread -> Int]
           /\ returned \in SUBSET Int /\ dup \in BOOLEAN
           /\ IndInv
=============================================================================
