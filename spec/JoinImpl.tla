------------------------------ MODULE JoinImpl ------------------------------
(* Fine-grained model of thread::join against thread_data's exit-callback list (C13).

   Target:  body; run_thread_exit_callbacks:  lock; while list non-empty { take an entry; unlock;
            run it; lock }; ran := TRUE; unlock;  then the scheduler marks the thread terminated.
   Joiner:  add_thread_exit_callback: lock; if ran or terminated: refuse; else push_front(resume
            joiner); unlock.  If accepted: suspend (modelled as waiting for the callback to run, the
            hand-off itself is WakeImpl's subject).
   User:    optionally one user exit callback registered before the body ends.

   Deviation "ExitCallbackPopDropsNewEntry": the loop runs front() unlocked and pops the front
   afterwards - an entry pushed meanwhile is popped unexecuted and the old one runs again (the code
   at the pinned commit).
   Deviation "RegisterChecksBeforeLock": add_thread_exit_callback tests `ran or terminated` before it
   takes the lock and pushes afterwards without re-testing (seeded change C13-2).               *)
EXTENDS Naturals, Sequences, FiniteSets
CONSTANTS UserCallbacks, Deviations
VARIABLES list,      \* sequence of callbacks, front first: "user" or "join"
          tpc,       \* target: "body" | "cbloop" | "running" | "terminated"
          cur,       \* callback being run unlocked
          ran, jpc,  \* jpc: "start" | "waiting" | "done"
          joinCbRuns, userRuns
vars == <<list, tpc, cur, ran, jpc, joinCbRuns, userRuns>>
Init == /\ list = [i \in 1..UserCallbacks |-> "user"] /\ tpc = "body" /\ cur = "none"
        /\ ran = FALSE /\ jpc = "start" /\ joinCbRuns = 0 /\ userRuns = 0
Broken == "ExitCallbackPopDropsNewEntry" \in Deviations

BodyEnd == tpc = "body" /\ tpc' = "cbloop" /\ UNCHANGED <<list, cur, ran, jpc, joinCbRuns, userRuns>>
\* (locked) pick the next callback or finish
LoopStep ==
    /\ tpc = "cbloop"
    /\ IF list = <<>>
          THEN ran' = TRUE /\ tpc' = "exiting" /\ UNCHANGED <<list, cur>>
          ELSE /\ cur' = Head(list)
               /\ list' = IF Broken THEN list ELSE Tail(list)    \* correct code pops before running
               /\ tpc' = "running" /\ UNCHANGED ran
    /\ UNCHANGED <<jpc, joinCbRuns, userRuns>>
\* (unlocked) run it, then (locked, broken variant) pop whatever is at the front now
RunCb ==
    /\ tpc = "running"
    /\ IF cur = "join" THEN joinCbRuns' = joinCbRuns + 1 /\ UNCHANGED userRuns
                       ELSE userRuns' = userRuns + 1 /\ UNCHANGED joinCbRuns
    /\ jpc' = IF cur = "join" /\ jpc = "waiting" THEN "done" ELSE jpc
    /\ list' = IF Broken THEN Tail(list) ELSE list
    /\ tpc' = "cbloop" /\ cur' = "none" /\ UNCHANGED ran
Terminate == tpc = "exiting" /\ tpc' = "terminated" /\ UNCHANGED <<list, cur, ran, jpc, joinCbRuns, userRuns>>
\* the joiner may come at any time
Join ==
    /\ jpc = "start"
    /\ IF ran \/ tpc = "terminated"
          THEN jpc' = "done" /\ UNCHANGED list                 \* refused: thread already finished
          ELSE IF "RegisterChecksBeforeLock" \in Deviations
                  THEN jpc' = "checked" /\ UNCHANGED list        \* test passed, lock not yet taken
                  ELSE jpc' = "waiting" /\ list' = <<"join">> \o list    \* push_front
    /\ UNCHANGED <<tpc, cur, ran, joinCbRuns, userRuns>>
\* (deviation) the push happens later, under the lock (not while the target is between LoopStep and RunCb
\* bookkeeping: those hold the lock only inside LoopStep, so any moment between actions is possible)
JoinPush == /\ jpc = "checked" /\ jpc' = "waiting" /\ list' = <<"join">> \o list
            /\ UNCHANGED <<tpc, cur, ran, joinCbRuns, userRuns>>
Next == BodyEnd \/ LoopStep \/ RunCb \/ Terminate \/ Join \/ JoinPush
Spec == Init /\ [][Next]_vars /\ WF_vars(Next)

JoinReturns == <>(jpc = "done")
JoinOnlyAfterBody == jpc = "done" => tpc # "body"
EachCallbackOnce == userRuns <= UserCallbacks /\ joinCbRuns <= 1
AllCallbacksRun == tpc = "terminated" => userRuns = UserCallbacks
=============================================================================
