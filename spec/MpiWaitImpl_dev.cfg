SPECIFICATION Spec
CONSTANTS
  Req = {k1, k2}
  Worker = {w1, w2}
  Variant = "dec_before_invoke"
  None = None
INVARIANT WaitPost
INVARIANT ExactlyOnce
PROPERTY AllSignalled
CHECK_DEADLOCK FALSE
