SPECIFICATION TSpec
CONSTANTS
  Pool = {"default", "s", "t", "std"}
  StaticPools = {"s"}
  StdPool = "std"
INVARIANT NotAccepted
CONSTRAINT TrackMax
POSTCONDITION PrintMax
CHECK_DEADLOCK FALSE
