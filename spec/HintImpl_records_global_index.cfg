SPECIFICATION Spec
CONSTANTS
  MaxN = 4
  MaxOff = 5
  Phases = 3
  Variant = "records_global_index"
INVARIANT StaysOnHintedWorker
PROPERTY Completes
CHECK_DEADLOCK FALSE
