SPECIFICATION Spec
CONSTANTS
  Op = {o1, o2, o3}
  Variant = "check_once"
INVARIANT AtMostOnce
PROPERTY EveryStartedGranted
CHECK_DEADLOCK FALSE
