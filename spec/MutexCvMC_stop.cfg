SPECIFICATION MCSpec
CONSTANTS
  Actor = {a1, a2, a3}
  Deviations = {}
  MaxCalls = 3
  MK = "mutex"
  Kinds = {"lock","unlock","wait_stop","wait_until_stop","request_stop","set_flag","notify_one"}
INVARIANT MutualExclusion
INVARIANT WakeSubset
PROPERTY NoLostWake
PROPERTY OnlyOwnerWrites
CHECK_DEADLOCK FALSE
