SPECIFICATION Spec
CONSTANTS
  Worker = {w1, w2}
  Rounds = 3
  MaxHelpers = 3
  Variant = "ok"
  DupRounds = {1, 2}
INVARIANT SingleRunner
INVARIANT EnteredOnce
INVARIANT NoLostWake
PROPERTY Terminates
CHECK_DEADLOCK FALSE
