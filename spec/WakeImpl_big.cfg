SPECIFICATION Spec
CONSTANTS
  Worker = {w1, w2, w3}
  Rounds = 2
  MaxHelpers = 2
  Variant = "ok"
  DupRounds = {1, 2}
INVARIANT SingleRunner
INVARIANT EnteredOnce
INVARIANT NoLostWake
PROPERTY Terminates
CHECK_DEADLOCK FALSE
