SPECIFICATION TSpec
CONSTANTS
  Worker = {0, 1, 2, 3}
  Rounds = 3
  MaxHelpers = 3
  Variant = "ok"
  DupRounds = {}
INVARIANT NotAccepted
CONSTRAINT TrackMax
POSTCONDITION PrintMax
CHECK_DEADLOCK FALSE
