SPECIFICATION TSpec
CONSTANTS
  Worker = {0, 1, 2, 3}
  Rounds = 3
  MaxHelpers = 3
  Variant = "worker_ignores_cas"
  DupRounds = {}
INVARIANT NotAccepted
CONSTRAINT TrackMax
POSTCONDITION PrintMax
CHECK_DEADLOCK FALSE
