---------------------------- MODULE ContextMC ----------------------------
(* Closed model of ContextAbs: the frame condition - an operation of one task never changes what a
   check of another task must observe. *)
EXTENDS ContextAbs, TLC
MCNext == \E t \in Task :
            \/ \E l0 \in {0, 4, 8} : Start(t, TRUE, TRUE, l0, l0 + 4)
            \/ Push(t) /\ depth[t] < 2
            \/ Pop(t) \/ (\E v \in 1..2 : SetTld(t, v)) \/ Finish(t)
MCSpec == Init /\ [][MCNext]_vars
FrameCondition == [][\A t \in Task : (st[t] = "live" /\ st'[t] = "live" /\ (depth'[t] # depth[t] \/ tld'[t] # tld[t]))
                        => \A u \in Task \ {t} : depth'[u] = depth[u] /\ tld'[u] = tld[u]]_vars
StacksDisjoint == \A t, u \in Live : t # u => (hi[t] <= lo[u] \/ hi[u] <= lo[t])
=============================================================================
