---------------------------- MODULE QueueTrace ----------------------------
(* Linearizability check of recorded container histories against QueueAbs.  Records:
   {"e":"init","first":f,"last":l} {"e":"call","a":A,"op":k,"v":V} {"e":"ret","a":A,"res":R}
   {"e":"drained","n":N}  (harness: after all threads joined it drained the container completely;
   the model must be empty too) {"e":"reset"}                                                  *)
EXTENDS QueueAbs, Json, IOUtils, TLC
TraceLog == ndJsonDeserialize(IOEnv.TRACE)
VARIABLE l
tvars == <<vars, l>>
Rec == TraceLog[l]
Has == l <= Len(TraceLog)

TInit == l = 1 /\ TLCSet(1, 0) /\ Init(0, 0)
TStart == /\ Has /\ Rec.e = "init"
          /\ dq' = <<>> /\ first' = Rec.first /\ last' = Rec.last
          /\ pq' = [a \in Actor |-> <<>>] /\ op' = [a \in Actor |-> Idle]
          /\ l' = l + 1
TCall == Has /\ Rec.e = "call" /\ Call(Rec.a, Rec.op, Rec.v) /\ l' = l + 1
TRet == Has /\ Rec.e = "ret" /\ Ret(Rec.a, Rec.res) /\ l' = l + 1
TLin == \E a \in Actor : Lin(a) /\ UNCHANGED l
TDrained == /\ Has /\ Rec.e = "drained"
            /\ \A a \in Actor : op[a].st = "idle"
            /\ dq = <<>> /\ first >= last /\ \A p \in Actor : pq[p] = <<>>
            /\ UNCHANGED vars /\ l' = l + 1
TReset == /\ Has /\ Rec.e = "reset" /\ \A a \in Actor : op[a].st = "idle"
          /\ UNCHANGED vars /\ l' = l + 1
TNext == TStart \/ TCall \/ TRet \/ TLin \/ TDrained \/ TReset
TSpec == TInit /\ [][TNext]_tvars
NotAccepted == l <= Len(TraceLog)
TrackMax == IF l > TLCGet(1) THEN TLCSet(1, l) ELSE TRUE
PrintMax == PrintT(<<"MAXL", TLCGet(1)>>)
=============================================================================
