---------------------------- MODULE ProducerSlotImpl ----------------------------
(* The implicit-producer bookkeeping of the FIFO queue back-end (concurrentqueue.hpp, used by
   lockfree_fifo_backend; C17).  Every thread that pushes owns one single-producer sub-queue ("slot").
   On its first push a thread walks the producer list and claims an *inactive* slot (one whose thread has
   exited) with   load inactive;  CAS(inactive, true -> false)   or else creates a new slot and links it
   with a CAS on the list tail.  A slot's enqueue is strictly single-producer:
        t := tailIndex;  buffer[t] := v;  tailIndex := t + 1          (no read-modify-write)
   When a thread exits its slot is marked inactive again.
   Properties: a slot never has two live owners (OneOwner); when everybody has exited, the slots together
   hold exactly the values that were pushed (NothingLost, NothingTwice).
   Variant "claim_by_store" (seeded change C17-3): the claim is  load inactive; store false  - two
   first pushes that overlap both take the slot and overwrite each other's elements.                  *)
EXTENDS Naturals, Sequences, FiniteSets
CONSTANTS Thread, MaxSlots, PerThread, Variant
VARIABLES list,      \* producer list, newest first: sequence of slot ids
          inactive,  \* inactive[s]
          buf,       \* buf[s]: function index -> value (0 = never written)
          tail,      \* tail[s]
          pc, cur,   \* thread program counter / position in the list walk
          mine,      \* slot owned by the thread (0 = none)
          snap,      \* list snapshot taken by the walk / tail value read by the enqueue
          npushed
vars == <<list, inactive, buf, tail, pc, cur, mine, snap, npushed>>
Slot == 1..MaxSlots
Cap == Cardinality(Thread) * PerThread
Val(t, k) == t * 10 + k
Init == /\ list = <<>> /\ inactive = [s \in Slot |-> FALSE]
        /\ buf = [s \in Slot |-> [i \in 0..(Cap - 1) |-> 0]] /\ tail = [s \in Slot |-> 0]
        /\ pc = [t \in Thread |-> "start"] /\ cur = [t \in Thread |-> 0]
        /\ mine = [t \in Thread |-> 0] /\ snap = [t \in Thread |-> <<>>]
        /\ npushed = [t \in Thread |-> 0]
\* first push: snapshot of the list tail pointer, then walk
Begin(t) == /\ pc[t] = "start"
            /\ snap' = [snap EXCEPT ![t] = list] /\ cur' = [cur EXCEPT ![t] = 1]
            /\ pc' = [pc EXCEPT ![t] = "walk"]
            /\ UNCHANGED <<list, inactive, buf, tail, mine, npushed>>
Walk(t) == /\ pc[t] = "walk"
           /\ IF cur[t] > Len(snap[t])
                 THEN pc' = [pc EXCEPT ![t] = "create"] /\ UNCHANGED cur
                 ELSE IF inactive[snap[t][cur[t]]]
                         THEN pc' = [pc EXCEPT ![t] = "claim"] /\ UNCHANGED cur
                         ELSE cur' = [cur EXCEPT ![t] = @ + 1] /\ UNCHANGED pc
           /\ UNCHANGED <<list, inactive, buf, tail, mine, snap, npushed>>
Claim(t) == LET s == snap[t][cur[t]] IN
    /\ pc[t] = "claim"
    /\ IF Variant = "claim_by_store" \/ inactive[s]
          THEN /\ inactive' = [inactive EXCEPT ![s] = FALSE]
               /\ mine' = [mine EXCEPT ![t] = s] /\ pc' = [pc EXCEPT ![t] = "push"] /\ UNCHANGED cur
          ELSE /\ cur' = [cur EXCEPT ![t] = @ + 1] /\ pc' = [pc EXCEPT ![t] = "walk"]     \* CAS failed
               /\ UNCHANGED <<inactive, mine>>
    /\ UNCHANGED <<list, buf, tail, snap, npushed>>
\* create a slot and link it (CAS on the list tail: atomic here, the retry loop only re-reads the tail)
Create(t) == /\ pc[t] = "create" /\ Len(list) < MaxSlots
             /\ LET s == Len(list) + 1 IN
                  /\ list' = <<s>> \o list /\ mine' = [mine EXCEPT ![t] = s]
             /\ pc' = [pc EXCEPT ![t] = "push"]
             /\ UNCHANGED <<inactive, buf, tail, cur, snap, npushed>>
\* single-producer enqueue in three steps
ReadTail(t) == /\ pc[t] = "push" /\ npushed[t] < PerThread
               /\ snap' = [snap EXCEPT ![t] = <<tail[mine[t]]>>] /\ pc' = [pc EXCEPT ![t] = "write"]
               /\ UNCHANGED <<list, inactive, buf, tail, cur, mine, npushed>>
WriteBuf(t) == /\ pc[t] = "write"
               /\ buf' = [buf EXCEPT ![mine[t]][snap[t][1]] = Val(t, npushed[t] + 1)]
               /\ pc' = [pc EXCEPT ![t] = "publish"]
               /\ UNCHANGED <<list, inactive, tail, cur, mine, snap, npushed>>
Publish(t) == /\ pc[t] = "publish"
              /\ tail' = [tail EXCEPT ![mine[t]] = snap[t][1] + 1]
              /\ npushed' = [npushed EXCEPT ![t] = @ + 1] /\ pc' = [pc EXCEPT ![t] = "push"]
              /\ UNCHANGED <<list, inactive, buf, cur, mine, snap>>
\* thread exit: the slot becomes recyclable
Exit(t) == /\ pc[t] = "push" /\ npushed[t] = PerThread
           /\ inactive' = [inactive EXCEPT ![mine[t]] = TRUE] /\ pc' = [pc EXCEPT ![t] = "gone"]
           /\ UNCHANGED <<list, buf, tail, cur, mine, snap, npushed>>
Next == \E t \in Thread : Begin(t) \/ Walk(t) \/ Claim(t) \/ Create(t) \/ ReadTail(t) \/ WriteBuf(t)
                             \/ Publish(t) \/ Exit(t)
Spec == Init /\ [][Next]_vars
Live(t) == pc[t] \in {"push", "write", "publish"}
OneOwner == \A a, b \in Thread : (a # b /\ Live(a) /\ Live(b)) => mine[a] # mine[b]
Stored == UNION {{buf[s][i] : i \in 0..(tail[s] - 1)} : s \in Slot}
Count == LET Sum[S \in SUBSET Slot] == IF S = {} THEN 0 ELSE LET x == CHOOSE x \in S : TRUE
                                                          IN tail[x] + Sum[S \ {x}]
         IN Sum[Slot]
AllGone == \A t \in Thread : pc[t] = "gone"
Pushed == {Val(t, k) : t \in Thread, k \in 1..PerThread}
NothingLost == AllGone => Stored = Pushed
NothingTwice == AllGone => Count = Cardinality(Pushed)
=============================================================================
