SPECIFICATION TSpec
CONSTANTS
  Actor = {1,2,3,4,5,6,7,8}
  H = {1,2,3,4}
  Deviations = {"JoinBeforeEarlierExitCallbacks"}
INVARIANT NotAccepted
CONSTRAINT TrackMax
POSTCONDITION PrintMax
CHECK_DEADLOCK FALSE
