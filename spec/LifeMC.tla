---------------------------- MODULE LifeMC ----------------------------
(* Closed model of LifeAbs: any order of API calls and task steps the spec admits. *)
EXTENDS LifeAbs, TLC
MCNext ==
    \/ \E m \in BOOLEAN, r \in {0, 7} : Start(m, IF m THEN r ELSE 0)
    \/ \E t \in Task, p \in Task \cup {NoTask} : p # t /\ Submit(t, p)
    \/ \E t \in Task : Enter(t) \/ PhaseEnd(t) \/ PhaseBegin(t) \/ Exit(t)
    \/ WaitCall \/ WaitRet \/ SuspendRet \/ ResumeCall \/ Finalize
    \/ \E r \in {0, 7} : StopRet(r)
MCSpec == Init /\ [][MCNext]_vars
\* what the API promises, restated over the closed model
WaitPost == [][(inWait /\ ~inWait') => \A t \in snap : st[t] = "exited"]_vars
StopPost == [][(rt = "running" /\ rt' = "down") => (finalized /\ \A t \in Task : st[t] \in {"none", "exited"})]_vars
SingleRunnerPerTask == \A t \in Task : running[t] => st[t] = "entered"
=============================================================================
