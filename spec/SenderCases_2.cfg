SPECIFICATION Spec
CONSTANTS
  Depth = 2
  Stride = 1
INVARIANT Emit
INVARIANT DenOk
CHECK_DEADLOCK FALSE
