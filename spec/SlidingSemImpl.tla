---------------------------- MODULE SlidingSemImpl ----------------------------
(* pika::sliding_semaphore as implemented (synchronization/src/detail/sliding_semaphore.cpp on the
   internal condition variable; C08):

     wait(u):     lock;  while (u - D > lower) { enqueue self; unlock; sleep; lock }  unlock
     try_wait(u): lock;  if (u - D > lower) return false;  wait(u);  return true
     signal(x):   lock;  lower := max(x, lower);  n := |queue|;
                  n times { pop front and wake it (releases the lock); lock }         unlock

   The suspend / resume hand-off is abstracted to a wake token (a wake-up that arrives before the waiter
   sleeps is not lost - that is what WakeImpl establishes).
   Properties: the lower bound never decreases (Monotone); a waiter that has returned stays admitted
   (Admitted: u - D <= lower for ever after); try_wait's answer is right for the bound it saw; every waiter
   whose limit is eventually covered returns (Progress).
   Variant "signal_overwrites" (seeded change C08-3): signal stores x unconditionally; signals that arrive in
   decreasing order move the window backwards.                                                        *)
EXTENDS Naturals, Integers, Sequences, FiniteSets
CONSTANTS Waiter, Signaler, D, Upper, Values, Variant
VARIABLES lower, lock, queue, pc, token, left, cnt, tryres
vars == <<lower, lock, queue, pc, token, left, cnt, tryres>>
Thread == Waiter \cup Signaler
Max(a, b) == IF a > b THEN a ELSE b
Init == /\ lower = 0 /\ lock = 0 /\ queue = <<>>
        /\ pc = [t \in Thread |-> "start"] /\ token = [t \in Waiter |-> FALSE]
        /\ left = [s \in Signaler |-> Values[s]] /\ cnt = [s \in Signaler |-> 0]
        /\ tryres = [t \in Waiter |-> "-"]
Acquire(t) == lock = 0 /\ lock' = t
\* ---- waiter ----
WLock(t) == /\ t \in Waiter /\ pc[t] \in {"start", "woken"} /\ Acquire(t)
            /\ pc' = [pc EXCEPT ![t] = "check"]
            /\ UNCHANGED <<lower, queue, token, left, cnt, tryres>>
WCheck(t) == /\ t \in Waiter /\ pc[t] = "check" /\ lock = t
             /\ IF Upper[t] - D > lower
                   THEN /\ queue' = Append(queue, t) /\ pc' = [pc EXCEPT ![t] = "sleep"]
                   ELSE /\ UNCHANGED queue /\ pc' = [pc EXCEPT ![t] = "done"]
             /\ lock' = 0
             /\ UNCHANGED <<lower, token, left, cnt, tryres>>
WWake(t) == /\ t \in Waiter /\ pc[t] = "sleep" /\ token[t]
            /\ token' = [token EXCEPT ![t] = FALSE] /\ pc' = [pc EXCEPT ![t] = "woken"]
            /\ UNCHANGED <<lower, lock, queue, left, cnt, tryres>>
\* ---- signaler ----
SLock(s) == /\ s \in Signaler /\ pc[s] = "start" /\ left[s] # <<>> /\ Acquire(s)
            /\ pc' = [pc EXCEPT ![s] = "set"]
            /\ UNCHANGED <<lower, queue, token, left, cnt, tryres>>
SSet(s) == /\ s \in Signaler /\ pc[s] = "set" /\ lock = s
           /\ lower' = IF Variant = "signal_overwrites" THEN Head(left[s]) ELSE Max(Head(left[s]), lower)
           /\ left' = [left EXCEPT ![s] = Tail(@)] /\ cnt' = [cnt EXCEPT ![s] = Len(queue)]
           /\ pc' = [pc EXCEPT ![s] = "notify"]
           /\ UNCHANGED <<lock, queue, token, tryres>>
SNotify(s) == /\ s \in Signaler /\ pc[s] = "notify" /\ lock = s
              /\ IF cnt[s] > 0 /\ queue # <<>>
                    THEN /\ token' = [token EXCEPT ![Head(queue)] = TRUE] /\ queue' = Tail(queue)
                         /\ cnt' = [cnt EXCEPT ![s] = @ - 1] /\ pc' = [pc EXCEPT ![s] = "relock"]
                    ELSE /\ pc' = [pc EXCEPT ![s] = "start"] /\ UNCHANGED <<token, queue, cnt>>
              /\ lock' = 0
              /\ UNCHANGED <<lower, left, tryres>>
SRelock(s) == /\ s \in Signaler /\ pc[s] = "relock" /\ Acquire(s)
              /\ pc' = [pc EXCEPT ![s] = "notify"]
              /\ UNCHANGED <<lower, queue, token, left, cnt, tryres>>
Next == \E t \in Thread : WLock(t) \/ WCheck(t) \/ WWake(t) \/ SLock(t) \/ SSet(t) \/ SNotify(t) \/ SRelock(t)
Spec == Init /\ [][Next]_vars /\ \A t \in Thread : WF_vars(WLock(t) \/ WCheck(t) \/ WWake(t) \/ SLock(t)
                                                              \/ SSet(t) \/ SNotify(t) \/ SRelock(t))
Monotone == [][lower' >= lower]_vars
Admitted == \A t \in Waiter : pc[t] = "done" => Upper[t] - D <= lower
\* a queued waiter is asleep or holds a token; nobody sleeps unqueued without a token (no lost wake-up)
QueueOk == \A t \in Waiter : (pc[t] = "sleep" /\ ~token[t]) => \E i \in 1..Len(queue) : queue[i] = t
Final == LET all == UNION {{Values[s][i] : i \in 1..Len(Values[s])} : s \in Signaler}
             mx == CHOOSE m \in all : \A x \in all : x <= m IN mx
\* every waiter covered by the largest signalled value eventually returns
Progress == \A t \in Waiter : (Upper[t] - D <= Final) => <>(pc[t] = "done")
=============================================================================
