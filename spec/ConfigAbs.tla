------------------------------ MODULE ConfigAbs ------------------------------
(* Abstract statement of C16 (configuration precedence).  A case fixes one setting and, for each
   source that can carry it, one of: "-" (absent), "A", "B" (two different valid values) or "X" (an
   invalid value).  Sources: env (the setting's environment variable), pre (the same option inside
   PIKA_COMMANDLINE_OPTIONS), ini (--pika:ini=<key>=<value> on the command line), cmd (the specific
   command-line option).  The outcome is the value the live runtime uses ("A", "B", "D" = built-in
   default, "other") or a start-up error.

   Resolution: command line over environment over default; on the command line the specific option
   wins over a --pika:ini entry.  The property does not order the two "environment level" sources
   (variable vs. PIKA_COMMANDLINE_OPTIONS) nor a --pika:ini entry against a PIKA_COMMANDLINE_OPTIONS
   option, so either is accepted there.  An invalid value that is the resolved one must stop
   start-up; an invalid value in a source that loses may be ignored or reported.
   Deviations: "PrependedAndCmdlineSameOptionAborts", "InvalidStackSizeIgnored".             *)
EXTENDS Naturals, FiniteSets
Present(v) == v # "-"
\* the set of values that may legitimately be the resolved one
\* pini: a --pika:ini entry inside PIKA_COMMANDLINE_OPTIONS.  For the settings that have no specific option
\* (stack sizes, plain ini keys) `pre` itself is such an entry.  A --pika:ini entry on the command line
\* overrides the corresponding --pika:ini entry of PIKA_COMMANDLINE_OPTIONS (same kind of option, the command
\* line wins); against a *specific* option inside PIKA_COMMANDLINE_OPTIONS the property gives no order.
PreIsIni(c) == c.setting \in {"stack", "inikey"}
Winners(c) ==
    IF Present(c.cmd) THEN {c.cmd}
    ELSE IF Present(c.ini) THEN (IF Present(c.pre) /\ ~PreIsIni(c) THEN {c.ini, c.pre} ELSE {c.ini})
    ELSE IF Present(c.pre) \/ Present(c.pini) THEN {c.env, c.pre, c.pini} \ {"-"}
    \* app: a default the application ships in init_params::cfg.  It replaces the built-in default, so the
    \* command line and PIKA_COMMANDLINE_OPTIONS override it; the property does not order it against the
    \* environment variable (in pika the variable only feeds the default of the ini entry, which the
    \* application's entry then replaces), so either is accepted there
    ELSE IF Present(c.env) THEN {c.env, c.app} \ {"-"}
    ELSE IF Present(c.app) THEN {c.app}
    ELSE {"D"}
\* "K" is a keyword value (--pika:threads=cores) that denotes the same as the built-in default
Canon(S) == {IF v = "K" THEN "D" ELSE v : v \in S}
AnyInvalid(c) == "X" \in {c.env, c.pre, c.pini, c.ini, c.cmd}
AcceptD(c, out, Deviations) ==
    \/ /\ ~out.error /\ out.value \in Canon(Winners(c) \ {"X"})          \* a legitimate valid winner is in use
    \/ /\ out.error /\ ("X" \in Winners(c) \/ AnyInvalid(c))              \* an invalid value stopped start-up
    \/ /\ "PrependedAndCmdlineSameOptionAborts" \in Deviations
       /\ out.error /\ Present(c.pre) /\ Present(c.cmd)
    \/ /\ "InvalidValueIgnored" \in Deviations
       /\ ~out.error /\ "X" \in Winners(c) /\ out.value = "D"
Accept(c, out) == AcceptD(c, out, {})
\* unknown pika options stop start-up; non-pika arguments arrive unchanged (as a multiset)
AcceptMisc(c, out) ==
    /\ (c.unknown => out.error)
    /\ (~c.unknown => (~out.error /\ out.args_ok))
=============================================================================
