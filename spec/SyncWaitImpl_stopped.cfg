SPECIFICATION Spec
CONSTANTS
  Variant = "none"
  Channel = "stopped"
INVARIANTS TypeOK NoUseAfterDestroy ReturnsAfterCompletion ResultIsTheSignal LockFreeAtEnd
PROPERTY Terminates
CHECK_DEADLOCK FALSE
