SPECIFICATION Spec
CONSTANTS
  Obj = {1,2}
  MaxReq = 6
  MaxGroups = 6
  Variant = "move_keeps_prev_access"
INVARIANTS KindMatches
CHECK_DEADLOCK FALSE
