SPECIFICATION Spec
CONSTANTS
  Acquirer = {"a1", "a2"}
  Timed = {"t1"}
  Releaser = {"r1", "r2"}
  N <- NFn
  Variant = "timed_push_front"
  None = "none"
INVARIANT Conservation
INVARIANT NoStuckAcquirer
INVARIANT FalseOnlyWithoutPermit
PROPERTY Terminates
CHECK_DEADLOCK FALSE
