SPECIFICATION Spec
CONSTANTS
  Acquirer = {"a1", "a2"}
  Timed = {}
  Releaser = {"r1", "r2"}
  N <- NOnes
  Variant = "notify_while_small"
  None = "none"
INVARIANT Conservation
INVARIANT NoStuckAcquirer
INVARIANT FalseOnlyWithoutPermit
PROPERTY Terminates
CHECK_DEADLOCK FALSE
