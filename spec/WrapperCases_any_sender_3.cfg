SPECIFICATION Spec
CONSTANTS
  Slot = {1, 2}
  Copyable = TRUE
  MaxLen = 3
  InvokeMode = "copy"
INVARIANT LiveMatches
INVARIANT DistinctIds
INVARIANT Emit
CHECK_DEADLOCK FALSE
