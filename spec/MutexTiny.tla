------------------------------ MODULE MutexTiny ------------------------------
(* The abstract mutex that MutexImpl must refine: one holder at a time, acquired only when free,
   released only by the holder. *)
CONSTANTS Thread, None
VARIABLE holder
Init == holder = None
Acquire(t) == holder = None /\ holder' = t
Release(t) == holder = t /\ holder' = None
Next == \E t \in Thread : Acquire(t) \/ Release(t)
Spec == Init /\ [][Next]_holder
=============================================================================
