------------------------------ MODULE LbeoAbs ------------------------------
(* Abstract specification of latch, barrier, event and call_once (property C09).
   One object of each kind per history; ops are Call / Lin... / Ret, plus observable events emitted
   by user callbacks (barrier completion function, call_once body).                          *)
EXTENDS Naturals, Integers, FiniteSets
CONSTANTS Actor
VARIABLES lcount,                       \* latch counter
          bexp, bphase, barr, bdrop, bcompl,   \* barrier: expected, phase, arrived, pending drops, completions run
          evset,                        \* event
          odone, orunning,              \* once: completed flag, actor running the body (0 = none)
          op
vars == <<lcount, bexp, bphase, barr, bdrop, bcompl, evset, odone, orunning, op>>
Idle == [kind |-> "none", n |-> 0, st |-> "idle", res |-> 0, tok |-> 0]

Init(l0, e0) ==
    /\ lcount = l0 /\ bexp = e0 /\ bphase = 0 /\ barr = 0 /\ bdrop = 0 /\ bcompl = 0
    /\ evset = FALSE /\ odone = FALSE /\ orunning = 0
    /\ op = [a \in Actor |-> Idle]
Call(a, kind, n) ==
    /\ op[a].st = "idle"
    /\ op' = [op EXCEPT ![a] = [kind |-> kind, n |-> n, st |-> "called", res |-> 0, tok |-> 0]]
    /\ UNCHANGED <<lcount, bexp, bphase, barr, bdrop, bcompl, evset, odone, orunning>>
Done(a, r) == op' = [op EXCEPT ![a].st = "done", ![a].res = r]
B(x) == IF x THEN 1 ELSE 0
UL == UNCHANGED <<bexp, bphase, barr, bdrop, bcompl, evset, odone, orunning>>
UB == UNCHANGED <<lcount, evset, odone, orunning>>
UE == UNCHANGED <<lcount, bexp, bphase, barr, bdrop, bcompl, odone, orunning>>
UO == UNCHANGED <<lcount, bexp, bphase, barr, bdrop, bcompl, evset>>

Lin(a) ==
    LET k == op[a].kind  n == op[a].n IN
    \* ---- latch ----
    \/ /\ op[a].st = "called" /\ k = "count_down" /\ lcount >= n
       /\ lcount' = lcount - n /\ Done(a, 1) /\ UL
    \/ /\ op[a].st = "called" /\ k = "try_wait" /\ Done(a, B(lcount = 0)) /\ UNCHANGED lcount /\ UL
    \/ /\ op[a].st = "called" /\ k = "lwait" /\ lcount = 0 /\ Done(a, 1) /\ UNCHANGED lcount /\ UL
    \/ /\ op[a].st = "called" /\ k = "arrive_and_wait" /\ lcount >= n
       /\ lcount' = lcount - n /\ op' = [op EXCEPT ![a].st = "arrived"] /\ UL
    \/ /\ op[a].st = "arrived" /\ k = "arrive_and_wait" /\ lcount = 0
       /\ Done(a, 1) /\ UNCHANGED lcount /\ UL
    \* ---- barrier ----  (arrive returns the phase as token; wait(token) returns once the phase
    \*                     has advanced, i.e. after the completion function of that phase ran)
    \/ /\ op[a].st = "called" /\ k \in {"b_arrive", "b_arrive_and_wait", "b_arrive_and_drop"}
       /\ barr < bexp
       /\ barr' = barr + 1
       /\ bdrop' = IF k = "b_arrive_and_drop" THEN bdrop + 1 ELSE bdrop
       /\ IF k = "b_arrive_and_wait"
             THEN op' = [op EXCEPT ![a].st = "arrived", ![a].tok = bphase]
             ELSE op' = [op EXCEPT ![a].st = "done", ![a].res = IF k = "b_arrive" THEN bphase ELSE 1]
       /\ UNCHANGED <<bexp, bphase, bcompl>> /\ UB
    \/ /\ op[a].st = "arrived" /\ k = "b_arrive_and_wait" /\ bphase > op[a].tok
       /\ Done(a, 1) /\ UNCHANGED <<bexp, bphase, barr, bdrop, bcompl>> /\ UB
    \/ /\ op[a].st = "called" /\ k = "b_wait" /\ bphase > n
       /\ Done(a, 1) /\ UNCHANGED <<bexp, bphase, barr, bdrop, bcompl>> /\ UB
    \* ---- event ----
    \/ /\ op[a].st = "called" /\ k = "ev_set" /\ evset' = TRUE /\ Done(a, 1) /\ UE
    \/ /\ op[a].st = "called" /\ k = "ev_wait" /\ evset /\ Done(a, 1) /\ UNCHANGED evset /\ UE
    \/ /\ op[a].st = "called" /\ k = "ev_occurred" /\ Done(a, B(evset)) /\ UNCHANGED evset /\ UE
    \* ---- call_once ----  a caller that did not run the body returns only after the body completed
    \/ /\ op[a].st = "called" /\ k = "call_once" /\ odone /\ orunning # a
       /\ Done(a, 1) /\ UNCHANGED <<odone, orunning>> /\ UO

\* the completion function of the current phase runs: exactly when all expected participants have
\* arrived; it ends the phase (drops take effect, arrivals reset)
BarrierCompletion(a) ==
    /\ barr = bexp /\ bexp > 0
    /\ op[a].kind \in {"b_arrive", "b_arrive_and_wait", "b_arrive_and_drop"}     \* runs inside an arrive call
    /\ bphase' = bphase + 1 /\ bcompl' = bcompl + 1
    /\ bexp' = bexp - bdrop /\ bdrop' = 0 /\ barr' = 0
    /\ UNCHANGED op /\ UB

OnceBegin(a) ==
    /\ op[a].st = "called" /\ op[a].kind = "call_once" /\ ~odone /\ orunning = 0
    /\ orunning' = a /\ UNCHANGED <<odone, op>> /\ UO
OnceEnd(a, threw) ==
    /\ orunning = a
    /\ orunning' = 0
    /\ odone' = ~threw
    /\ Done(a, IF threw THEN -1 ELSE 1) /\ UO

Ret(a, r) ==
    /\ op[a].st = "done" /\ op[a].res = r
    /\ op' = [op EXCEPT ![a] = Idle]
    /\ UNCHANGED <<lcount, bexp, bphase, barr, bdrop, bcompl, evset, odone, orunning>>

Obligation(a) ==
    \/ op[a].st = "called" /\ op[a].kind \in {"count_down", "try_wait", "arrive_and_wait", "b_arrive",
          "b_arrive_and_wait", "b_arrive_and_drop", "ev_set", "ev_occurred"}
    \/ op[a].st = "called" /\ op[a].kind = "lwait" /\ lcount = 0
    \/ op[a].st = "arrived" /\ op[a].kind = "arrive_and_wait" /\ lcount = 0
    \/ op[a].st = "arrived" /\ op[a].kind = "b_arrive_and_wait" /\ bphase > op[a].tok
    \/ op[a].st = "called" /\ op[a].kind = "b_wait" /\ bphase > op[a].n
    \/ op[a].st = "called" /\ op[a].kind = "ev_wait" /\ evset
    \/ op[a].st = "called" /\ op[a].kind = "call_once" /\ (odone \/ orunning = 0)
    \/ barr = bexp /\ bexp > 0                         \* a completion is due
QuiescentOk == \A a \in Actor : ~Obligation(a)
CompletionOncePerPhase == bcompl = bphase
=============================================================================
