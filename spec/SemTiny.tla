------------------------------- MODULE SemTiny -------------------------------
(* The abstract counting semaphore that SemImpl must refine: a non-negative counter; a release adds its
   permits, an acquisition takes exactly one and only when one is there. *)
EXTENDS Naturals
CONSTANTS MaxRelease
VARIABLE permits
Init == permits = 0
Release == \E n \in 1..MaxRelease : permits' = permits + n
Acquire == permits > 0 /\ permits' = permits - 1
Next == Release \/ Acquire
Spec == Init /\ [][Next]_permits
=============================================================================
