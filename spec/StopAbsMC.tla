---------------------------- MODULE StopAbsMC ----------------------------
(* Closed model of StopAbs: actors issue a bounded number of nondeterministic calls. *)
EXTENDS StopAbs, TLC
CONSTANTS MaxCalls, Kinds
VARIABLE calls
mvars == <<vars, calls>>

HandleKinds == {"new_src", "copy_src", "move_src", "assign_src", "moveassign_src", "swap_src",
                "destroy_src", "possible_src", "requested_src"}
TokKinds == {"assign_tok", "move_tok", "destroy_tok", "possible_tok", "requested_tok"}

\* handle objects are not thread-safe: no two calls touch the same slot concurrently (request_stop
\* and the queries are const and may run concurrently with each other)
SrcKindsAll == HandleKinds \cup {"request_stop"}
SrcWriters == HandleKinds \ {"possible_src", "requested_src"}
SrcFree(x) == \A b \in Actor : op[b].st = "idle" \/
    ~((op[b].kind \in SrcKindsAll /\ (op[b].h = x \/ op[b].g = x)) \/ (op[b].kind = "get_token" /\ op[b].g = x))
SrcWritersFree(x) == \A b \in Actor : op[b].st = "idle" \/
    ~(op[b].kind \in SrcWriters /\ (op[b].h = x \/ op[b].g = x))
TokFree(x) == \A b \in Actor : op[b].st = "idle" \/
    ~((op[b].kind \in TokKinds \cup {"make_cb"} /\ (op[b].h = x \/ op[b].g = x)) \/ (op[b].kind = "get_token" /\ op[b].h = x))

MCInit == Init /\ calls = [a \in Actor |-> 0]

MCCall(a) ==
    /\ calls[a] < MaxCalls
    /\ calls' = [calls EXCEPT ![a] = @ + 1]
    /\ \/ \E k \in HandleKinds \cap Kinds, h \in SrcH, g \in SrcH :
               /\ SrcFree(h) /\ SrcFree(g)
               /\ k \in {"new_src", "copy_src", "move_src"} => (src[h] = 0 /\ h # g)
               /\ Call(a, k, h, g, 0)
       \/ \E k \in TokKinds \cap Kinds, h \in TokH, g \in TokH :
               TokFree(h) /\ TokFree(g) /\ Call(a, k, h, g, 0)
       \/ "get_token" \in Kinds /\ \E h \in TokH, g \in SrcH :
               TokFree(h) /\ SrcFree(g) /\ Call(a, "get_token", h, g, 0)
       \/ "request_stop" \in Kinds /\ \E h \in SrcH : SrcWritersFree(h) /\ Call(a, "request_stop", h, 0, 0)
       \/ "make_cb" \in Kinds /\ \E h \in TokH, c \in Cb : cb[c].st = "none" /\ TokFree(h)
               /\ (\A b \in Actor : ~(op[b].kind = "make_cb" /\ op[b].c = c))
               /\ Call(a, "make_cb", h, 0, c)
       \/ "destroy_cb" \in Kinds /\ \E c \in Cb : cb[c].st \in {"reg", "ran", "inert", "running"}
               /\ (\A b \in Actor : ~(op[b].kind = "destroy_cb" /\ op[b].c = c))
               /\ Call(a, "destroy_cb", 0, 0, c)

MCNext ==
    \/ \E a \in Actor : MCCall(a)
    \/ \E a \in Actor : Lin(a) /\ UNCHANGED calls
    \/ \E a \in Actor, c \in Cb : (CbBegin(a, c) \/ CbEnd(a, c)) /\ UNCHANGED calls
    \/ \E a \in Actor : Ret(a, op[a].res) /\ UNCHANGED calls

MCSpec == MCInit /\ [][MCNext]_mvars
    /\ \A a \in Actor : WF_mvars((Lin(a) \/ Ret(a, op[a].res)) /\ UNCHANGED calls)
    /\ \A b \in Actor, c \in Cb : WF_mvars((CbBegin(b, c) \/ CbEnd(b, c)) /\ UNCHANGED calls)

\* every callback registered on a state whose stop gets requested runs exactly once or is destroyed
RegisteredRuns == \A c \in Cb :
    [](cb[c].st = "reg" /\ Req(cb[c].s) => <>(cb[c].st \in {"ran", "dead", "running", "selfdead"}))
\* nothing starts after its destructor returned
NoRunAfterDead == [][\A c \in Cb : cb[c].st = "dead" => cb'[c].st = "dead"]_mvars
\* the destructor of a callback running on another thread waits
DtorWaits == [][\A a \in Actor :
    (op[a].kind = "destroy_cb" /\ op[a].st = "called" /\ op'[a].st = "done") =>
        ~(cb[op[a].c].st = "running" /\ cb[op[a].c].runner # a)]_mvars
\* token view: stop_possible exactly while requested or a source exists
PossibleMeaning == \A t \in TokH : tok[t] # 0 =>
    (Possible(tok[t]) <=> (Req(tok[t]) \/ \E h \in SrcH : src[h] = tok[t]))
=============================================================================
