---------------------------- MODULE StopStateImpl ----------------------------
(* Fine-grained model of pika::detail::stop_state (libs/pika/synchronization/src/stop_token.cpp), C14.

   The state word carries a lock bit and the stop_requested bit (reference counts are not modelled:
   stop is always possible).  Three kinds of threads:

   requester r   request_stop():  lock_and_request_stop  = load; CAS(old&~locked -> old|stop|locked) with
                 a spin loop on failure; the winner records itself as signalling thread and, holding the
                 lock, dequeues one callback at a time, UNLOCKS, publishes &is_removed in the callback,
                 executes it, and - unless the callback object destroyed itself meanwhile - clears the
                 pointer and sets callback_finished_executing; re-locks; when the list is empty: unlock.
   registrar c   stop_callback constructor: lock_if_not_stopped = load; stopped => run inline;
                 CAS(old&~locked -> old|locked) with a loop on failure that re-checks stop_requested on
                 every change; then push on the list, unlock.
   destroyer c   stop_callback destructor on another thread (only after the constructor returned):
                 lock; still linked => unlink, unlock, done; else unlock and, because the signalling
                 thread is another thread, wait for callback_finished_executing.
   A callback in SelfDestroy destroys its own stop_callback object from inside the callback body (same
   thread as the requester): lock; not linked; unlock; signalling thread = self => *is_removed := true.

   Variants re-create the defects the conformance checks found in the pinned tree (each must violate):
     "no_recheck"     the CAS-failure paths test stop_requested only while the word is locked
                      (second request_stop() winner; callback registered after the stop never runs)
     "no_spin_recheck" lock_and_request_stop does not test stop_requested while it spins on the lock bit
                      (seeded change C14-2): a requester that waited for a registration holding the lock
                      retries its CAS on "stop requested, unlocked" and wins a second time
     "os_ids_equal"   remove_callback compares pika thread ids only: two plain OS threads look equal, so
                      a destroyer on another OS thread believes it is inside its own callback
*)
EXTENDS Naturals, Sequences, FiniteSets
CONSTANTS Req, Cb, SelfDestroy, KeepAlive, Variant, None
\* KeepAlive: callbacks whose stop_callback object outlives the model (no destructor)
ASSUME SelfDestroy \subseteq Cb /\ KeepAlive \subseteq Cb

VARIABLES word, list, linked, finished, remPtr, remFlag, sig, executed, running, destroyed, unlinked, bad,
          rpc, rold, rcur, rres, apc, aold, ares, dpc
vars == <<word, list, linked, finished, remPtr, remFlag, sig, executed, running, destroyed, unlinked, bad,
          rpc, rold, rcur, rres, apc, aold, ares, dpc>>

Wd(l, s) == [locked |-> l, stopped |-> s]
Init ==
    /\ word = Wd(FALSE, FALSE) /\ list = <<>>
    /\ linked = [c \in Cb |-> FALSE] /\ finished = [c \in Cb |-> FALSE]
    /\ remPtr = [c \in Cb |-> None] /\ remFlag = [r \in Req |-> FALSE] /\ sig = None
    /\ executed = [c \in Cb |-> 0] /\ running = [c \in Cb |-> FALSE]
    /\ destroyed = [c \in Cb |-> FALSE] /\ unlinked = [c \in Cb |-> FALSE] /\ bad = FALSE
    /\ rpc = [r \in Req |-> "load"] /\ rold = [r \in Req |-> Wd(FALSE, FALSE)]
    /\ rcur = [r \in Req |-> None] /\ rres = [r \in Req |-> "none"]
    /\ apc = [c \in Cb |-> "load"] /\ aold = [c \in Cb |-> Wd(FALSE, FALSE)] /\ ares = [c \in Cb |-> "none"]
    /\ dpc = [c \in Cb |-> "start"]

Remove(s, c) == SelectSeq(s, LAMBDA x : x # c)

(* ------------------------------ requester ------------------------------ *)
RLoad(r) ==
    /\ rpc[r] = "load" /\ rold' = [rold EXCEPT ![r] = word]
    /\ IF word.stopped THEN rres' = [rres EXCEPT ![r] = "false"] /\ rpc' = [rpc EXCEPT ![r] = "done"]
                       ELSE rpc' = [rpc EXCEPT ![r] = "cas"] /\ UNCHANGED rres
    /\ UNCHANGED <<word, list, linked, finished, remPtr, remFlag, sig, executed, running, destroyed, unlinked, bad, rcur, apc, aold, ares, dpc>>
RCas(r) ==
    /\ rpc[r] = "cas"
    /\ IF word = Wd(FALSE, rold[r].stopped)
          THEN word' = Wd(TRUE, TRUE) /\ rpc' = [rpc EXCEPT ![r] = "own"] /\ UNCHANGED <<rold, rres>>
          ELSE /\ rold' = [rold EXCEPT ![r] = word] /\ UNCHANGED word
               /\ IF word.stopped /\ Variant # "no_recheck"
                     THEN rres' = [rres EXCEPT ![r] = "false"] /\ rpc' = [rpc EXCEPT ![r] = "done"]
                     ELSE rpc' = [rpc EXCEPT ![r] = "spin"] /\ UNCHANGED rres
    /\ UNCHANGED <<list, linked, finished, remPtr, remFlag, sig, executed, running, destroyed, unlinked, bad, rcur, apc, aold, ares, dpc>>
RSpin(r) ==
    /\ rpc[r] = "spin"
    /\ IF rold[r].locked
          THEN /\ rold' = [rold EXCEPT ![r] = word]
               /\ IF word.stopped /\ Variant # "no_spin_recheck"
                     THEN rres' = [rres EXCEPT ![r] = "false"] /\ rpc' = [rpc EXCEPT ![r] = "done"]
                     ELSE UNCHANGED <<rres, rpc>>
          ELSE rpc' = [rpc EXCEPT ![r] = "cas"] /\ UNCHANGED <<rold, rres>>
    /\ UNCHANGED <<word, list, linked, finished, remPtr, remFlag, sig, executed, running, destroyed, unlinked, bad, rcur, apc, aold, ares, dpc>>
ROwn(r) ==
    /\ rpc[r] = "own" /\ sig' = r /\ rpc' = [rpc EXCEPT ![r] = "loop"]
    /\ UNCHANGED <<word, list, linked, finished, remPtr, remFlag, executed, running, destroyed, unlinked, bad, rold, rcur, rres, apc, aold, ares, dpc>>
RLoop(r) ==     \* holding the lock
    /\ rpc[r] = "loop"
    /\ IF list = <<>>
          THEN /\ word' = [word EXCEPT !.locked = FALSE] /\ rres' = [rres EXCEPT ![r] = "true"]
               /\ rpc' = [rpc EXCEPT ![r] = "done"] /\ UNCHANGED <<list, linked, rcur>>
          ELSE /\ list' = Tail(list)
               \* "prev_ = nullptr" marks the entry as dequeued; variant mark_after_unlock (seeded change C14-4) does
               \* that only after the lock has been released
               /\ linked' = IF Variant = "mark_after_unlock" THEN linked ELSE [linked EXCEPT ![Head(list)] = FALSE]
               /\ rcur' = [rcur EXCEPT ![r] = Head(list)] /\ rpc' = [rpc EXCEPT ![r] = "unlock"]
               /\ UNCHANGED <<word, rres>>
    /\ UNCHANGED <<finished, remPtr, remFlag, sig, executed, running, destroyed, unlinked, bad, rold, apc, aold, ares, dpc>>
RUnlock(r) ==
    /\ rpc[r] = "unlock" /\ word' = [word EXCEPT !.locked = FALSE] /\ rpc' = [rpc EXCEPT ![r] = "setptr"]
    /\ UNCHANGED <<list, linked, finished, remPtr, remFlag, sig, executed, running, destroyed, unlinked, bad, rold, rcur, rres, apc, aold, ares, dpc>>
RSetPtr(r) ==
    /\ rpc[r] = "setptr"
    /\ remFlag' = [remFlag EXCEPT ![r] = FALSE] /\ remPtr' = [remPtr EXCEPT ![rcur[r]] = r]
    /\ bad' = (bad \/ destroyed[rcur[r]])
    /\ linked' = IF Variant = "mark_after_unlock" THEN [linked EXCEPT ![rcur[r]] = FALSE] ELSE linked
    /\ rpc' = [rpc EXCEPT ![r] = "exec"]
    /\ UNCHANGED <<word, list, finished, sig, executed, running, destroyed, unlinked, rold, rcur, rres, apc, aold, ares, dpc>>
RExec(r) ==
    /\ rpc[r] = "exec"
    /\ executed' = [executed EXCEPT ![rcur[r]] = @ + 1] /\ running' = [running EXCEPT ![rcur[r]] = TRUE]
    /\ bad' = (bad \/ destroyed[rcur[r]])
    /\ rpc' = [rpc EXCEPT ![r] = IF rcur[r] \in SelfDestroy THEN "sd_lock" ELSE "execend"]
    /\ UNCHANGED <<word, list, linked, finished, remPtr, remFlag, sig, destroyed, unlinked, rold, rcur, rres, apc, aold, ares, dpc>>
\* the callback body destroys its own stop_callback: remove_callback on the requester's thread
RSdLock(r) ==
    /\ rpc[r] = "sd_lock" /\ ~word.locked /\ word' = [word EXCEPT !.locked = TRUE]
    /\ rpc' = [rpc EXCEPT ![r] = "sd_try"]
    /\ UNCHANGED <<list, linked, finished, remPtr, remFlag, sig, executed, running, destroyed, unlinked, bad, rold, rcur, rres, apc, aold, ares, dpc>>
RSdTry(r) ==    \* not linked any more: unlock
    /\ rpc[r] = "sd_try" /\ word' = [word EXCEPT !.locked = FALSE] /\ rpc' = [rpc EXCEPT ![r] = "sd_decide"]
    /\ UNCHANGED <<list, linked, finished, remPtr, remFlag, sig, executed, running, destroyed, unlinked, bad, rold, rcur, rres, apc, aold, ares, dpc>>
RSdDecide(r) == \* signalling thread = this thread
    /\ rpc[r] = "sd_decide"
    /\ remFlag' = IF remPtr[rcur[r]] # None THEN [remFlag EXCEPT ![remPtr[rcur[r]]] = TRUE] ELSE remFlag
    /\ destroyed' = [destroyed EXCEPT ![rcur[r]] = TRUE]
    /\ rpc' = [rpc EXCEPT ![r] = "execend"]
    /\ UNCHANGED <<word, list, linked, finished, remPtr, sig, executed, running, unlinked, bad, rold, rcur, rres, apc, aold, ares, dpc>>
RExecEnd(r) ==
    /\ rpc[r] = "execend" /\ running' = [running EXCEPT ![rcur[r]] = FALSE]
    /\ IF remFlag[r] THEN rpc' = [rpc EXCEPT ![r] = "relock"] /\ UNCHANGED <<remPtr, bad>>
                     ELSE /\ remPtr' = [remPtr EXCEPT ![rcur[r]] = None] /\ bad' = (bad \/ destroyed[rcur[r]])
                          /\ rpc' = [rpc EXCEPT ![r] = "fin"]
    /\ UNCHANGED <<word, list, linked, finished, remFlag, sig, executed, destroyed, unlinked, rold, rcur, rres, apc, aold, ares, dpc>>
RFin(r) ==
    /\ rpc[r] = "fin" /\ finished' = [finished EXCEPT ![rcur[r]] = TRUE] /\ bad' = (bad \/ destroyed[rcur[r]])
    /\ rpc' = [rpc EXCEPT ![r] = "relock"]
    /\ UNCHANGED <<word, list, linked, remPtr, remFlag, sig, executed, running, destroyed, unlinked, rold, rcur, rres, apc, aold, ares, dpc>>
RRelock(r) ==
    /\ rpc[r] = "relock" /\ ~word.locked /\ word' = [word EXCEPT !.locked = TRUE]
    /\ rpc' = [rpc EXCEPT ![r] = "loop"]
    /\ UNCHANGED <<list, linked, finished, remPtr, remFlag, sig, executed, running, destroyed, unlinked, bad, rold, rcur, rres, apc, aold, ares, dpc>>

(* ------------------------------ registrar (constructor of stop_callback c) ------------------------------ *)
ALoad(c) ==
    /\ apc[c] = "load" /\ aold' = [aold EXCEPT ![c] = word]
    /\ apc' = [apc EXCEPT ![c] = IF word.stopped THEN "inline" ELSE "cas"]
    /\ UNCHANGED <<word, list, linked, finished, remPtr, remFlag, sig, executed, running, destroyed, unlinked, bad, rpc, rold, rcur, rres, ares, dpc>>
AInline(c) ==   \* stop already requested: run the callback in the constructor
    /\ apc[c] = "inline" /\ executed' = [executed EXCEPT ![c] = @ + 1] /\ finished' = [finished EXCEPT ![c] = TRUE]
    /\ ares' = [ares EXCEPT ![c] = "false"] /\ apc' = [apc EXCEPT ![c] = "done"]
    /\ UNCHANGED <<word, list, linked, remPtr, remFlag, sig, running, destroyed, unlinked, bad, rpc, rold, rcur, rres, aold, dpc>>
ACas(c) ==
    /\ apc[c] = "cas"
    /\ IF word = Wd(FALSE, aold[c].stopped)
          THEN word' = [word EXCEPT !.locked = TRUE] /\ apc' = [apc EXCEPT ![c] = "push"] /\ UNCHANGED aold
          ELSE aold' = [aold EXCEPT ![c] = word] /\ apc' = [apc EXCEPT ![c] = "chk"] /\ UNCHANGED word
    /\ UNCHANGED <<list, linked, finished, remPtr, remFlag, sig, executed, running, destroyed, unlinked, bad, rpc, rold, rcur, rres, ares, dpc>>
AChk(c) ==
    /\ apc[c] = "chk"
    /\ IF Variant = "no_recheck"
          THEN IF aold[c].locked
                  THEN /\ aold' = [aold EXCEPT ![c] = word]
                       /\ apc' = [apc EXCEPT ![c] = IF word.stopped THEN "inline" ELSE "chk"]
                  ELSE apc' = [apc EXCEPT ![c] = "cas"] /\ UNCHANGED aold
          ELSE IF aold[c].stopped THEN apc' = [apc EXCEPT ![c] = "inline"] /\ UNCHANGED aold
               ELSE IF ~aold[c].locked THEN apc' = [apc EXCEPT ![c] = "cas"] /\ UNCHANGED aold
               ELSE aold' = [aold EXCEPT ![c] = word] /\ UNCHANGED apc
    /\ UNCHANGED <<word, list, linked, finished, remPtr, remFlag, sig, executed, running, destroyed, unlinked, bad, rpc, rold, rcur, rres, ares, dpc>>
APush(c) ==
    /\ apc[c] = "push" /\ list' = <<c>> \o list /\ linked' = [linked EXCEPT ![c] = TRUE]
    /\ apc' = [apc EXCEPT ![c] = "unlock"]
    /\ UNCHANGED <<word, finished, remPtr, remFlag, sig, executed, running, destroyed, unlinked, bad, rpc, rold, rcur, rres, aold, ares, dpc>>
AUnlock(c) ==
    /\ apc[c] = "unlock" /\ word' = [word EXCEPT !.locked = FALSE]
    /\ ares' = [ares EXCEPT ![c] = "true"] /\ apc' = [apc EXCEPT ![c] = "done"]
    /\ UNCHANGED <<list, linked, finished, remPtr, remFlag, sig, executed, running, destroyed, unlinked, bad, rpc, rold, rcur, rres, aold, dpc>>

(* ------------------------------ destroyer (destructor of stop_callback c on another thread) -------------- *)
DStart(c) ==
    /\ dpc[c] = "start" /\ c \notin SelfDestroy \cup KeepAlive /\ apc[c] = "done"
    /\ IF ares[c] = "false"     \* never registered: the constructor dropped the state, nothing to do
          THEN destroyed' = [destroyed EXCEPT ![c] = TRUE] /\ dpc' = [dpc EXCEPT ![c] = "done"]
          ELSE dpc' = [dpc EXCEPT ![c] = "lock"] /\ UNCHANGED destroyed
    /\ UNCHANGED <<word, list, linked, finished, remPtr, remFlag, sig, executed, running, unlinked, bad, rpc, rold, rcur, rres, apc, aold, ares>>
DLock(c) ==
    /\ dpc[c] = "lock" /\ ~word.locked /\ word' = [word EXCEPT !.locked = TRUE] /\ dpc' = [dpc EXCEPT ![c] = "try"]
    /\ UNCHANGED <<list, linked, finished, remPtr, remFlag, sig, executed, running, destroyed, unlinked, bad, rpc, rold, rcur, rres, apc, aold, ares>>
DTry(c) ==
    /\ dpc[c] = "try" /\ word' = [word EXCEPT !.locked = FALSE]
    /\ IF linked[c]
          THEN /\ list' = Remove(list, c) /\ linked' = [linked EXCEPT ![c] = FALSE]
               /\ unlinked' = [unlinked EXCEPT ![c] = TRUE] /\ destroyed' = [destroyed EXCEPT ![c] = TRUE]
               /\ dpc' = [dpc EXCEPT ![c] = "done"]
          ELSE dpc' = [dpc EXCEPT ![c] = "decide"] /\ UNCHANGED <<list, linked, unlinked, destroyed>>
    /\ UNCHANGED <<finished, remPtr, remFlag, sig, executed, running, bad, rpc, rold, rcur, rres, apc, aold, ares>>
DDecide(c) ==
    /\ dpc[c] = "decide"
    /\ IF Variant = "os_ids_equal" /\ sig # None
          THEN \* "the callback is running on this thread": do not wait
               /\ remFlag' = IF remPtr[c] # None THEN [remFlag EXCEPT ![remPtr[c]] = TRUE] ELSE remFlag
               /\ destroyed' = [destroyed EXCEPT ![c] = TRUE] /\ dpc' = [dpc EXCEPT ![c] = "done"]
          ELSE dpc' = [dpc EXCEPT ![c] = "wait"] /\ UNCHANGED <<remFlag, destroyed>>
    /\ UNCHANGED <<word, list, linked, finished, remPtr, sig, executed, running, unlinked, bad, rpc, rold, rcur, rres, apc, aold, ares>>
DWait(c) ==
    /\ dpc[c] = "wait" /\ finished[c]
    /\ destroyed' = [destroyed EXCEPT ![c] = TRUE] /\ dpc' = [dpc EXCEPT ![c] = "done"]
    /\ UNCHANGED <<word, list, linked, finished, remPtr, remFlag, sig, executed, running, unlinked, bad, rpc, rold, rcur, rres, apc, aold, ares>>

RNext(r) == RLoad(r) \/ RCas(r) \/ RSpin(r) \/ ROwn(r) \/ RLoop(r) \/ RUnlock(r) \/ RSetPtr(r) \/ RExec(r)
            \/ RSdLock(r) \/ RSdTry(r) \/ RSdDecide(r) \/ RExecEnd(r) \/ RFin(r) \/ RRelock(r)
ANext(c) == ALoad(c) \/ AInline(c) \/ ACas(c) \/ AChk(c) \/ APush(c) \/ AUnlock(c)
DNext(c) == DStart(c) \/ DLock(c) \/ DTry(c) \/ DDecide(c) \/ DWait(c)
Next == (\E r \in Req : RNext(r)) \/ (\E c \in Cb : ANext(c) \/ DNext(c))
Spec == Init /\ [][Next]_vars /\ (\A r \in Req : WF_vars(RNext(r))) /\ (\A c \in Cb : WF_vars(ANext(c)) /\ WF_vars(DNext(c)))

(* ------------------------------ properties ------------------------------ *)
OneWinner == Cardinality({r \in Req : rres[r] = "true"}) <= 1
AtMostOnce == \A c \in Cb : executed[c] <= 1
\* nobody touches a stop_callback object after its destructor has returned
NoUseAfterDestroy == ~bad
\* the destructor on another thread returns only when the callback is not running
DtorWaits == \A c \in Cb \ SelfDestroy : destroyed[c] => ~running[c]
AllDone == /\ \A r \in Req : rpc[r] = "done"
           /\ \A c \in Cb : apc[c] = "done" /\ (c \in SelfDestroy \cup KeepAlive \/ dpc[c] = "done")
\* every callback ran exactly once unless its destructor removed it first
EveryCallbackAccountedFor == AllDone => \A c \in Cb : executed[c] + (IF unlinked[c] THEN 1 ELSE 0) = 1
SomeWinner == AllDone => \E r \in Req : rres[r] = "true"
Terminates == <>AllDone
=============================================================================
