---------------------------- MODULE MpiTrace ----------------------------
EXTENDS MpiAbs, Json, IOUtils, TLC, Sequences
TraceLog == ndJsonDeserialize(IOEnv.TRACE)
VARIABLE l
tvars == <<vars, l>>
Rec == TraceLog[l]
Has == l <= Len(TraceLog)
Is(e) == Has /\ Rec.e = e
Adv == l' = l + 1
TInit == l = 1 /\ TLCSet(1, 0) /\ Init
TNext ==
    \/ Is("init") /\ posted' = {} /\ sent' = {} /\ signalled' = [k \in Req |-> 0] /\ waitSnap' = {}
         /\ inWait' = FALSE /\ Adv
    \/ Is("post") /\ Post(Rec.k) /\ Adv
    \/ Is("send") /\ Send(Rec.k) /\ Adv
    \/ Is("signal") /\ Signal(Rec.k, Rec.ok = 1) /\ Adv
    \/ Is("wait_call") /\ WaitCall /\ Adv
    \/ Is("wait_ret") /\ WaitRet /\ Adv
    \/ Is("reset") /\ AllDone /\ ~inWait /\ UNCHANGED vars /\ Adv
TSpec == TInit /\ [][TNext]_tvars
NotAccepted == l <= Len(TraceLog)
TrackMax == IF l > TLCGet(1) THEN TLCSet(1, l) ELSE TRUE
PrintMax == PrintT(<<"MAXL", TLCGet(1)>>)
=============================================================================
