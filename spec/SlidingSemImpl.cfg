SPECIFICATION Spec
CONSTANTS
  Waiter = {1,2}
  Signaler = {11,12}
  D = 1
  Upper <- UpperDef
  Values <- ValuesDef3
  Variant = "none"
INVARIANTS Admitted QueueOk
PROPERTIES Monotone Progress
CHECK_DEADLOCK FALSE
