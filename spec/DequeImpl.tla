------------------------------ MODULE DequeImpl ------------------------------
(* Fine-grained model of pika::concurrency::detail::deque (Michael's CAS-based lock-free deque,
   libs/pika/concurrency/include/pika/concurrency/deque.hpp), property C17.

   anchor = <<left ptr, right ptr, status, tag>> is one CAS-able word (status: stable, lpush, rpush).
   Every node has a left and a right link.  One step per shared-memory access (anchor load, anchor CAS,
   link load, link store, link CAS); per-thread locals: the anchor snapshot lrs, prev, prevnext.
     push(side, n):  loop: lrs := anchor;
                       empty     -> CAS(anchor, lrs -> <<n, n, lrs.st, tag+1>>)                 => done
                       stable    -> n.inward := near(lrs); CAS(anchor, lrs -> near := n, st := push(side))
                                    => stabilize(side, new anchor); done
                       otherwise -> stabilize(lrs)
     pop(side):      loop: lrs := anchor;
                       empty       -> return EMPTY
                       one element -> CAS(anchor, lrs -> <<null, null, st, tag+1>>)              => return it
                       stable      -> (anchor = lrs?) prev := near(lrs).inward;
                                      CAS(anchor, lrs -> near := prev)                           => return near(lrs)
                       otherwise   -> stabilize(lrs)
     stabilize(side, lrs): prev := near(lrs).inward; anchor # lrs => return; prevnext := prev.outward;
                       prevnext # near(lrs) => (anchor # lrs => return; CAS(prev.outward, prevnext -> near(lrs))
                       fails => return);  CAS(anchor, lrs -> st := stable, tag+1)
   Nodes are never re-used in the model (every push takes a fresh node), so the tags matter only as
   version numbers of the anchor.

   Variant "pop_ignores_other_push": a pop on one end treats the deque as stable unless a push is in
   flight on ITS OWN end (seeded change C17-1).  Variant "push_ignores_other_push": the same for pushes
   (seeded change C17-2): a push overwrites the status of an unstabilised push on the other end.    *)
EXTENDS Naturals, Sequences, FiniteSets
CONSTANTS Thread, Prog, Variant, Null
\* Prog[t]: sequence of operations <<kind, side>>, kind \in {"push","pop"}, side \in {"L","R"}

VARIABLES anchor, link, pc, lrs, prev, pnext, cur, opi, node, nextNode, popped, pushed, side
vars == <<anchor, link, pc, lrs, prev, pnext, cur, opi, node, nextNode, popped, pushed, side>>

MaxNodes == LET RECURSIVE Cnt(_) Cnt(S) == IF S = {} THEN 0 ELSE LET t == CHOOSE x \in S : TRUE IN Len(Prog[t]) + Cnt(S \ {t}) IN Cnt(Thread)
Node == 1..MaxNodes
A(l, r, st, tag) == [l |-> l, r |-> r, st |-> st, tag |-> tag]
Near(a, s) == IF s = "L" THEN a.l ELSE a.r
WithNear(a, s, x) == IF s = "L" THEN [a EXCEPT !.l = x] ELSE [a EXCEPT !.r = x]
In(s) == IF s = "L" THEN "R" ELSE "L"       \* the inward link of the near node on side s
PushSt(s) == IF s = "L" THEN "lpush" ELSE "rpush"
SideOf(st) == IF st = "lpush" THEN "L" ELSE "R"

Init == /\ anchor = A(Null, Null, "stable", 0)
        /\ link = [n \in Node |-> [d \in {"L", "R"} |-> Null]]
        /\ pc = [t \in Thread |-> "next"] /\ lrs = [t \in Thread |-> A(Null, Null, "stable", 0)]
        /\ prev = [t \in Thread |-> Null] /\ pnext = [t \in Thread |-> Null]
        /\ cur = [t \in Thread |-> A(Null, Null, "stable", 0)]
        /\ opi = [t \in Thread |-> 1] /\ node = [t \in Thread |-> Null] /\ nextNode = 1
        /\ popped = <<>> /\ pushed = {} /\ side = [t \in Thread |-> "L"]

Goto(t, p) == pc' = [pc EXCEPT ![t] = p]
Op(t) == Prog[t][opi[t]]

\* fetch the next operation
NextOp(t) ==
    /\ pc[t] = "next" /\ opi[t] <= Len(Prog[t])
    /\ side' = [side EXCEPT ![t] = Op(t)[2]]
    /\ IF Op(t)[1] = "push"
          THEN /\ node' = [node EXCEPT ![t] = nextNode] /\ nextNode' = nextNode + 1
               /\ pushed' = pushed \cup {nextNode}
          ELSE UNCHANGED <<node, nextNode, pushed>>
    /\ Goto(t, "load")
    /\ UNCHANGED <<anchor, link, lrs, prev, pnext, cur, opi, popped>>
Finish(t, r) ==   \* operation complete
    /\ opi' = [opi EXCEPT ![t] = @ + 1] /\ Goto(t, "next")
    /\ popped' = IF r # Null THEN Append(popped, r) ELSE popped

Load(t) ==
    /\ pc[t] = "load" /\ lrs' = [lrs EXCEPT ![t] = anchor]
    /\ LET a == anchor  s == side[t]  k == Op(t)[1]
           single == k = "pop" /\ a.l = a.r
           stableFor == IF (Variant = "pop_ignores_other_push" /\ k = "pop")
                              \/ (Variant = "push_ignores_other_push" /\ k = "push")
                           THEN a.st # PushSt(s) ELSE a.st = "stable" IN
       CASE Near(a, s) = Null /\ k = "pop" -> Finish(t, Null) /\ UNCHANGED cur
         [] Near(a, s) = Null /\ k = "push" -> Goto(t, "cas_empty") /\ UNCHANGED <<opi, popped, cur>>
         [] Near(a, s) # Null /\ single -> Goto(t, "cas_single") /\ UNCHANGED <<opi, popped, cur>>
         [] Near(a, s) # Null /\ ~single /\ stableFor ->
                Goto(t, IF k = "push" THEN "setlink" ELSE "recheck") /\ UNCHANGED <<opi, popped, cur>>
         [] OTHER -> cur' = [cur EXCEPT ![t] = a] /\ Goto(t, "st_prev") /\ UNCHANGED <<opi, popped>>
    /\ UNCHANGED <<anchor, link, prev, pnext, node, nextNode, pushed, side>>

(* ---- push ---- *)
CasEmpty(t) ==
    /\ pc[t] = "cas_empty"
    /\ IF anchor = lrs[t]
          THEN /\ anchor' = A(node[t], node[t], lrs[t].st, lrs[t].tag + 1) /\ Finish(t, Null)
          ELSE Goto(t, "load") /\ UNCHANGED <<anchor, opi, popped>>
    /\ UNCHANGED <<link, lrs, prev, pnext, cur, node, nextNode, pushed, side>>
SetLink(t) ==
    /\ pc[t] = "setlink"
    /\ link' = [link EXCEPT ![node[t]][In(side[t])] = Near(lrs[t], side[t])]
    /\ Goto(t, "cas_push")
    /\ UNCHANGED <<anchor, lrs, prev, pnext, cur, opi, node, nextNode, popped, pushed, side>>
CasPush(t) ==
    /\ pc[t] = "cas_push"
    /\ IF anchor = lrs[t]
          THEN LET na == [WithNear(lrs[t], side[t], node[t]) EXCEPT !.st = PushSt(side[t]), !.tag = lrs[t].tag + 1] IN
               /\ anchor' = na /\ cur' = [cur EXCEPT ![t] = na] /\ Goto(t, "st_prev")
          ELSE Goto(t, "load") /\ UNCHANGED <<anchor, cur>>
    /\ UNCHANGED <<link, lrs, prev, pnext, opi, node, nextNode, popped, pushed, side>>

(* ---- pop ---- *)
CasSingle(t) ==
    /\ pc[t] = "cas_single"
    /\ IF anchor = lrs[t]
          THEN /\ anchor' = A(Null, Null, lrs[t].st, lrs[t].tag + 1) /\ Finish(t, lrs[t].l)
          ELSE Goto(t, "load") /\ UNCHANGED <<anchor, opi, popped>>
    /\ UNCHANGED <<link, lrs, prev, pnext, cur, node, nextNode, pushed, side>>
Recheck(t) ==
    /\ pc[t] = "recheck" /\ Goto(t, IF anchor = lrs[t] THEN "pop_prev" ELSE "load")
    /\ UNCHANGED <<anchor, link, lrs, prev, pnext, cur, opi, node, nextNode, popped, pushed, side>>
PopPrev(t) ==
    /\ pc[t] = "pop_prev" /\ prev' = [prev EXCEPT ![t] = link[Near(lrs[t], side[t])][In(side[t])]]
    /\ Goto(t, "cas_pop")
    /\ UNCHANGED <<anchor, link, lrs, pnext, cur, opi, node, nextNode, popped, pushed, side>>
CasPop(t) ==
    /\ pc[t] = "cas_pop"
    /\ IF anchor = lrs[t]
          THEN /\ anchor' = [WithNear(lrs[t], side[t], prev[t]) EXCEPT !.tag = lrs[t].tag + 1]
               /\ Finish(t, Near(lrs[t], side[t]))
          ELSE Goto(t, "load") /\ UNCHANGED <<anchor, opi, popped>>
    /\ UNCHANGED <<link, lrs, prev, pnext, cur, node, nextNode, pushed, side>>

(* ---- stabilize(cur[t]); the side is the one named by the status ---- *)
SS(t) == SideOf(cur[t].st)
After(t) ==   \* where to continue after stabilize: a finished push, or retry
    IF Op(t)[1] = "push" /\ cur[t].st = PushSt(side[t]) /\ Near(cur[t], side[t]) = node[t] THEN "pushdone" ELSE "load"
StPrev(t) ==
    /\ pc[t] = "st_prev" /\ prev' = [prev EXCEPT ![t] = link[Near(cur[t], SS(t))][In(SS(t))]]
    /\ Goto(t, "st_chk1")
    /\ UNCHANGED <<anchor, link, lrs, pnext, cur, opi, node, nextNode, popped, pushed, side>>
StChk1(t) ==
    /\ pc[t] = "st_chk1" /\ Goto(t, IF anchor = cur[t] THEN "st_pnext" ELSE After(t))
    /\ UNCHANGED <<anchor, link, lrs, prev, pnext, cur, opi, node, nextNode, popped, pushed, side>>
StPnext(t) ==
    /\ pc[t] = "st_pnext" /\ pnext' = [pnext EXCEPT ![t] = link[prev[t]][SS(t)]]
    /\ Goto(t, IF link[prev[t]][SS(t)] # Near(cur[t], SS(t)) THEN "st_chk2" ELSE "st_cas")
    /\ UNCHANGED <<anchor, link, lrs, prev, cur, opi, node, nextNode, popped, pushed, side>>
StChk2(t) ==
    /\ pc[t] = "st_chk2" /\ Goto(t, IF anchor = cur[t] THEN "st_fix" ELSE After(t))
    /\ UNCHANGED <<anchor, link, lrs, prev, pnext, cur, opi, node, nextNode, popped, pushed, side>>
StFix(t) ==
    /\ pc[t] = "st_fix"
    /\ IF link[prev[t]][SS(t)] = pnext[t]
          THEN link' = [link EXCEPT ![prev[t]][SS(t)] = Near(cur[t], SS(t))] /\ Goto(t, "st_cas")
          ELSE Goto(t, After(t)) /\ UNCHANGED link
    /\ UNCHANGED <<anchor, lrs, prev, pnext, cur, opi, node, nextNode, popped, pushed, side>>
StCas(t) ==
    /\ pc[t] = "st_cas"
    /\ IF anchor = cur[t] THEN anchor' = [cur[t] EXCEPT !.st = "stable", !.tag = cur[t].tag + 1]
                          ELSE UNCHANGED anchor
    /\ Goto(t, After(t))
    /\ UNCHANGED <<link, lrs, prev, pnext, cur, opi, node, nextNode, popped, pushed, side>>
PushDone(t) ==
    /\ pc[t] = "pushdone" /\ Finish(t, Null)
    /\ UNCHANGED <<anchor, link, lrs, prev, pnext, cur, node, nextNode, pushed, side>>

Step(t) == NextOp(t) \/ Load(t) \/ CasEmpty(t) \/ SetLink(t) \/ CasPush(t) \/ CasSingle(t) \/ Recheck(t)
           \/ PopPrev(t) \/ CasPop(t) \/ StPrev(t) \/ StChk1(t) \/ StPnext(t) \/ StChk2(t) \/ StFix(t)
           \/ StCas(t) \/ PushDone(t)
Next == \E t \in Thread : Step(t)
Spec == Init /\ [][Next]_vars /\ \A t \in Thread : WF_vars(Step(t))

(* ------------------------------ properties ------------------------------ *)
PoppedSet == {popped[i] : i \in 1..Len(popped)}
\* nothing is returned twice, nothing is invented
ExactlyOnce == /\ \A i, j \in 1..Len(popped) : i # j => popped[i] # popped[j]
               /\ PoppedSet \subseteq pushed
AllDone == \A t \in Thread : pc[t] = "next" /\ opi[t] > Len(Prog[t])
\* the elements reachable from the left end by following right links (when everything is quiescent)
RECURSIVE Walk(_, _, _)
Walk(n, acc, fuel) == IF n = Null \/ fuel = 0 THEN acc
                      ELSE IF n = anchor.r THEN acc \cup {n} ELSE Walk(link[n]["R"], acc \cup {n}, fuel - 1)
Remaining == IF anchor.l = Null THEN {} ELSE Walk(anchor.l, {}, MaxNodes)
\* once all operations have completed every pushed element is either popped or still in the deque
NothingLost == AllDone => (PoppedSet \cup Remaining = pushed /\ PoppedSet \cap Remaining = {})
Terminates == <>AllDone
=============================================================================
