---------------------------- MODULE MutexCvAbs ----------------------------
(* Abstract specification of one pika mutex (C06) and one condition variable waiting on it (C07).

   Mutex kinds (constant per history, variable mkind): "mutex", "timed", "recursive", "spin".
   Ops (Call / internal steps / Ret):
     lock, try_lock, try_lock_until(dl), unlock              -- results: 1 ok, 0 failed,
                                                               -2 deadlock error, -3 lock_error
     wait, wait_until(dl)            plain waits              -- wait_until: 1 no_timeout, 0 timeout
     wait_pred, wait_until_pred(dl), wait_stop, wait_until_stop(dl)   predicate = flag; result = pred
     notify_one, notify_all, set_flag (under the lock), request_stop
   The critical-section data is a counter incremented by every unlock; a successful lock reports
   the value it reads ("val" in its return record).

   Spurious wake-ups are permitted (the property does not forbid them); what is demanded is that a
   wake-up that is *due* is not lost: see Obligation / QuiescentOk.                             *)
EXTENDS Naturals, Integers, FiniteSets

CONSTANTS Actor, Deviations
VARIABLES mkind, owner, depth, data, waiting, wake, flag, stopReq, op
vars == <<mkind, owner, depth, data, waiting, wake, flag, stopReq, op>>

Idle == [kind |-> "none", dl |-> 0, st |-> "idle", res |-> 0]
WaitKinds == {"wait", "wait_until", "wait_pred", "wait_until_pred", "wait_stop", "wait_until_stop"}
PredKinds == {"wait_pred", "wait_until_pred", "wait_stop", "wait_until_stop"}
TimedWaits == {"wait_until", "wait_until_pred", "wait_until_stop"}
StopKinds == {"wait_stop", "wait_until_stop"}

Init(mk) ==
    /\ mkind = mk /\ owner = 0 /\ depth = 0 /\ data = 0
    /\ waiting = {} /\ wake = {} /\ flag = FALSE /\ stopReq = FALSE
    /\ op = [a \in Actor |-> Idle]

Call(a, kind, dl) ==
    /\ op[a].st = "idle"
    /\ op' = [op EXCEPT ![a] = [kind |-> kind, dl |-> dl, st |-> "called", res |-> 0]]
    /\ UNCHANGED <<mkind, owner, depth, data, waiting, wake, flag, stopReq>>

Done(a, r) == op' = [op EXCEPT ![a].st = "done", ![a].res = r]
St(a, s) == op' = [op EXCEPT ![a].st = s]
Detects == mkind \in {"mutex", "timed"}     \* misuse is detected and reported
CanTake(a) == owner = 0 \/ (mkind = "recursive" /\ owner = a)
Take(a) == owner' = a /\ depth' = depth + 1

(* ------------------------------ mutex ------------------------------ *)
LinLock(a) ==
    /\ op[a].st = "called" /\ op[a].kind = "lock"
    /\ \/ CanTake(a) /\ Take(a) /\ Done(a, 1)
       \/ Detects /\ owner = a /\ Done(a, -2) /\ UNCHANGED <<owner, depth>>
    /\ UNCHANGED <<mkind, data, waiting, wake, flag, stopReq>>

Others(a) == \E b \in Actor \ {a} : op[b].st # "idle"

LinTryLock(a, timeOk) ==
    /\ op[a].st = "called" /\ op[a].kind \in {"try_lock", "try_lock_until"}
    /\ \/ CanTake(a) /\ Take(a) /\ Done(a, 1)
       \* failing is legitimate exactly when somebody else owns the mutex at that instant (also for
       \* the timed form, which may give up early when it was woken but lost the race)
       \/ /\ owner # 0 /\ ~(mkind = "recursive" /\ owner = a)
          /\ Done(a, 0) /\ UNCHANGED <<owner, depth>>
    /\ UNCHANGED <<mkind, data, waiting, wake, flag, stopReq>>

LinUnlock(a) ==
    /\ op[a].st = "called" /\ op[a].kind = "unlock"
    /\ \/ /\ owner = a
          /\ depth' = depth - 1
          /\ owner' = IF depth = 1 THEN 0 ELSE a
          /\ data' = data + 1
          /\ Done(a, 1)
       \/ /\ Detects /\ owner # a /\ Done(a, -3) /\ UNCHANGED <<owner, depth, data>>
    /\ UNCHANGED <<mkind, waiting, wake, flag, stopReq>>

(* ------------------------- condition variable ------------------------- *)
\* a predicate form whose predicate already holds returns without waiting; a stop form returns
\* the predicate when stop has been requested
LinPredReady(a) ==
    /\ op[a].st = "called" /\ op[a].kind \in PredKinds /\ owner = a
    /\ \/ flag /\ Done(a, 1)
       \/ ~flag /\ op[a].kind \in StopKinds /\ stopReq /\ Done(a, 0)
    /\ UNCHANGED <<mkind, owner, depth, data, waiting, wake, flag, stopReq>>

\* atomically: release the user lock and become a waiter
WaitBegin(a) ==
    /\ op[a].st = "called" /\ op[a].kind \in WaitKinds /\ owner = a /\ depth = 1
    /\ (op[a].kind \in PredKinds => ~flag)
    /\ (op[a].kind \in StopKinds => ~stopReq)
    /\ owner' = 0 /\ depth' = 0
    /\ waiting' = waiting \cup {a}
    /\ St(a, "waiting")
    /\ UNCHANGED <<mkind, data, wake, flag, stopReq>>

\* woken by a notification that is due, or spuriously
Wake(a) ==
    /\ op[a].st = "waiting"
    /\ waiting' = waiting \ {a} /\ wake' = wake \ {a}
    /\ op' = [op EXCEPT ![a].st = "woken", ![a].res = 1]
    /\ UNCHANGED <<mkind, owner, depth, data, flag, stopReq>>

\* the deadline passed without a notification for this waiter
TimeoutWake(a, timeOk) ==
    /\ op[a].st = "waiting" /\ op[a].kind \in TimedWaits
    /\ a \notin wake /\ timeOk
    /\ waiting' = waiting \ {a}
    /\ op' = [op EXCEPT ![a].st = "woken", ![a].res = 0]
    /\ UNCHANGED <<mkind, owner, depth, data, wake, flag, stopReq>>

\* re-acquire the user lock; plain forms return, predicate forms re-evaluate
Reacquire(a) ==
    /\ op[a].st = "woken" /\ owner = 0
    /\ owner' = a /\ depth' = 1
    /\ IF op[a].kind \in PredKinds
          THEN IF op[a].res = 0 THEN Done(a, IF flag THEN 1 ELSE 0)    \* timed out: return pred()
                                ELSE St(a, "called")                    \* loop
          ELSE St(a, "done")
    /\ UNCHANGED <<mkind, data, waiting, wake, flag, stopReq>>

LinNotify(a) ==
    /\ op[a].st = "called"
    /\ \/ /\ op[a].kind = "notify_one"
          /\ IF waiting \ wake = {} THEN UNCHANGED wake
             ELSE \E w \in waiting \ wake : wake' = wake \cup {w}
          /\ UNCHANGED <<flag, stopReq>>
       \/ /\ op[a].kind = "notify_all" /\ wake' = waiting /\ UNCHANGED <<flag, stopReq>>
       \/ /\ op[a].kind = "set_flag" /\ owner = a /\ flag' = TRUE /\ UNCHANGED <<wake, stopReq>>
       \/ /\ op[a].kind = "request_stop" /\ stopReq' = TRUE
          /\ wake' = wake \cup {w \in waiting : op[w].kind \in StopKinds}
          /\ UNCHANGED flag
    /\ Done(a, 1)
    /\ UNCHANGED <<mkind, owner, depth, data, waiting>>

Lin(a, timeOk) ==
    \/ LinLock(a) \/ LinTryLock(a, timeOk) \/ LinUnlock(a) \/ LinPredReady(a) \/ WaitBegin(a)
    \/ Wake(a) \/ TimeoutWake(a, timeOk) \/ Reacquire(a) \/ LinNotify(a)

Ret(a, r) ==
    /\ op[a].st = "done" /\ op[a].res = r
    /\ op' = [op EXCEPT ![a] = Idle]
    /\ UNCHANGED <<mkind, owner, depth, data, waiting, wake, flag, stopReq>>

(* ------------------------------- properties ------------------------------- *)
\* a step that the implementation owes (as opposed to a spurious wake-up, which it may take)
Obligation(a) ==
    \/ op[a].st = "called" /\ op[a].kind = "lock" /\ CanTake(a)
    \/ op[a].st = "called" /\ op[a].kind \in {"try_lock", "try_lock_until", "unlock", "notify_one",
                                              "notify_all", "set_flag", "request_stop"}
    \/ op[a].st = "called" /\ op[a].kind \in WaitKinds         \* WaitBegin / PredReady: owner = a
    \/ op[a].st = "waiting" /\ a \in wake                       \* a due wake-up
    \/ op[a].st = "woken" /\ owner = 0
QuiescentOk == \A a \in Actor : ~Obligation(a)

MutualExclusion == (owner = 0 <=> depth = 0) /\ (mkind # "recursive" => depth <= 1)
WakeSubset == wake \subseteq waiting
=============================================================================
