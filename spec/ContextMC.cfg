SPECIFICATION MCSpec
CONSTANTS
  Task = {1,2,3}
  Deviations = {}
INVARIANT StacksDisjoint
PROPERTY FrameCondition
CHECK_DEADLOCK FALSE
