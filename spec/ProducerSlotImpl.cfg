SPECIFICATION Spec
CONSTANTS
  Thread = {1,2,3}
  MaxSlots = 3
  PerThread = 2
  Variant = "none"
INVARIANTS OneOwner NothingLost NothingTwice
CHECK_DEADLOCK FALSE
