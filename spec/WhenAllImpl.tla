----------------------------- MODULE WhenAllImpl -----------------------------
(* Fine-grained model of the when_all operation state (execution/algorithms/when_all.hpp), C03.

   Each predecessor p completes with value / error / stopped on its own thread:
     set_value:   if !flag: store p's values            ; finish()
     set_error:   if !flag.exchange(true): error := e   ; finish()       (only the winner writes `error`)
     set_stopped: flag := true                          ; finish()
     finish():    if --remaining = 0:  !flag -> set_value(all values) ; error set -> set_error(error) ;
                                       else -> set_stopped
   The error slot is a plain std::optional: two concurrent writers are a data race (one of the stored
   error objects is overwritten without being destroyed).
   Variant "check_then_act": set_error tests the flag, writes the error, then sets the flag (seeded
   change C03-2).                                                                                  *)
EXTENDS Naturals, FiniteSets, Sequences
CONSTANTS Pred, Outcome, Variant      \* Outcome[p] \in {"value", "error", "stopped"}
VARIABLES flag, err, writing, stored, remaining, pc, signals, raced
vars == <<flag, err, writing, stored, remaining, pc, signals, raced>>
Init == /\ flag = FALSE /\ err = {} /\ writing = {} /\ stored = {} /\ remaining = Cardinality(Pred)
        /\ pc = [p \in Pred |-> "start"] /\ signals = <<>> /\ raced = FALSE
Goto(p, s) == pc' = [pc EXCEPT ![p] = s]
Start(p) ==
    /\ pc[p] = "start"
    /\ CASE Outcome[p] = "value" ->
              (IF ~flag THEN stored' = stored \cup {p} ELSE UNCHANGED stored)
              /\ Goto(p, "finish") /\ UNCHANGED <<flag, err, writing, raced>>
         [] Outcome[p] = "stopped" -> flag' = TRUE /\ Goto(p, "finish") /\ UNCHANGED <<err, writing, stored, raced>>
         [] Outcome[p] = "error" ->
              IF Variant = "check_then_act"
                 THEN (IF ~flag THEN Goto(p, "write") ELSE Goto(p, "finish")) /\ UNCHANGED <<flag, err, writing, stored, raced>>
                 ELSE (IF ~flag THEN flag' = TRUE /\ Goto(p, "write") ELSE Goto(p, "finish") /\ UNCHANGED flag)
                      /\ UNCHANGED <<err, writing, stored, raced>>
    /\ UNCHANGED <<remaining, signals>>
\* writing the error slot takes time: begin / end, so that two writers can overlap
WriteBegin(p) == /\ pc[p] = "write" /\ raced' = (raced \/ writing # {} \/ err # {})
                 /\ writing' = writing \cup {p} /\ Goto(p, "written")
                 /\ UNCHANGED <<flag, err, stored, remaining, signals>>
WriteEnd(p) == /\ pc[p] = "written" /\ writing' = writing \ {p} /\ err' = {p}
               /\ (IF Variant = "check_then_act" THEN flag' = TRUE ELSE UNCHANGED flag)
               /\ Goto(p, "finish") /\ UNCHANGED <<stored, remaining, signals, raced>>
Finish(p) ==
    /\ pc[p] = "finish" /\ remaining' = remaining - 1 /\ Goto(p, "done")
    /\ signals' = IF remaining = 1
                     THEN Append(signals, IF ~flag THEN "value" ELSE IF err # {} THEN "error" ELSE "stopped")
                     ELSE signals
    /\ UNCHANGED <<flag, err, writing, stored, raced>>
Next == \E p \in Pred : Start(p) \/ WriteBegin(p) \/ WriteEnd(p) \/ Finish(p)
Spec == Init /\ [][Next]_vars /\ \A p \in Pred : WF_vars(Start(p) \/ WriteBegin(p) \/ WriteEnd(p) \/ Finish(p))

AllDone == \A p \in Pred : pc[p] = "done"
NSig == Len(signals)
AtMostOneSignal == NSig <= 1
\* exactly one signal, on the right channel: value iff every predecessor sent a value (then all values are
\* stored), stopped/error otherwise, error only if some predecessor sent one
RightSignal == AllDone =>
    /\ NSig = 1
    /\ (signals[1] = "value") = (\A p \in Pred : Outcome[p] = "value")
    /\ signals[1] = "value" => stored = Pred
    /\ signals[1] = "error" => \E p \in Pred : Outcome[p] = "error"
\* the error slot has a single writer (every stored error object is destroyed exactly once)
SingleErrorWriter == ~raced
Terminates == <>AllDone
=============================================================================
