---------------------------- MODULE RwTrace ----------------------------
EXTENDS RwAbs, Json, IOUtils, TLC
TraceLog == ndJsonDeserialize(IOEnv.TRACE)
VARIABLE l
tvars == <<vars, l>>
Rec == TraceLog[l]
Has == l <= Len(TraceLog)
Is(e) == Has /\ Rec.e = e
Adv == l' = l + 1
TInit == l = 1 /\ TLCSet(1, 0) /\ Init
TNext ==
    \/ Is("init") /\ n' = 0 /\ kind' = [i \in Acc |-> "R"] /\ grp' = [i \in Acc |-> 0]
         /\ st' = [i \in Acc |-> "none"] /\ Adv
    \/ Is("request") /\ Rec.i = n + 1 /\ Request(Rec.k) /\ Adv
    \* the mutex object was move-assigned to another object: the request sequence simply continues
    \/ Is("relocate") /\ Rec.after = n /\ UNCHANGED vars /\ Adv
    \/ Is("start") /\ Start(Rec.i) /\ Adv
    \/ Is("drop") /\ Drop(Rec.i) /\ Adv
    \/ Is("grant") /\ Grant(Rec.i, Rec.v) /\ Adv
    \/ Is("release") /\ Release(Rec.i) /\ Adv
    \/ Is("quiescent") /\ QuiescentOk /\ UNCHANGED vars /\ Adv
    \* a complete history: every started access was granted and released
    \/ Is("reset") /\ (\A i \in 1..n : st[i] \in {"released", "dropped"}) /\ UNCHANGED vars /\ Adv
TSpec == TInit /\ [][TNext]_tvars
NotAccepted == l <= Len(TraceLog)
TrackMax == IF l > TLCGet(1) THEN TLCSet(1, l) ELSE TRUE
PrintMax == PrintT(<<"MAXL", TLCGet(1)>>)
=============================================================================
