SPECIFICATION Spec
CONSTANTS
  Task = {t1, t2, t3}
  Variant = "ok"
INVARIANT StopPost
PROPERTY StopReturns
CHECK_DEADLOCK FALSE
