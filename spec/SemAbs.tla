------------------------------ MODULE SemAbs ------------------------------
(* Abstract (API-level) specification of pika's semaphores (property C08).

   One semaphore object, either counting/binary (state: permits) or sliding (state: lower,
   maxDiff).  Every API call is three steps: Call (invocation), Lin (the atomic effect, somewhere
   between invocation and return) and Ret (return with the result computed at Lin).

   Counting:  acquire / try_acquire / try_acquire_until(deadline) / release(n)
   Sliding :  swait(u) / stry_wait(u) / ssignal(x) / ssetmax(d)

   Named deviation (what the code at the pinned commit really does, disabled unless listed in
   Deviations):
     "TimedAcquireFalseAfterSignal": a try_acquire_until that had to block returns false even
        though it was signalled / a permit is available.                                        *)
EXTENDS Naturals, Integers, FiniteSets

CONSTANTS Actor,        \* set of calling tasks/threads
          Deviations    \* subset of deviation names that are enabled

VARIABLES permits,      \* counting semaphore: available permits
          lower,        \* sliding semaphore: signalled lower limit
          maxDiff,      \* sliding semaphore: configured max distance
          op,           \* op[a]: the call actor a is executing
          acquired,     \* ledger: total permits obtained by successful acquisitions
          released      \* ledger: initial permits + permits released so far

vars == <<permits, lower, maxDiff, op, acquired, released>>

Idle == [kind |-> "none", n |-> 0, dl |-> 0, st |-> "idle", res |-> 0]

AcquireKinds == {"acquire", "try_acquire", "try_acquire_until"}

Init(p0, md, lo) ==
    /\ permits = p0
    /\ lower = lo
    /\ maxDiff = md
    /\ op = [a \in Actor |-> Idle]
    /\ acquired = 0
    /\ released = p0

Call(a, kind, n, dl) ==
    /\ op[a].st = "idle"
    /\ op' = [op EXCEPT ![a] = [kind |-> kind, n |-> n, dl |-> dl, st |-> "called", res |-> 0]]
    /\ UNCHANGED <<permits, lower, maxDiff, acquired, released>>

Done(a, r) == op' = [op EXCEPT ![a].st = "done", ![a].res = r]

(* --- counting semaphore linearization points --- *)
LinAcquire(a) ==
    /\ op[a].st = "called" /\ op[a].kind \in AcquireKinds
    /\ permits >= op[a].n
    /\ permits' = permits - op[a].n
    /\ acquired' = acquired + op[a].n
    /\ Done(a, 1)
    /\ UNCHANGED <<lower, maxDiff, released>>

LinTryFail(a) ==
    /\ op[a].st = "called" /\ op[a].kind = "try_acquire"
    /\ permits < op[a].n
    /\ Done(a, 0)
    /\ UNCHANGED <<permits, lower, maxDiff, acquired, released>>

\* timeOk: the caller (model or trace spec) says whether the deadline can have passed here
LinTimeout(a, timeOk) ==
    /\ op[a].st = "called" /\ op[a].kind = "try_acquire_until"
    /\ timeOk
    /\ permits < op[a].n
    /\ Done(a, 0)
    /\ UNCHANGED <<permits, lower, maxDiff, acquired, released>>

DevTimedFalse(a) ==
    /\ "TimedAcquireFalseAfterSignal" \in Deviations
    /\ op[a].st = "called" /\ op[a].kind = "try_acquire_until"
    /\ Done(a, 0)
    /\ UNCHANGED <<permits, lower, maxDiff, acquired, released>>

LinRelease(a) ==
    /\ op[a].st = "called" /\ op[a].kind = "release"
    /\ permits' = permits + op[a].n
    /\ released' = released + op[a].n
    /\ Done(a, 0)
    /\ UNCHANGED <<lower, maxDiff, acquired>>

(* --- sliding semaphore --- *)
Within(u) == u - maxDiff <= lower

LinSWait(a) ==
    /\ op[a].st = "called" /\ op[a].kind = "swait"
    /\ Within(op[a].n)
    /\ Done(a, 1)
    /\ UNCHANGED <<permits, lower, maxDiff, acquired, released>>

LinSTry(a) ==
    /\ op[a].st = "called" /\ op[a].kind = "stry_wait"
    /\ Done(a, IF Within(op[a].n) THEN 1 ELSE 0)
    /\ UNCHANGED <<permits, lower, maxDiff, acquired, released>>

LinSSignal(a) ==
    /\ op[a].st = "called" /\ op[a].kind = "ssignal"
    /\ lower' = IF op[a].n > lower THEN op[a].n ELSE lower
    /\ Done(a, 0)
    /\ UNCHANGED <<permits, maxDiff, acquired, released>>

\* set_max_difference(d): the configured distance changes (the call also resets the lower limit to the value of
\* its second parameter, 0 here); waiters re-evaluate at the next signal
LinSSetMax(a) ==
    /\ op[a].st = "called" /\ op[a].kind = "ssetmax"
    /\ maxDiff' = op[a].n /\ lower' = 0
    /\ Done(a, 0)
    /\ UNCHANGED <<permits, acquired, released>>

Lin(a, timeOk) ==
    \/ LinSSetMax(a)
    \/ LinAcquire(a) \/ LinTryFail(a) \/ LinTimeout(a, timeOk) \/ DevTimedFalse(a) \/ LinRelease(a)
    \/ LinSWait(a) \/ LinSTry(a) \/ LinSSignal(a)

Ret(a, r) ==
    /\ op[a].st = "done"
    /\ op[a].res = r
    /\ op' = [op EXCEPT ![a] = Idle]
    /\ UNCHANGED <<permits, lower, maxDiff, acquired, released>>

(* A blocked call that could proceed in the current state: quiescence with such a call pending
   is a lost wake-up / lost permit. *)
CanProceed(a) ==
    /\ op[a].st = "called"
    /\ \/ op[a].kind \in AcquireKinds /\ permits >= op[a].n
       \/ op[a].kind = "swait" /\ Within(op[a].n)
       \/ op[a].kind \in {"release", "try_acquire", "stry_wait", "ssignal", "ssetmax"}

QuiescentOk == \A a \in Actor : ~CanProceed(a)

(* ------------------------------- properties ------------------------------- *)
Conservation ==
    /\ permits >= 0
    /\ acquired <= released
    /\ permits = released - acquired

\* a successful acquisition consumed a permit, a failed one did not: by construction of the Lin
\* actions; stated as an action property for the model check
ResultMeansConsumed ==
    [][\A a \in Actor :
          (op[a].st = "called" /\ op'[a].st = "done" /\ op[a].kind \in AcquireKinds) =>
              ((op'[a].res = 1) <=> (permits' = permits - op[a].n)) /\
              ((op'[a].res = 0) => permits' = permits)]_vars
=============================================================================
