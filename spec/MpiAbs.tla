------------------------------ MODULE MpiAbs ------------------------------
(* Abstract specification of pika's MPI sender adaptor (property C20), for receives whose matching
   message is sent later by the harness (single rank, self-addressed).  Request k:
   posted (the Irecv sender was started) -> sent (the harness called MPI_Send for it) -> signalled
   (the continuation ran).  The receiver is signalled exactly once and only after MPI can report the
   request complete, i.e. after the message was sent; the payload is then fully visible.
   pika::wait() does not return while requests posted before the call are still in flight.     *)
EXTENDS Naturals, FiniteSets
CONSTANTS Req
VARIABLES posted, sent, signalled, waitSnap, inWait
vars == <<posted, sent, signalled, waitSnap, inWait>>
Init == posted = {} /\ sent = {} /\ signalled = [k \in Req |-> 0] /\ waitSnap = {} /\ inWait = FALSE
Post(k) == k \notin posted /\ posted' = posted \cup {k} /\ UNCHANGED <<sent, signalled, waitSnap, inWait>>
Send(k) == k \in posted /\ k \notin sent /\ sent' = sent \cup {k} /\ UNCHANGED <<posted, signalled, waitSnap, inWait>>
Signal(k, payloadOk) ==
    /\ k \in sent                  \* only after the transfer can have completed
    /\ signalled[k] = 0            \* exactly once
    /\ payloadOk                   \* received data fully visible to the continuation
    /\ signalled' = [signalled EXCEPT ![k] = 1] /\ UNCHANGED <<posted, sent, waitSnap, inWait>>
WaitCall == ~inWait /\ inWait' = TRUE /\ waitSnap' = posted /\ UNCHANGED <<posted, sent, signalled>>
WaitRet == inWait /\ (\A k \in waitSnap : signalled[k] = 1) /\ inWait' = FALSE /\ waitSnap' = {}
           /\ UNCHANGED <<posted, sent, signalled>>
AllDone == \A k \in posted : signalled[k] = 1
=============================================================================
