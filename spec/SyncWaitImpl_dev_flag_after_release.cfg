SPECIFICATION Spec
CONSTANTS
  Variant = "flag_after_release"
  Channel = "value"
INVARIANTS TypeOK NoUseAfterDestroy ReturnsAfterCompletion ResultIsTheSignal LockFreeAtEnd
PROPERTY Terminates
CHECK_DEADLOCK FALSE
