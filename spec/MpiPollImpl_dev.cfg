SPECIFICATION Spec
CONSTANTS
  NReq = 4
  Chunk = 2
  Variant = "drop_base"
INVARIANT OnceAndOnlyWhenComplete
PROPERTY AllSignalled
CHECK_DEADLOCK FALSE
