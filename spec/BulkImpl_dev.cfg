SPECIFICATION Spec
CONSTANTS
  MaxN = 72
  MaxW = 4
  Bits = 6
INVARIANT Partition
INVARIANT LoopBounded
PROPERTY Terminates
CHECK_DEADLOCK FALSE
