SPECIFICATION Spec
CONSTANTS
  Consumer = {k1, k2, k3}
  Variant = "flag_after_lock"
INVARIANT AtMostOnce
INVARIANT NoStranded
PROPERTY ExactlyOnce
CHECK_DEADLOCK FALSE
