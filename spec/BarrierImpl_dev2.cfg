SPECIFICATION Spec
CONSTANTS
  P = 4
  Phases = 2
  Variant = "claim_by_exchange"
INVARIANT NoEarlyDeparture
INVARIANT CompletionOnce
PROPERTY AllPhasesDone
CHECK_DEADLOCK FALSE
