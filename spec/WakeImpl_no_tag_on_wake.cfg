SPECIFICATION Spec
CONSTANTS
  Worker = {w1, w2}
  Rounds = 2
  MaxHelpers = 2
  Variant = "no_tag_on_wake"
  DupRounds = {1}
INVARIANT SingleRunner
INVARIANT EnteredOnce
INVARIANT NoLostWake
PROPERTY Terminates
CHECK_DEADLOCK FALSE
