SPECIFICATION TSpec
INVARIANT NotAccepted
CHECK_DEADLOCK FALSE
