SPECIFICATION Spec
CONSTANTS
  W = {w1, w2}
  MaxTargets = 3
  Variant = "ok"
  None = None
INVARIANT NoBadDestroy
INVARIANT OwnsItsTarget
INVARIANT NoLeak
CHECK_DEADLOCK FALSE
