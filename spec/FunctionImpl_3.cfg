SPECIFICATION Spec
CONSTANTS
  W = {w1, w2, w3}
  MaxTargets = 4
  Variant = "ok"
  None = None
INVARIANT NoBadDestroy
INVARIANT OwnsItsTarget
INVARIANT NoLeak
CHECK_DEADLOCK FALSE
