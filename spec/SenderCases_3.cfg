SPECIFICATION Spec
CONSTANTS
  Depth = 3
  Stride = 7
INVARIANT Emit
INVARIANT DenOk
CHECK_DEADLOCK FALSE
