SPECIFICATION TSpec
CONSTANTS
  Actor = {1,2,3,4,9}
  OsActor = {3,4,9}
  SrcH = {1,2,3,4}
  TokH = {1,2}
  Cb = {1,2,3,4,5,6,7,8,9,10,11,12}
  MaxState = 6
  Deviations = {"DtorSkipsWaitAmongOsThreads"}
INVARIANT NotAccepted
CONSTRAINT TrackMax
POSTCONDITION PrintMax
CHECK_DEADLOCK FALSE
