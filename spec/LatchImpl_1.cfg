SPECIFICATION Spec
CONSTANTS
  Proc = {1,2,3,4}
  Kind <- K1
  Count = 3
  Variant = "ok"
INVARIANT NoEarlyReturn
PROPERTY AllReturn
CHECK_DEADLOCK FALSE
