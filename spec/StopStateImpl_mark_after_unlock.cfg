SPECIFICATION Spec
CONSTANTS
  Req = {r1, r2}
  Cb = {c1, c2}
  SelfDestroy = {c2}
  KeepAlive = {}
  Variant = "mark_after_unlock"
  None = None
INVARIANT OneWinner
INVARIANT AtMostOnce
INVARIANT NoUseAfterDestroy
INVARIANT DtorWaits
INVARIANT EveryCallbackAccountedFor
INVARIANT SomeWinner
PROPERTY Terminates
CHECK_DEADLOCK FALSE
