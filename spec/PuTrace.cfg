SPECIFICATION TSpec
CONSTANTS
  Actor = {1,2,3,4}
  Worker = {0,1,2}
  Task = {1,2,3,4,5,6,7,8,9,10,11,12,13,14,15,16,17,18,19,20,21,22,23,24}
INVARIANT NotAccepted
CONSTRAINT TrackMax
POSTCONDITION PrintMax
CHECK_DEADLOCK FALSE
