------------------------------ MODULE BulkAbs ------------------------------
(* Abstract specification of bulk(sender, n, f) on a pool scheduler (C11), one bulk at a time.
   f is called exactly once for every index in 0..n-1 and for nothing else, with the predecessor's
   values; the receiver gets exactly one signal, after the last call returned: the values if no
   call threw, otherwise one of the thrown exceptions.  n = 0 completes with the values at once. *)
EXTENDS Naturals, Integers, FiniteSets
CONSTANTS MaxIdx
VARIABLES n, throwers, calls, returned, signals, active
vars == <<n, throwers, calls, returned, signals, active>>
Idx == 0..MaxIdx
Init == n = 0 /\ throwers = {} /\ calls = [i \in Idx |-> 0] /\ returned = 0 /\ signals = 0 /\ active = FALSE
Begin(nn, E) == /\ ~active /\ n' = nn /\ throwers' = E /\ calls' = [i \in Idx |-> 0]
                /\ returned' = 0 /\ signals' = 0 /\ active' = TRUE
\* f(i, values...) is entered: i must be a valid index not called before; values unchanged (vok)
CallF(i, vok) == /\ active /\ signals = 0 /\ i \in 0..(n - 1) /\ calls[i] = 0 /\ vok
                 /\ calls' = [calls EXCEPT ![i] = 1] /\ UNCHANGED <<n, throwers, returned, signals, active>>
RetF(i) == /\ active /\ calls[i] = 1 /\ returned' = returned + 1
           /\ UNCHANGED <<n, throwers, calls, signals, active>>
\* the single completion signal
Complete(channel, vok, errIdx) ==
    /\ active /\ signals = 0
    /\ returned = Cardinality({i \in 0..(n - 1) : calls[i] = 1})        \* after the last call returned
    /\ IF throwers = {}
          THEN /\ channel = "value" /\ vok
               /\ \A i \in 0..(n - 1) : calls[i] = 1                    \* every index was called
          ELSE /\ channel = "error" /\ errIdx \in throwers              \* one of the thrown exceptions
               /\ calls[errIdx] = 1
    /\ signals' = 1 /\ UNCHANGED <<n, throwers, calls, returned, active>>
End == active /\ signals = 1 /\ active' = FALSE /\ UNCHANGED <<n, throwers, calls, returned, signals>>
=============================================================================
