---------------------------- MODULE SemAbsMC ----------------------------
(* Closed model of SemAbs for exhaustive checking: every actor issues up to MaxCalls calls chosen
   nondeterministically; the deadline of a timed acquire may pass at any time. *)
EXTENDS SemAbs, TLC

CONSTANTS MaxCalls, P0, MaxN, Kinds
VARIABLE calls
mvars == <<vars, calls>>

MCInit == Init(P0, 2, 0) /\ calls = [a \in Actor |-> 0]

MCCall(a) ==
    /\ calls[a] < MaxCalls
    /\ calls' = [calls EXCEPT ![a] = @ + 1]
    /\ \/ \E k \in {"acquire", "try_acquire", "try_acquire_until"} \cap Kinds : Call(a, k, 1, 0)
       \/ "release" \in Kinds /\ \E n \in 1..MaxN : Call(a, "release", n, 0)
       \/ \E u \in 0..4 : \E k \in {"swait", "stry_wait", "ssignal"} \cap Kinds : Call(a, k, u, 0)

MCNext ==
    \/ \E a \in Actor : MCCall(a)
    \/ \E a \in Actor : Lin(a, TRUE) /\ UNCHANGED calls
    \/ \E a \in Actor : Ret(a, op[a].res) /\ UNCHANGED calls

Fairness == \A a \in Actor : WF_mvars(Lin(a, FALSE) /\ UNCHANGED calls)
               /\ WF_mvars(Ret(a, op[a].res) /\ UNCHANGED calls)

MCSpec == MCInit /\ [][MCNext]_mvars /\ Fairness

\* false from an acquire variant only when no permit was available at the decision instant
FalseOnlyWithoutPermit ==
    [][\A a \in Actor :
          (op[a].st = "called" /\ op'[a].st = "done" /\ op[a].kind \in AcquireKinds
              /\ op'[a].res = 0) => permits < op[a].n]_mvars

\* a blocked acquirer proceeds once enough permits are there (someone acquires or permits vanish
\* to a competitor): with weak fairness of each Lin, "CanProceed forever" is impossible
NoStuckAcquirer == \A a \in Actor : [](CanProceed(a) => <>(~CanProceed(a)))

\* sliding semaphore: lower limit never decreases
LowerMonotone == [][lower' >= lower]_mvars
=============================================================================
