SPECIFICATION TSpec
CONSTANTS
  Actor = {1,2,3,4,9}
  OsActor = {3,4,9}
  SrcH = {1,2,3,4}
  TokH = {1,2}
  Cb = {1,2,3,4}
  MaxState = 6
  Deviations = {"SecondWinnerAfterUnlockedRetry"}
INVARIANT NotAccepted
CONSTRAINT TrackMax
POSTCONDITION PrintMax
CHECK_DEADLOCK FALSE
