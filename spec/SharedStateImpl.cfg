SPECIFICATION Spec
CONSTANTS
  Consumer = {k1, k2, k3}
  Variant = "ok"
INVARIANT AtMostOnce
INVARIANT NoStranded
PROPERTY ExactlyOnce
CHECK_DEADLOCK FALSE
