--------------------------- MODULE WakeStepTrace ---------------------------
(* Step-level conformance of the real runtime to WakeImpl (binding of the fine-grained spec).

   The trace is the sequence of PIKA_VERIF_POINT hook events that concern ONE target task's state
   word (scheduling_loop: sl.got / sl.active / sl.store; set_thread_state: sts.load / sts.cas /
   sts.sched; set_active_state: sas.enter [+ sas.abort]; the task's own agent.yield) plus the
   harness's `register` and `wake` records, each with the values the code observed (state, tag, CAS
   outcome).  The state word is lock-free, so a hook fires AFTER its atomic step and the order of
   two records of different actors need not be the order of their steps.  What does hold: an actor's
   step lies between its previous record and its own record.  Hence every actor may run at most ONE
   step ahead of the trace: an (unlogged) WakeImpl action of actor x leaves a descriptor of what x
   must have observed in pend[x]; x's next record must match it.  A trace is accepted iff all records
   can be consumed this way, i.e. iff the code took WakeImpl's steps with WakeImpl's outcomes.       *)
EXTENDS WakeImpl, Json, IOUtils, TLC
TraceLog == ndJsonDeserialize(IOEnv.TRACE)
VARIABLES l, pw, pk, ph, hkey
tvars == <<vars, l, pw, pk, ph, hkey>>
Rec == TraceLog[l]
Has == l <= Len(TraceLog)
Is(e) == Has /\ Rec.e = e
Adv == l' = l + 1

N(s) == CASE s = "active" -> 1 [] s = "pending" -> 2 [] s = "suspended" -> 3 [] s = "terminated" -> 4 [] OTHER -> 0
D(s, a, b, c) == [site |-> s, a |-> a, b |-> b, c |-> c]
NoD == D("", 0, 0, 0)

TInit == /\ l = 1 /\ TLCSet(1, 0) /\ Init
         /\ pw = [w \in Worker |-> NoD] /\ pk = [i \in Waker |-> NoD] /\ ph = [h \in Helper |-> NoD]
         /\ hkey = [h \in Helper |-> 0]

\* the target task has been activated by worker Rec.w and reads its own word: <<active, Rec.tag>>
Start ==
    /\ Is("tstart") /\ Rec.w \in Worker
    /\ word' = W("active", Rec.tag) /\ queue' = 0
    /\ wpc' = [w \in Worker |-> IF w = Rec.w THEN "running" ELSE "idle"]
    /\ wseen' = [w \in Worker |-> W("pending", Rec.tag - 1)]
    /\ worig' = [w \in Worker |-> W("active", Rec.tag)]
    /\ wnext' = [w \in Worker |-> "pending"]
    /\ tpc' = "start" /\ round' = 1 /\ regs' = {}
    /\ kpc' = [i \in Waker |-> "wait"] /\ kprev' = [i \in Waker |-> W("pending", 0)]
    /\ hpc' = [h \in Helper |-> "free"] /\ hprev' = [h \in Helper |-> W("pending", 0)]
    /\ hseen' = [h \in Helper |-> W("pending", 0)]
    /\ everReg' = {} /\ due' = {} /\ resumed' = {} /\ entered' = 1
    /\ pw' = [w \in Worker |-> NoD] /\ pk' = [i \in Waker |-> NoD] /\ ph' = [h \in Helper |-> NoD]
    /\ hkey' = [h \in Helper |-> 0]
    /\ Adv

(* ---- unlogged steps: an actor with no unconfirmed step takes one WakeImpl action ---- *)
StepW(w) ==
    /\ pw[w] = NoD
    /\ \/ WPop(w) /\ pw' = [pw EXCEPT ![w] = D("sl.got", N(word.st), word.tag, 0)]
       \/ WActivate(w) /\ pw' = [pw EXCEPT ![w] =
              IF wseen[w].st = "pending"
                 THEN D("sl.active", IF word = wseen[w] THEN 1 ELSE 0, wseen[w].tag + 1, 0) ELSE NoD]
       \/ TStep(w) /\ pw' = [pw EXCEPT ![w] =
              IF tpc' = "registered"
                 THEN (IF tpc = "resumed" /\ round' = round THEN NoD ELSE D("register", round', 0, 0))
                 ELSE IF tpc' = "yield" THEN D("agent.yield", 3, 0, 0) ELSE NoD]
       \/ WStore(w) /\ pw' = [pw EXCEPT ![w] =
              D(IF word = worig[w] THEN "sl.store" ELSE "sl.store.fail", N(wnext[w]), worig[w].tag, 0)]
    /\ UNCHANGED <<l, pk, ph, hkey>>

StepK(i) ==
    /\ pk[i] = NoD
    /\ \/ KPop(i) /\ pk' = [pk EXCEPT ![i] = D("wake", i, 0, 0)]
       \/ KLoad(i) /\ pk' = [pk EXCEPT ![i] = D("sts.load", N(word.st), word.tag, 0)]
       \/ KCas(i) /\ pk' = [pk EXCEPT ![i] = D("sts.cas", IF word = kprev[i] THEN 1 ELSE 0, kprev[i].tag, 0)]
       \/ KSched(i) /\ pk' = [pk EXCEPT ![i] = D("sts.sched", 0, 0, 0)]
    /\ UNCHANGED <<l, pw, ph, hkey>>

StepH(h) ==
    /\ ph[h] = NoD
    /\ \/ HCheck(h) /\ ph' = [ph EXCEPT ![h] =
              D("sas.enter", N(word.st) * 100000 + word.tag, N(hprev[h].st) * 100000 + hprev[h].tag,
                IF hpc'[h] = "free" THEN 1 ELSE 0)]
       \/ HLoad(h) /\ ph' = [ph EXCEPT ![h] = D("sts.load", N(word.st), word.tag, 0)]
       \/ HCas(h) /\ ph' = [ph EXCEPT ![h] = D("sts.cas", IF word = hseen[h] THEN 1 ELSE 0, hseen[h].tag, 0)]
       \/ HSched(h) /\ ph' = [ph EXCEPT ![h] = D("sts.sched", 0, 0, 0)]
    /\ UNCHANGED <<l, pw, pk, hkey>>

(* ---- a record confirms the unconfirmed step of its actor ---- *)
RecD == D(Rec.site, Rec.a, Rec.b, Rec.c)
\* after these confirmed steps the helper task is gone (its slot may be re-used by a new task)
HelperEnds(d) == \/ d.site = "sts.sched"
                 \/ d.site = "sas.enter" /\ d.c = 1
                 \/ d.site = "sts.load" /\ d.a \in {1, 2, 4}
Confirm ==
    /\ Is("step")
    /\ \/ /\ Rec.x = "w" /\ Rec.n \in Worker /\ pw[Rec.n] = RecD
          /\ pw' = [pw EXCEPT ![Rec.n] = NoD] /\ UNCHANGED <<pk, ph, hkey>>
       \/ /\ Rec.x = "k" /\ Rec.n \in Waker /\ pk[Rec.n] = RecD
          /\ pk' = [pk EXCEPT ![Rec.n] = NoD] /\ UNCHANGED <<pw, ph, hkey>>
       \/ /\ Rec.x = "u"
          /\ \E h \in Helper :
                /\ ph[h] = RecD /\ hkey[h] \in {0, Rec.n}
                /\ (hkey[h] = 0 => \A g \in Helper : hkey[g] # Rec.n)
                /\ ph' = [ph EXCEPT ![h] = NoD]
                /\ hkey' = [hkey EXCEPT ![h] = IF HelperEnds(RecD) THEN 0 ELSE Rec.n]
          /\ UNCHANGED <<pw, pk>>
    /\ UNCHANGED vars /\ Adv

\* end of a history: the recording stops when the harness has seen the last resume; the worker's
\* final store may or may not have been recorded, so nothing is required here
End == Is("end") /\ UNCHANGED <<vars, pw, pk, ph, hkey>> /\ Adv
Reset == Is("reset") /\ UNCHANGED <<vars, pw, pk, ph, hkey>> /\ Adv
TNext == \/ Start \/ Confirm \/ End \/ Reset
         \/ \E w \in Worker : StepW(w)
         \/ \E i \in Waker : StepK(i)
         \/ \E h \in Helper : StepH(h)
TSpec == TInit /\ [][TNext]_tvars
NotAccepted == l <= Len(TraceLog)
TrackMax == IF l > TLCGet(1) THEN TLCSet(1, l) ELSE TRUE
PrintMax == PrintT(<<"MAXL", TLCGet(1)>>)
=============================================================================
