SPECIFICATION MCSpec
CONSTANTS
  Actor = {a1, a2}
  OsActor = {a1, a2}
  SrcH = {1, 2}
  TokH = {1}
  Cb = {1, 2}
  MaxState = 2
  MaxCalls = 3
  Deviations = {"AssignLeaksSourceCount"}
  Kinds = {"new_src","copy_src","move_src","assign_src","moveassign_src","swap_src","destroy_src","get_token","possible_tok","requested_tok","request_stop"}
INVARIANT OneWinner
INVARIANT CallbackAtMostOnce
INVARIANT SourceCountsSane
INVARIANT PossibleMeaning
PROPERTY RegisteredRuns
PROPERTY NoRunAfterDead
PROPERTY DtorWaits
CHECK_DEADLOCK FALSE
