------------------------------ MODULE RwMutexImpl ------------------------------
(* Fine-grained model of one async_rw_mutex shared state (group) (C04):
     add_op_state(op):  next := load(head); loop { if next = DONE return false (run inline);
                                                     if CAS(head, next -> op) return true;
                                                     (a failed CAS reloads next) }
     done():            cur := exchange(head, DONE); run every queued operation state
   Ops start concurrently with done().  Variant "check_once" tests for DONE only after the initial
   load (the re-check inside the CAS loop is dropped).  Variant "done_load_store": done() loads the head
   and, if it is null, stores the marker with a plain store instead of exchanging (seeded change C04-2).  *)
EXTENDS Naturals, FiniteSets
CONSTANTS Op, Variant
VARIABLES head,      \* "null" | "done" | an op (top of the stack)
          nxt,       \* nxt[o]: what op o links to / last loaded value
          pc,        \* pc[o] \in {"idle","loaded","granted"}; 
          dpc, captured, grants
vars == <<head, nxt, pc, dpc, captured, grants>>
Init == /\ head = "null" /\ nxt = [o \in Op |-> "null"] /\ pc = [o \in Op |-> "idle"]
        /\ dpc = "idle" /\ captured = "null" /\ grants = [o \in Op |-> 0]
Load(o) == /\ pc[o] = "idle" /\ nxt' = [nxt EXCEPT ![o] = head]
           /\ pc' = [pc EXCEPT ![o] = IF head = "done" THEN "inline" ELSE "cas"]
           /\ UNCHANGED <<head, dpc, captured, grants>>
Inline(o) == /\ pc[o] = "inline" /\ grants' = [grants EXCEPT ![o] = @ + 1]
             /\ pc' = [pc EXCEPT ![o] = "granted"] /\ UNCHANGED <<head, nxt, dpc, captured>>
Cas(o) == /\ pc[o] = "cas"
          /\ IF head = nxt[o]
                THEN head' = o /\ pc' = [pc EXCEPT ![o] = "queued"] /\ UNCHANGED nxt
                ELSE /\ nxt' = [nxt EXCEPT ![o] = head]          \* failed CAS reloads `next`
                     /\ pc' = [pc EXCEPT ![o] = IF head = "done" /\ Variant # "check_once"
                                                   THEN "inline" ELSE "cas"]
                     /\ UNCHANGED head
          /\ UNCHANGED <<dpc, captured, grants>>
DoneXchg == /\ dpc = "idle" /\ captured' = head
            /\ IF Variant = "done_load_store" /\ head = "null"
                  THEN dpc' = "store" /\ UNCHANGED head          \* only loaded so far
                  ELSE head' = "done" /\ dpc' = "run"
            /\ UNCHANGED <<nxt, pc, grants>>
DoneStore == /\ dpc = "store" /\ head' = "done" /\ dpc' = "run"     \* overwrites whatever was queued meanwhile
             /\ UNCHANGED <<nxt, pc, captured, grants>>
\* run the captured list: follow the next pointers
DoneRun == /\ dpc = "run"
           /\ IF captured \in {"null", "done"} THEN dpc' = "finished" /\ UNCHANGED <<captured, grants, pc>>
              ELSE /\ grants' = [grants EXCEPT ![captured] = @ + 1]
                   /\ pc' = [pc EXCEPT ![captured] = "granted"]
                   /\ captured' = nxt[captured] /\ UNCHANGED dpc
           /\ UNCHANGED <<head, nxt>>
Next == DoneXchg \/ DoneStore \/ DoneRun \/ \E o \in Op : Load(o) \/ Inline(o) \/ Cas(o)
Spec == Init /\ [][Next]_vars /\ WF_vars(DoneXchg \/ DoneStore \/ DoneRun) /\ \A o \in Op : WF_vars(Load(o) \/ Inline(o) \/ Cas(o))
AtMostOnce == \A o \in Op : grants[o] <= 1
EveryStartedGranted == <>(\A o \in Op : grants[o] = 1)
=============================================================================
