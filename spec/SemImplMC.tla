----------------------------- MODULE SemImplMC -----------------------------
EXTENDS SemImpl, TLC
\* two blocking acquirers, one timed acquirer; releases of 2 and 1 permits
NFn == ("r1" :> 2) @@ ("r2" :> 1)
\* one big release with few waiters (exercises the loop bound of signal)
NBig == ("r1" :> 3)
\* two releases of one permit each, back to back
NOnes == ("r1" :> 1) @@ ("r2" :> 1)
=============================================================================
