SPECIFICATION MCSpec
CONSTANTS
  Actor = {a1, a2}
  Deviations = {}
  MaxCalls = 3
  P0 = 1
  MaxN = 2
  Kinds = {"swait","stry_wait","ssignal"}
INVARIANT Conservation
PROPERTY ResultMeansConsumed
PROPERTY FalseOnlyWithoutPermit
PROPERTY NoStuckAcquirer
PROPERTY LowerMonotone
CHECK_DEADLOCK FALSE
