SPECIFICATION Spec
CONSTANTS
  Caller = {1,2,3}
  Throws = 1
  Variant = "none"
INVARIANTS EventFollowsStatus

CHECK_DEADLOCK FALSE
