SPECIFICATION Spec
INVARIANT Emit
CHECK_DEADLOCK FALSE
