SPECIFICATION Spec
CONSTANTS
  P = 4
  Phases = 3
  Variant = "ok"
  Dropper = {4}
  DropAt = 1
INVARIANT NoEarlyDeparture
INVARIANT CompletionOnce
PROPERTY AllPhasesDone
CHECK_DEADLOCK FALSE
