---------------------------- MODULE WhenAllImplMC ----------------------------
EXTENDS WhenAllImpl, TLC
O_vee == ("a" :> "value") @@ ("b" :> "error") @@ ("c" :> "error")
O_ves == ("a" :> "value") @@ ("b" :> "error") @@ ("c" :> "stopped")
O_vvv == ("a" :> "value") @@ ("b" :> "value") @@ ("c" :> "value")
=============================================================================
