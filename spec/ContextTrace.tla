---------------------------- MODULE ContextTrace ----------------------------
EXTENDS ContextAbs, Json, IOUtils, TLC, Sequences
TraceLog == ndJsonDeserialize(IOEnv.TRACE)
VARIABLE l
tvars == <<vars, l>>
Rec == TraceLog[l]
Has == l <= Len(TraceLog)
Is(e) == Has /\ Rec.e = e
Adv == l' = l + 1
TInit == l = 1 /\ TLCSet(1, 0) /\ Init
TNext ==
    \/ Is("init") /\ st' = [t \in Task |-> "none"] /\ depth' = [t \in Task |-> 0] /\ tld' = [t \in Task |-> 0]
         /\ lo' = [t \in Task |-> 0] /\ hi' = [t \in Task |-> 0] /\ Adv
    \/ Is("start") /\ Start(Rec.t, Rec.clean = 1, Rec.size_ok = 1, Rec.lo, Rec.hi) /\ Adv
    \/ Is("push") /\ Push(Rec.t) /\ Adv
    \/ Is("pop") /\ Pop(Rec.t) /\ Adv
    \/ Is("tld") /\ SetTld(Rec.t, Rec.v) /\ Adv
    \/ Is("check") /\ Check(Rec.t, Rec.depth, Rec.tld, Rec.ok = 1, Rec.fp_ok = 1) /\ Adv
    \/ Is("finish") /\ Finish(Rec.t) /\ Adv
    \/ Is("reset") /\ (\A t \in Task : st[t] \in {"none", "done"}) /\ UNCHANGED vars /\ Adv
TSpec == TInit /\ [][TNext]_tvars
NotAccepted == l <= Len(TraceLog)
TrackMax == IF l > TLCGet(1) THEN TLCSet(1, l) ELSE TRUE
PrintMax == PrintT(<<"MAXL", TLCGet(1)>>)
=============================================================================
