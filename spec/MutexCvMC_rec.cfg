SPECIFICATION MCSpec
CONSTANTS
  Actor = {a1, a2, a3}
  Deviations = {}
  MaxCalls = 3
  MK = "recursive"
  Kinds = {"lock","try_lock","unlock"}
INVARIANT MutualExclusion
INVARIANT WakeSubset
PROPERTY NoLostWake
PROPERTY OnlyOwnerWrites
CHECK_DEADLOCK FALSE
