SPECIFICATION Spec
CONSTANTS
  Acquirer = {"a1", "a2", "a3"}
  Timed = {}
  Releaser = {"r1"}
  N <- NBig
  Variant = "ok"
  None = "none"
INVARIANT Conservation
INVARIANT NoStuckAcquirer
INVARIANT FalseOnlyWithoutPermit
PROPERTY Terminates
CHECK_DEADLOCK FALSE
