------------------------------ MODULE AffinityAbs ------------------------------
(* Abstract statement of C15 (worker -> processing unit binding).

   A configuration: synthetic topology Sockets x Cores x Pus (PU numbers 0..NPU-1, socket-major,
   then core, then PU), a process mask (set of PU numbers), a thread request ("n" with a number,
   or the keywords "cores" / "all"), a binding mode, and a pool split (how many workers go to a
   second pool).  An outcome: either the start-up was rejected with an error, or a list of workers
   each with the PU number pika reports, the affinity mask pika computed, and its pool.

   Accept(cfg, out) is the property: distinct PUs inside the mask, reported PU = bound PU, every
   worker in exactly one pool, impossible requests rejected, "none" unbound.                  *)
EXTENDS Naturals, Integers, FiniteSets, Sequences

NPU(cfg) == cfg.s * cfg.c * cfg.p
CoreOf(cfg, pu) == pu \div cfg.p
MaskCores(cfg) == {CoreOf(cfg, pu) : pu \in cfg.mask}
\* the number of workers the request denotes
Wanted(cfg) == CASE cfg.threads = "cores" -> Cardinality(MaskCores(cfg))
                 [] cfg.threads = "all" -> Cardinality(cfg.mask)
                 [] OTHER -> cfg.n
MustReject(cfg) == Wanted(cfg) > Cardinality(cfg.mask)
SetOf(s) == {s[k] : k \in 1..Len(s)}

Accept(cfg, out) ==
    IF out.rejected
       THEN MustReject(cfg)                          \* only impossible requests may be refused
       ELSE /\ ~MustReject(cfg)                      \* ... and they must be refused, not oversubscribed
            /\ Len(out.workers) = Wanted(cfg)
            /\ IF cfg.bind = "none"
                  THEN \A k \in 1..Len(out.workers) :                    \* unbound: no single-PU mask
                          Cardinality(SetOf(out.workers[k].mask)) # 1 \/ NPU(cfg) = 1
                  ELSE /\ \A k \in 1..Len(out.workers) :
                            /\ Cardinality(SetOf(out.workers[k].mask)) = 1      \* exactly one PU
                            /\ SetOf(out.workers[k].mask) \subseteq cfg.mask    \* inside the process mask
                            /\ out.workers[k].pu \in SetOf(out.workers[k].mask) \* reported = bound
                       /\ \A j, k \in 1..Len(out.workers) :
                            j # k => out.workers[j].pu # out.workers[k].pu       \* never shared
            /\ \A k \in 1..Len(out.workers) : out.workers[k].pool \in {"default", "second"}
=============================================================================
