------------------------ MODULE SharedStateStepTrace ------------------------
(* Step-level conformance of the real split / ensure_started shared state to SharedStateImpl.
   Records: "start" k (before the consumer's start()), the hooked steps ss.done.flag / ss.done.locked
   (completer) and ss.add.locked / ss.add.store (consumer), and "deliver" k (the receiver of consumer k
   was signalled).  The steps are lock-free or only partly under the lock, so a record is written
   after its step: every actor may be at most one *hooked* step ahead of the trace (see
   WakeStepTrace); steps without a hook are internal.  At the end of a history every started consumer
   must have been delivered exactly once - the property itself, evaluated on the real execution.  *)
EXTENDS SharedStateImpl, Json, IOUtils, TLC, Sequences
TraceLog == ndJsonDeserialize(IOEnv.TRACE)
VARIABLES l, pc, pk, started, seen
tvars == <<vars, l, pc, pk, started, seen>>
Rec == TraceLog[l]
Has == l <= Len(TraceLog)
Is(e) == Has /\ Rec.e = e
Adv == l' = l + 1
NoD == ""

Fresh == /\ done' = FALSE /\ lock' = 0 /\ conts' = {} /\ cpc' = "start"
         /\ kpc' = [k \in Consumer |-> "start"] /\ delivered' = [k \in Consumer |-> 0]
         /\ pc' = NoD /\ pk' = [k \in Consumer |-> NoD]
         /\ started' = [k \in Consumer |-> FALSE] /\ seen' = [k \in Consumer |-> 0]
TInit == /\ l = 1 /\ TLCSet(1, 0) /\ Init
         /\ pc = NoD /\ pk = [k \in Consumer |-> NoD]
         /\ started = [k \in Consumer |-> FALSE] /\ seen = [k \in Consumer |-> 0]

StepC == /\ pc = NoD
         /\ \/ CFlag /\ pc' = "ss.done.flag"
            \/ CLock /\ pc' = NoD
            \/ CUnlock /\ pc' = "ss.done.locked"
            \/ CDrain /\ pc' = NoD
         /\ UNCHANGED <<l, pk, started, seen>>
StepK(k) ==
    /\ pk[k] = NoD /\ started[k]
    /\ \/ KFast(k) /\ pk' = pk
       \/ KLock(k) /\ pk' = [pk EXCEPT ![k] = "ss.add.locked"]
       \/ KDecide(k) /\ pk' = [pk EXCEPT ![k] = IF done THEN NoD ELSE "ss.add.store"]
       \/ KStore(k) /\ pk' = pk
    /\ UNCHANGED <<l, pc, started, seen>>
StartK == /\ Is("start") /\ Rec.k \in Consumer /\ ~started[Rec.k]
          /\ started' = [started EXCEPT ![Rec.k] = TRUE]
          /\ UNCHANGED <<vars, pc, pk, seen>> /\ Adv
Confirm == /\ Is("hk")
           /\ \/ Rec.x = 100 /\ pc = Rec.site /\ pc' = NoD /\ UNCHANGED pk
              \/ Rec.x \in Consumer /\ pk[Rec.x] = Rec.site /\ pk' = [pk EXCEPT ![Rec.x] = NoD] /\ UNCHANGED pc
           /\ UNCHANGED <<vars, started, seen>> /\ Adv
\* a signal reached receiver k: the model must have delivered it, and not more often than observed
Deliver == /\ Is("deliver") /\ Rec.k \in Consumer
           /\ seen[Rec.k] < delivered[Rec.k]
           /\ seen' = [seen EXCEPT ![Rec.k] = @ + 1]
           /\ UNCHANGED <<vars, pc, pk, started>> /\ Adv
Skip == (Is("start_ret") \/ Is("init")) /\ UNCHANGED <<vars, pc, pk, started, seen>> /\ Adv
\* end of a history (everything was joined): each started consumer got exactly one signal
Reset == /\ Is("reset")
         /\ \A k \in Consumer : started[k] => (seen[k] = 1 /\ delivered[k] = 1)
         /\ Fresh /\ Adv
\* the harness's watchdog: a started consumer was never signalled.  Only explainable by a model in
\* which a continuation can be stranded (never by SharedStateImpl with Variant = "ok": NoStranded)
Quiescent == /\ Is("quiescent") /\ cpc = "finished"
             /\ \A k \in Consumer : started[k] => kpc[k] = "finished"
             /\ \E k \in Consumer : started[k] /\ delivered[k] = 0
             /\ UNCHANGED <<vars, pc, pk, started, seen>> /\ Adv
TNext == Quiescent \/ StepC \/ (\E k \in Consumer : StepK(k)) \/ StartK \/ Confirm \/ Deliver \/ Skip \/ Reset
TSpec == TInit /\ [][TNext]_tvars
NotAccepted == l <= Len(TraceLog)
TrackMax == IF l > TLCGet(1) THEN TLCSet(1, l) ELSE TRUE
PrintMax == PrintT(<<"MAXL", TLCGet(1)>>)
=============================================================================
