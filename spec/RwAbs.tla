------------------------------ MODULE RwAbs ------------------------------
(* Abstract specification of pika::execution::experimental::async_rw_mutex (property C04).
   Accesses are numbered in request order; kind[i] is "R" or "W".  Groups: every W is its own group,
   a maximal run of R's between two W's is one group.  An access is granted only after it was
   started and every access of every earlier group has been released (or was dropped unstarted,
   which releases it as soon as it is its turn); accesses of one read group may overlap.  Every
   access observes the modifications of all earlier W accesses: each W increments the wrapped
   counter once, so access i must read the number of W accesses before it.                   *)
EXTENDS Naturals, Sequences, FiniteSets
CONSTANTS MaxAcc
VARIABLES n, kind, grp, st
\* st[i] \in {"requested","started","granted","released","dropped"}
vars == <<n, kind, grp, st>>
Acc == 1..MaxAcc
Init == n = 0 /\ kind = [i \in Acc |-> "R"] /\ grp = [i \in Acc |-> 0] /\ st = [i \in Acc |-> "none"]

Request(k) ==
    /\ n < MaxAcc
    /\ n' = n + 1
    /\ kind' = [kind EXCEPT ![n + 1] = k]
    /\ grp' = [grp EXCEPT ![n + 1] =
                 IF n = 0 THEN 1
                 ELSE IF k = "R" /\ kind[n] = "R" THEN grp[n] ELSE grp[n] + 1]
    /\ st' = [st EXCEPT ![n + 1] = "requested"]
Start(i) == i <= n /\ st[i] = "requested" /\ st' = [st EXCEPT ![i] = "started"] /\ UNCHANGED <<n, kind, grp>>
Drop(i) == i <= n /\ st[i] = "requested" /\ st' = [st EXCEPT ![i] = "dropped"] /\ UNCHANGED <<n, kind, grp>>
EarlierDone(i) == \A j \in 1..n : grp[j] < grp[i] => st[j] \in {"released", "dropped"}
WBefore(i) == Cardinality({j \in 1..n : j < i /\ kind[j] = "W" /\ st[j] = "released"})
Grant(i, v) ==
    /\ i <= n /\ st[i] = "started" /\ EarlierDone(i)
    /\ v = WBefore(i)                                   \* sees every earlier modification
    /\ st' = [st EXCEPT ![i] = "granted"] /\ UNCHANGED <<n, kind, grp>>
Release(i) == i <= n /\ st[i] = "granted" /\ st' = [st EXCEPT ![i] = "released"] /\ UNCHANGED <<n, kind, grp>>

\* exclusion follows from the grant rule; stated for the closed model
Exclusive == \A i, j \in 1..n : (i # j /\ st[i] = "granted" /\ st[j] = "granted") => grp[i] = grp[j]
WAlone == \A i, j \in 1..n : (i # j /\ st[i] = "granted" /\ st[j] = "granted") => (kind[i] = "R" /\ kind[j] = "R")
\* a started access whose predecessors are all done must be granted: forbidden at quiescence
Owed(i) == i <= n /\ st[i] = "started" /\ EarlierDone(i)
QuiescentOk == \A i \in Acc : ~Owed(i)
=============================================================================
