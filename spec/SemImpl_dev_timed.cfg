SPECIFICATION Spec
CONSTANTS
  Acquirer = {"a1"}
  Timed = {"t1"}
  Releaser = {"r1", "r2"}
  N <- NFn
  Variant = "timed_false_after_signal"
  None = "none"
INVARIANT Conservation
INVARIANT NoStuckAcquirer
INVARIANT FalseOnlyWithoutPermit
PROPERTY Terminates
CHECK_DEADLOCK FALSE
