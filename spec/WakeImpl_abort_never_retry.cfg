SPECIFICATION Spec
CONSTANTS
  Worker = {w1, w2}
  Rounds = 2
  MaxHelpers = 2
  Variant = "abort_never_retry"
  DupRounds = {1}
INVARIANT SingleRunner
INVARIANT EnteredOnce
INVARIANT NoLostWake
PROPERTY Terminates
CHECK_DEADLOCK FALSE
