SPECIFICATION TSpec
CONSTANTS
  MaxAcc = 12
INVARIANT NotAccepted
INVARIANT WAlone
CONSTRAINT TrackMax
POSTCONDITION PrintMax
CHECK_DEADLOCK FALSE
