SPECIFICATION Spec
CONSTANTS
  Waiter = {}
  StopWaiter = {s1}
  Notifier = {}
  NotifyLocked = {}
  StopReq = {q1}
  Variant = "stop_before_il"
  None = None
INVARIANT NoLostNotification
INVARIANT ResultOk
PROPERTY Terminates
CHECK_DEADLOCK FALSE
