------------------------------ MODULE LifeAbs ------------------------------
(* Abstract specification of task life (C01) and runtime life cycle (C05).

   Tasks: none -> submitted -> entered -> exited; `running[t]` is TRUE while the body executes
   between a resume and the next yield/suspension (phase).  A task is entered exactly once, never
   runs in two phases at once, and only runs while the runtime is running (not suspended, not down).
   Life cycle: start / wait / suspend / resume / finalize / stop with the guarantees of the API
   documentation: wait returns only after everything submitted before the call and all descendants
   have exited; stop returns only after finalize and with every task of the incarnation exited, and
   returns the entry function's result; nothing runs while suspended.                          *)
EXTENDS Naturals, Integers, FiniteSets

CONSTANTS Task, NoTask
VARIABLES rt,          \* "down" | "running" | "suspended"
          finalized, hasMain, rv,
          st,          \* st[t] \in {"none","submitted","entered","exited"}
          parent,      \* parent[t] (NoTask for roots)
          running,     \* running[t]
          snap,        \* tasks that the wait in progress has to see finished (its snapshot)
          inWait
vars == <<rt, finalized, hasMain, rv, st, parent, running, snap, inWait>>

Init ==
    /\ rt = "down" /\ finalized = FALSE /\ hasMain = FALSE /\ rv = 0
    /\ st = [t \in Task |-> "none"] /\ parent = [t \in Task |-> NoTask]
    /\ running = [t \in Task |-> FALSE] /\ snap = {} /\ inWait = FALSE

Start(main, r) ==
    /\ rt = "down"
    /\ rt' = "running" /\ finalized' = FALSE /\ hasMain' = main /\ rv' = r
    /\ st' = [t \in Task |-> "none"] /\ parent' = [t \in Task |-> NoTask]
    /\ running' = [t \in Task |-> FALSE] /\ snap' = {} /\ inWait' = FALSE

Submit(t, p) ==
    /\ rt # "down" /\ st[t] = "none"
    /\ IF p = NoTask THEN TRUE ELSE (st[p] = "entered" /\ running[p])   \* spawned by a running parent
    /\ st' = [st EXCEPT ![t] = "submitted"] /\ parent' = [parent EXCEPT ![t] = p]
    /\ UNCHANGED <<rt, finalized, hasMain, rv, running, snap, inWait>>

Enter(t) ==
    /\ rt = "running" /\ st[t] = "submitted"
    /\ st' = [st EXCEPT ![t] = "entered"] /\ running' = [running EXCEPT ![t] = TRUE]
    /\ UNCHANGED <<rt, finalized, hasMain, rv, parent, snap, inWait>>

PhaseEnd(t) ==
    /\ st[t] = "entered" /\ running[t]
    /\ running' = [running EXCEPT ![t] = FALSE]
    /\ UNCHANGED <<rt, finalized, hasMain, rv, st, parent, snap, inWait>>

PhaseBegin(t) ==
    /\ rt = "running" /\ st[t] = "entered" /\ ~running[t]
    /\ running' = [running EXCEPT ![t] = TRUE]
    /\ UNCHANGED <<rt, finalized, hasMain, rv, st, parent, snap, inWait>>

Exit(t) ==
    /\ st[t] = "entered" /\ running[t]
    /\ st' = [st EXCEPT ![t] = "exited"] /\ running' = [running EXCEPT ![t] = FALSE]
    /\ UNCHANGED <<rt, finalized, hasMain, rv, parent, snap, inWait>>

RECURSIVE InSnapClosure(_)
InSnapClosure(t) == t \in snap \/ (parent[t] # NoTask /\ InSnapClosure(parent[t]))

WaitCall ==
    /\ rt = "running" /\ ~inWait
    /\ snap' = {t \in Task : st[t] # "none"} /\ inWait' = TRUE
    /\ UNCHANGED <<rt, finalized, hasMain, rv, st, parent, running>>
WaitRet ==
    /\ inWait
    /\ \A t \in Task : (st[t] # "none" /\ InSnapClosure(t)) => st[t] = "exited"
    /\ inWait' = FALSE /\ snap' = {}
    /\ UNCHANGED <<rt, finalized, hasMain, rv, st, parent, running>>

\* suspend waits for idleness first, then parks the workers
SuspendRet ==
    /\ rt = "running"
    /\ \A t \in Task : ~running[t]
    /\ rt' = "suspended"
    /\ UNCHANGED <<finalized, hasMain, rv, st, parent, running, snap, inWait>>
ResumeCall ==
    /\ rt \in {"suspended", "running"}
    /\ rt' = "running"
    /\ UNCHANGED <<finalized, hasMain, rv, st, parent, running, snap, inWait>>
Finalize ==
    /\ rt # "down" /\ finalized' = TRUE
    /\ UNCHANGED <<rt, hasMain, rv, st, parent, running, snap, inWait>>
StopRet(res) ==
    /\ rt = "running" /\ finalized
    /\ \A t \in Task : st[t] \in {"none", "exited"}
    /\ res = (IF hasMain THEN rv ELSE 0)
    /\ rt' = "down"
    /\ UNCHANGED <<finalized, hasMain, rv, st, parent, running, snap, inWait>>

(* properties of the closed model *)
TypeOK == rt \in {"down", "running", "suspended"}
NothingRunsWhileSuspended == [][rt = "suspended" => \A t \in Task : running'[t] => running[t]]_vars
EnteredOnce == [][\A t \in Task : st[t] = "exited" => st'[t] \in {"exited", "none"}]_vars
=============================================================================
