SPECIFICATION Spec
CONSTANTS
  P = 3
  Phases = 2
  Variant = "publish_before_completion"
INVARIANT NoEarlyDeparture
INVARIANT CompletionOnce
PROPERTY AllPhasesDone
CHECK_DEADLOCK FALSE
