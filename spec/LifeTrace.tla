---------------------------- MODULE LifeTrace ----------------------------
(* Trace validation for C01 / C05 against LifeAbs.  One incarnation after the other. *)
EXTENDS LifeAbs, Json, IOUtils, TLC, Sequences
TraceLog == ndJsonDeserialize(IOEnv.TRACE)
VARIABLE l
tvars == <<vars, l>>
Rec == TraceLog[l]
Has == l <= Len(TraceLog)
Is(e) == Has /\ Rec.e = e
Adv == l' = l + 1
P(x) == IF x = 0 THEN NoTask ELSE x

TInit == l = 1 /\ TLCSet(1, 0) /\ Init
TNext ==
    \/ Is("start") /\ Start(Rec.main = 1, Rec.rv) /\ Adv
    \/ Is("submit") /\ Submit(Rec.t, P(Rec.p)) /\ Adv
    \/ Is("enter") /\ Enter(Rec.t) /\ Adv
    \/ Is("pe") /\ PhaseEnd(Rec.t) /\ Adv
    \/ Is("pb") /\ PhaseBegin(Rec.t) /\ Adv
    \/ Is("exit") /\ Exit(Rec.t) /\ Adv
    \/ Is("wait_call") /\ WaitCall /\ Adv
    \/ Is("wait_ret") /\ WaitRet /\ Adv
    \/ Is("suspend_call") /\ UNCHANGED vars /\ Adv
    \/ Is("suspend_ret") /\ SuspendRet /\ Adv
    \/ Is("resume_call") /\ ResumeCall /\ Adv
    \/ Is("resume_ret") /\ UNCHANGED vars /\ Adv
    \/ Is("finalize") /\ Finalize /\ Adv
    \/ Is("stop_call") /\ UNCHANGED vars /\ Adv
    \/ Is("stop_ret") /\ StopRet(Rec.res) /\ Adv
    \/ Is("reset") /\ rt = "down" /\ UNCHANGED vars /\ Adv
    \* "double_run" and "quiescent" records have no enabled action: they reject the history
TSpec == TInit /\ [][TNext]_tvars
NotAccepted == l <= Len(TraceLog)
TrackMax == IF l > TLCGet(1) THEN TLCSet(1, l) ELSE TRUE
PrintMax == PrintT(<<"MAXL", TLCGet(1)>>)
=============================================================================
