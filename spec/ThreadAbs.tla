------------------------------ MODULE ThreadAbs ------------------------------
(* Abstract specification of pika::thread / pika::jthread (property C13).
   Handle slots H; the owner of a handle issues calls (Call/Lin/Ret); the thread body reports
   observable events (begin, interruption points, stop_requested reads, end, exit callbacks). *)
EXTENDS Naturals, Integers, FiniteSets
CONSTANTS Actor, H, Deviations
VARIABLES hs,      \* handle: "none" | "joinable" | "done"
          body,    \* "notstarted" | "running" | "finished"
          intReq, intEn, stopReq, cbReg, cbRan, op,
          rel      \* rel[h]: the owner has released the permit the body's second wait ("acq") needs
vars == <<hs, body, intReq, intEn, stopReq, cbReg, cbRan, op, rel>>
Idle == [kind |-> "none", h |-> 0, st |-> "idle", res |-> 0]
Init == /\ hs = [h \in H |-> "none"] /\ body = [h \in H |-> "notstarted"]
        /\ intReq = [h \in H |-> FALSE] /\ intEn = [h \in H |-> TRUE] /\ stopReq = [h \in H |-> FALSE]
        /\ cbReg = [h \in H |-> 0] /\ cbRan = [h \in H |-> 0]
        /\ op = [a \in Actor |-> Idle]
        /\ rel = [h \in H |-> FALSE]
Call(a, kind, h) == /\ op[a].st = "idle"
                    /\ op' = [op EXCEPT ![a] = [kind |-> kind, h |-> h, st |-> "called", res |-> 0]]
                    /\ UNCHANGED <<hs, body, intReq, intEn, stopReq, cbReg, cbRan, rel>>
Done(a, r) == op' = [op EXCEPT ![a].st = "done", ![a].res = r]
\* join returns only after the thread function has returned and its exit callbacks ran.
\* Deviation "JoinBeforeEarlierExitCallbacks": exit callbacks run in reverse order of registration
\* and join's own resume callback is registered last, so join can return before callbacks that were
\* registered earlier have run.
Finished(h) == body[h] = "finished" /\ (cbRan[h] = cbReg[h] \/ "JoinBeforeEarlierExitCallbacks" \in Deviations)

Lin(a) ==
    LET k == op[a].kind  h == op[a].h IN
    /\ op[a].st = "called"
    /\ \/ /\ k = "spawn" /\ hs[h] = "none" /\ hs' = [hs EXCEPT ![h] = "joinable"] /\ Done(a, 1)
          /\ UNCHANGED <<body, intReq, intEn, stopReq, cbReg, cbRan, rel>>
       \/ /\ k = "join" /\ hs[h] = "joinable" /\ Finished(h)
          /\ hs' = [hs EXCEPT ![h] = "done"] /\ Done(a, 1)
          /\ UNCHANGED <<body, intReq, intEn, stopReq, cbReg, cbRan, rel>>
       \/ /\ k = "join" /\ hs[h] # "joinable" /\ Done(a, -1)        \* reported as an error
          /\ UNCHANGED <<hs, body, intReq, intEn, stopReq, cbReg, cbRan, rel>>
       \/ /\ k = "selfjoin" /\ Done(a, -2)                          \* joining oneself: error
          /\ UNCHANGED <<hs, body, intReq, intEn, stopReq, cbReg, cbRan, rel>>
       \/ /\ k = "detach" /\ hs[h] = "joinable" /\ hs' = [hs EXCEPT ![h] = "done"] /\ Done(a, 1)
          /\ UNCHANGED <<body, intReq, intEn, stopReq, cbReg, cbRan, rel>>
       \/ /\ k = "joinable" /\ Done(a, IF hs[h] = "joinable" THEN 1 ELSE 0)
          /\ UNCHANGED <<hs, body, intReq, intEn, stopReq, cbReg, cbRan, rel>>
       \* interrupting a thread that has interruption disabled is refused (error -4)
       \/ /\ k = "interrupt" /\ intEn[h] /\ intReq' = [intReq EXCEPT ![h] = TRUE] /\ Done(a, 1)
          /\ UNCHANGED <<hs, body, intEn, stopReq, cbReg, cbRan, rel>>
       \/ /\ k = "interrupt" /\ ~intEn[h] /\ Done(a, -4)
          /\ UNCHANGED <<hs, body, intReq, intEn, stopReq, cbReg, cbRan, rel>>
       \/ /\ k \in {"int_disable", "int_restore"}
          /\ intEn' = [intEn EXCEPT ![h] = (k = "int_restore")] /\ Done(a, 1)
          /\ UNCHANGED <<hs, body, intReq, stopReq, cbReg, cbRan, rel>>
       \/ /\ k = "request_stop" /\ stopReq' = [stopReq EXCEPT ![h] = TRUE]
          /\ Done(a, IF stopReq[h] THEN 0 ELSE 1)
          /\ UNCHANGED <<hs, body, intReq, intEn, cbReg, cbRan, rel>>
       \/ /\ k = "reg_cb" /\ cbReg' = [cbReg EXCEPT ![h] = @ + 1] /\ Done(a, 1)   \* accepted
          /\ UNCHANGED <<hs, body, intReq, intEn, stopReq, cbRan, rel>>
       \/ /\ k = "reg_cb" /\ body[h] = "finished" /\ Done(a, 0)     \* refused: already exiting
          /\ UNCHANGED <<hs, body, intReq, intEn, stopReq, cbReg, cbRan, rel>>
       \* executed by the thread body itself (its own actor): an interruption point throws iff an
       \* interruption has been requested and interruption is enabled; reading stop_requested
       \* a blocking wait that nobody but an interruption ends: it is an interruption point, so it returns
       \* (by throwing) once an interruption has been requested and interruption is enabled
       \/ /\ k = "block" /\ intReq[h] /\ intEn[h] /\ Done(a, 1)
          /\ UNCHANGED <<hs, body, intReq, intEn, stopReq, cbReg, cbRan, rel>>
       \* the owner releases the permit the body's second wait needs; that wait returns only then
       \/ /\ k = "release" /\ rel' = [rel EXCEPT ![h] = TRUE] /\ Done(a, 1)
          /\ UNCHANGED <<hs, body, intReq, intEn, stopReq, cbReg, cbRan>>
       \/ /\ k = "acq" /\ rel[h] /\ Done(a, 1)
          /\ UNCHANGED <<hs, body, intReq, intEn, stopReq, cbReg, cbRan, rel>>
       \* the wait is an interruption point as well: it may end by throwing (result 2) once an interruption has
       \* been requested and interruption is enabled
       \/ /\ k = "acq" /\ intReq[h] /\ intEn[h] /\ Done(a, 2)
          /\ UNCHANGED <<hs, body, intReq, intEn, stopReq, cbReg, cbRan, rel>>
       \/ /\ k = "ipoint" /\ Done(a, IF intReq[h] /\ intEn[h] THEN 1 ELSE 0)
          /\ UNCHANGED <<hs, body, intReq, intEn, stopReq, cbReg, cbRan, rel>>
       \/ /\ k = "stop_seen" /\ Done(a, IF stopReq[h] THEN 1 ELSE 0)
          /\ UNCHANGED <<hs, body, intReq, intEn, stopReq, cbReg, cbRan, rel>>
       \* ~jthread: request stop, then join
       \/ /\ k = "destroy_j" /\ hs[h] = "joinable" /\ ~stopReq[h]
          /\ stopReq' = [stopReq EXCEPT ![h] = TRUE]
          /\ UNCHANGED <<hs, body, intReq, intEn, cbReg, cbRan, op, rel>>
       \/ /\ k = "destroy_j" /\ hs[h] = "joinable" /\ stopReq[h] /\ Finished(h)
          /\ hs' = [hs EXCEPT ![h] = "done"] /\ Done(a, 1)
          /\ UNCHANGED <<body, intReq, intEn, stopReq, cbReg, cbRan, rel>>
       \/ /\ k = "destroy_j" /\ hs[h] # "joinable" /\ Done(a, 1)
          /\ UNCHANGED <<hs, body, intReq, intEn, stopReq, cbReg, cbRan, rel>>
Ret(a, r) == /\ op[a].st = "done" /\ op[a].res = r /\ op' = [op EXCEPT ![a] = Idle]
             /\ UNCHANGED <<hs, body, intReq, intEn, stopReq, cbReg, cbRan, rel>>

(* body events *)
BodyBegin(h) == /\ body[h] = "notstarted" /\ body' = [body EXCEPT ![h] = "running"]
                /\ (hs[h] # "none" \/ \E a \in Actor : (op[a].kind = "spawn" /\ op[a].h = h))
                /\ UNCHANGED <<hs, intReq, intEn, stopReq, cbReg, cbRan, op, rel>>
BodyEnd(h) == /\ body[h] = "running" /\ body' = [body EXCEPT ![h] = "finished"]
              /\ UNCHANGED <<hs, intReq, intEn, stopReq, cbReg, cbRan, op, rel>>
ExitCb(h) == /\ body[h] = "finished" /\ cbRan[h] < cbReg[h]
             /\ cbRan' = [cbRan EXCEPT ![h] = @ + 1]
             /\ UNCHANGED <<hs, body, intReq, intEn, stopReq, cbReg, op, rel>>

Obligation(a) ==
    \/ op[a].st = "called" /\ op[a].kind \notin {"join", "destroy_j", "block", "acq"}
    \/ op[a].st = "called" /\ op[a].kind = "acq" /\ (rel[op[a].h] \/ (intReq[op[a].h] /\ intEn[op[a].h]))
    \/ op[a].st = "called" /\ op[a].kind = "block" /\ intReq[op[a].h] /\ intEn[op[a].h]
    \/ op[a].st = "called" /\ op[a].kind = "join" /\ (hs[op[a].h] # "joinable" \/ Finished(op[a].h))
    \/ op[a].st = "called" /\ op[a].kind = "destroy_j"
          /\ (hs[op[a].h] # "joinable" \/ ~stopReq[op[a].h] \/ Finished(op[a].h))
QuiescentOk == /\ \A a \in Actor : ~Obligation(a)
               \* an accepted exit callback of a finished thread is owed
               /\ \A h \in H : body[h] = "finished" => cbRan[h] = cbReg[h]
JoinMeansDone == \A h \in H : hs[h] = "done" => TRUE
=============================================================================
