SPECIFICATION Spec
CONSTANTS
  Variant = "unlock_resume_relock"
  Channel = "stopped"
INVARIANTS TypeOK NoUseAfterDestroy ReturnsAfterCompletion ResultIsTheSignal LockFreeAtEnd
PROPERTY Terminates
CHECK_DEADLOCK FALSE
