SPECIFICATION Spec
CONSTANTS
  Locker = {l1, l2}
  Timed = {t1}
  Rounds = 2
  Variant = "timeout_swallows_wake"
  None = None
INVARIANT MutualExclusion
INVARIANT OwnerConsistent
INVARIANT NoLostHandover
INVARIANT CountOk
PROPERTY Terminates
CHECK_DEADLOCK FALSE
