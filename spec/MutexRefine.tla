----------------------------- MODULE MutexRefine -----------------------------
(* Refinement check: every behaviour of the fine-grained MutexImpl is, under holder <- owner, a behaviour
   of the abstract MutexTiny (TLC: PROPERTY Refines). *)
EXTENDS MutexImpl
Abs == INSTANCE MutexTiny WITH Thread <- Locker \cup Timed, None <- None, holder <- owner
Refines == Abs!Spec
=============================================================================
