---------------------------- MODULE RecursiveMutexImpl ----------------------------
(* pika::recursive_mutex as implemented (recursive_mutex.hpp): an inner mutex, the owner's context and a
   recursion count (C06):

     lock():     if (owner == me) { ++count; return }          -- try_recursive_lock
                 inner.lock();  owner := me;  count := 1
     try_lock(): try_recursive_lock || (inner.try_lock() && owner := me, count := 1)
     unlock():   if (--count == 0) { owner := none;  inner.unlock() }

   Each thread performs a nest of Depth lock()/unlock() pairs, Rounds times.  The protected resource is
   "inCS": the set of threads between their outermost lock and unlock.
   Properties: at most one thread holds the mutex (Exclusive); the count equals the holder's nesting depth
   whenever the holder is not inside lock / unlock (CountIsDepth); every thread finishes (Terminates).
   Variant "late_count_store" (seeded change C06-3): unlock computes count-1, releases the inner mutex when
   it is 0 and only then stores the new count - the store can overwrite the next owner's count := 1.   *)
EXTENDS Naturals, Integers, FiniteSets
CONSTANTS Thread, Depth, Rounds, Variant, None
VARIABLES inner, owner, count, pc, depth, rounds, tmp,
          up        \* up[t]: the thread is still nesting deeper (locks), otherwise it unwinds (unlocks)
vars == <<inner, owner, count, pc, depth, rounds, tmp, up>>
Init == /\ inner = None /\ owner = None /\ count = 0
        /\ pc = [t \in Thread |-> "idle"] /\ depth = [t \in Thread |-> 0]
        /\ rounds = [t \in Thread |-> 0] /\ tmp = [t \in Thread |-> 0]
        /\ up = [t \in Thread |-> TRUE]
\* ---- lock ----
LockStart(t) == /\ pc[t] = "idle" /\ up[t] /\ depth[t] < Depth /\ rounds[t] < Rounds
                /\ IF owner = t
                      THEN /\ count' = count + 1 /\ depth' = [depth EXCEPT ![t] = @ + 1] /\ UNCHANGED pc
                      ELSE /\ pc' = [pc EXCEPT ![t] = "acquire"] /\ UNCHANGED <<count, depth>>
                /\ UNCHANGED <<inner, owner, rounds, tmp, up>>
Acquire(t) == /\ pc[t] = "acquire" /\ inner = None /\ inner' = t
              /\ pc' = [pc EXCEPT ![t] = "setowner"]
              /\ UNCHANGED <<owner, count, depth, rounds, tmp, up>>
SetOwner(t) == /\ pc[t] = "setowner" /\ owner' = t /\ pc' = [pc EXCEPT ![t] = "setcount"]
               /\ UNCHANGED <<inner, count, depth, rounds, tmp, up>>
SetCount(t) == /\ pc[t] = "setcount" /\ count' = 1 /\ depth' = [depth EXCEPT ![t] = 1]
               /\ pc' = [pc EXCEPT ![t] = "idle"]
               /\ UNCHANGED <<inner, owner, rounds, tmp, up>>
\* the thread stops nesting (at any depth >= 1) and starts to unwind
Turn(t) == /\ pc[t] = "idle" /\ up[t] /\ depth[t] > 0 /\ up' = [up EXCEPT ![t] = FALSE]
           /\ UNCHANGED <<inner, owner, count, pc, depth, rounds, tmp>>
\* ---- unlock (only by a thread that holds the mutex) ----
UnlockStart(t) ==
    /\ pc[t] = "idle" /\ ~up[t] /\ depth[t] > 0
    /\ IF Variant = "late_count_store"
          THEN /\ tmp' = [tmp EXCEPT ![t] = count - 1] /\ UNCHANGED count
          ELSE /\ count' = count - 1 /\ tmp' = [tmp EXCEPT ![t] = count - 1]
    /\ pc' = [pc EXCEPT ![t] = "dec"]
    /\ UNCHANGED <<inner, owner, depth, rounds, up>>
UnlockDec(t) ==
    /\ pc[t] = "dec"
    /\ IF tmp[t] = 0
          THEN pc' = [pc EXCEPT ![t] = "clearowner"] /\ UNCHANGED <<depth, rounds, count>>
          ELSE /\ depth' = [depth EXCEPT ![t] = @ - 1]
               /\ count' = IF Variant = "late_count_store" THEN tmp[t] ELSE count
               /\ pc' = [pc EXCEPT ![t] = "idle"] /\ UNCHANGED rounds
    /\ UNCHANGED <<inner, owner, tmp, up>>
ClearOwner(t) == /\ pc[t] = "clearowner" /\ owner' = None /\ pc' = [pc EXCEPT ![t] = "release"]
                 /\ UNCHANGED <<inner, count, depth, rounds, tmp, up>>
\* the thread's own nesting level goes down by one in any case; in the code as written tmp = 0 exactly when that
\* level was 1
Left(t) == depth[t] - 1
Finish(t) == /\ depth' = [depth EXCEPT ![t] = Left(t)]
             /\ IF Left(t) = 0 THEN rounds' = [rounds EXCEPT ![t] = @ + 1] /\ up' = [up EXCEPT ![t] = TRUE]
                              ELSE UNCHANGED <<rounds, up>>
Release(t) == /\ pc[t] = "release" /\ inner' = None
              /\ IF Variant = "late_count_store"
                    THEN pc' = [pc EXCEPT ![t] = "latestore"] /\ UNCHANGED <<depth, rounds, up>>
                    ELSE pc' = [pc EXCEPT ![t] = "idle"] /\ Finish(t)
              /\ UNCHANGED <<owner, count, tmp>>
LateStore(t) == /\ pc[t] = "latestore" /\ count' = 0
                /\ pc' = [pc EXCEPT ![t] = "idle"] /\ Finish(t)
                /\ UNCHANGED <<inner, owner, tmp>>
Step(t) == LockStart(t) \/ Turn(t) \/ Acquire(t) \/ SetOwner(t) \/ SetCount(t) \/ UnlockStart(t) \/ UnlockDec(t)
              \/ ClearOwner(t) \/ Release(t) \/ LateStore(t)
Next == \E t \in Thread : Step(t)
Spec == Init /\ [][Next]_vars /\ \A t \in Thread : WF_vars(Step(t))
\* a thread is in its critical section from the return of its outermost lock() to the call of the matching unlock()
Holds(t) == (depth[t] > 0 /\ pc[t] \in {"idle", "acquire"}) \/ pc[t] \in {"setowner", "setcount"}
Exclusive == \A a, b \in Thread : (Holds(a) /\ Holds(b)) => a = b
\* a holder at rest sees its own nesting depth in the counter (so its last unlock releases, earlier ones do not)
CountIsDepth == \A t \in Thread : (pc[t] = "idle" /\ depth[t] > 0) => (owner = t /\ count = depth[t])
\* the inner mutex is free whenever nobody holds the recursive mutex and nobody is acquiring / releasing
NoLeak == (\A t \in Thread : pc[t] = "idle" /\ depth[t] = 0) => inner = None
Terminates == <>(\A t \in Thread : pc[t] = "idle" /\ rounds[t] = Rounds)
=============================================================================
