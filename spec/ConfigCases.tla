---------------------------- MODULE ConfigCases ----------------------------
EXTENDS ConfigAbs, TLC, Json
VARIABLE c
Vals == {"-", "A", "B", "X"}
\* which sources exist for which setting
HasSrc(s, src) ==
    CASE s = "stack" -> src \in {"env", "preini", "ini"}
      [] s = "inikey" -> src \in {"env", "preini", "ini"}
      [] s = "mask" -> src \in {"env", "pre", "cmd"}
      [] OTHER -> src \in {"env", "pre", "pini", "ini", "cmd"}
Settings == {"threads", "scheduler", "bind", "stack", "inikey", "mask"}
ValsOf(s) == IF s = "threads" THEN Vals \cup {"K"} ELSE Vals
AppVals == {"-", "A", "B"}
Cases == UNION {{[setting |-> s, env |-> e, pre |-> p, pini |-> q, ini |-> i, cmd |-> m, app |-> d] :
            e \in ValsOf(s), p \in ValsOf(s), q \in Vals, i \in ValsOf(s), m \in ValsOf(s), d \in AppVals} : s \in Settings}
Valid(x) == /\ (x.env # "-" => HasSrc(x.setting, "env"))
            /\ (x.pre # "-" => (HasSrc(x.setting, "pre") \/ HasSrc(x.setting, "preini")))
            /\ (x.pini # "-" => HasSrc(x.setting, "pini"))
            /\ (x.ini # "-" => HasSrc(x.setting, "ini"))
            /\ (x.cmd # "-" => HasSrc(x.setting, "cmd"))
            /\ (x.app # "-" => x.setting # "mask")                 \* (the process mask has no ini key)
            /\ (x.setting = "inikey" => "X" \notin {x.env, x.pre, x.pini, x.ini, x.cmd})   \* any string is a valid entry
Init == c \in {x \in Cases : Valid(x)}
Next == UNCHANGED c
Spec == Init /\ [][Next]_c
Emit == PrintT(<<"CASE", ToJson(c)>>)
=============================================================================
