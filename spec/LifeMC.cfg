SPECIFICATION MCSpec
CONSTANTS
  Task = {1,2,3}
  NoTask = 0
INVARIANT TypeOK
INVARIANT SingleRunnerPerTask
PROPERTY NothingRunsWhileSuspended
PROPERTY EnteredOnce
PROPERTY WaitPost
PROPERTY StopPost
CHECK_DEADLOCK FALSE
