SPECIFICATION Spec
CONSTANTS
  Thread = {"a", "b"}
  Prog <- P5
  Variant = "push_ignores_other_push"
  Null = 0
INVARIANT ExactlyOnce
INVARIANT NothingLost
PROPERTY Terminates
CHECK_DEADLOCK FALSE
