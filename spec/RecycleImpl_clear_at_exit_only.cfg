SPECIFICATION Spec
CONSTANTS
  Obj = {o1, o2}
  Class = {1, 2, 3}
  Top = 3
  Below = 2
  Variant = "clear_at_exit_only"
  MaxTasks = 4
INVARIANT StartsClean
CHECK_DEADLOCK FALSE
