SPECIFICATION Spec
CONSTANTS
  Thread = {"a", "b", "c"}
  Prog <- P3
  Variant = "ok"
  Null = 0
INVARIANT ExactlyOnce
INVARIANT NothingLost
PROPERTY Terminates
CHECK_DEADLOCK FALSE
