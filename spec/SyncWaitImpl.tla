---------------------------- MODULE SyncWaitImpl ----------------------------
(* Fine-grained model of this_thread::experimental::sync_wait (execution/algorithms/sync_wait.hpp) on top of
   binary_semaphore / detail::counting_semaphore / detail::condition_variable, property C03 ("nothing is
   signalled [or touched] after the operation state may be destroyed") and C08 ("sync_wait itself is built
   on this semaphore").

   sync_wait:   state_type state{};  connect; start;  state.wait() = sem.acquire();  return state.get_value();
                -> `state` lives in the caller's frame and dies as soon as acquire() returned.
   receiver:    set_value/error:  state.value.emplace(...);  state.sem.release();     (set_stopped: release only)
   release(1):  lock mtx;  signal(std::move(l), 1):
                    value += 1;
                    for (i = 0; value >= 0 && i < 1; ++i) {
                        if (!cond.notify_one(std::move(l))) break;      \* parameter destroyed here -> unlock
                        l = unique_lock(mtx);                            \* re-lock: touches the state again
                    }                                                    \* l destroyed -> unlock if owned
   notify_one:  if queue non-empty: pop front; not_empty := queue non-empty; ctx.resume(); return not_empty
                else return false           (the lock is still held during resume())
   acquire():   lock mtx; while (value < 1) cond.wait(l) [enqueue, unlock, suspend, re-lock]; value -= 1; unlock

   The completing thread S and the waiting thread W are independent from the start: S finishing before W's
   first step is "inline completion in start()", everything else is "later on another thread".

   Every step of S that reads or writes a member of `state` (value variant, mutex, counter, queue) is an
   access; an access after W destroyed the state sets uaf.  With a single waiter notify_one returns false, so
   the unlock that lets W through is S's last access.

   Variants (must violate NoUseAfterDestroy):
     "notify_returns_woken"   notify_one returns true when it woke a thread (what its call site's comment
                              "returns false if no more threads are waiting" invites): signal re-locks the
                              mutex of a state that W may already have destroyed
     "flag_after_release"     the receiver stores a completion flag in the state after sem.release()
     "unlock_resume_relock"   notify_one releases the lock before resume() and signal always re-takes it
   Benign (must hold): "unlock_before_resume"  notify_one unlocks before ctx.resume() (resume touches the
                              thread, not the state).                                                      *)
EXTENDS Integers, Sequences
CONSTANTS Variant, Channel      \* Channel \in {"value", "stopped"}
VARIABLES alive, stored, value, il, queued, token, pcW, pcS, ret, uaf, got
vars == <<alive, stored, value, il, queued, token, pcW, pcS, ret, uaf, got>>

Init == /\ alive = TRUE /\ stored = FALSE /\ value = 0 /\ il = "none" /\ queued = FALSE /\ token = FALSE
        /\ pcW = "lock" /\ pcS = (IF Channel = "value" THEN "emplace" ELSE "lock") /\ ret = FALSE
        /\ uaf = FALSE /\ got = "none"

\* an access of S to the state object
Acc == uaf' = (uaf \/ ~alive)

(* ---------------- W: sem.acquire(); get_value(); leave the frame ---------------- *)
WLock == /\ pcW \in {"lock", "relock"} /\ il = "none" /\ il' = "W" /\ pcW' = "check"
         /\ UNCHANGED <<alive, stored, value, queued, token, pcS, ret, uaf, got>>
WCheck == /\ pcW = "check"
          /\ IF value >= 1
                THEN /\ value' = value - 1 /\ il' = "none" /\ pcW' = "get" /\ UNCHANGED queued
                ELSE /\ queued' = TRUE /\ il' = "none" /\ pcW' = "suspended" /\ UNCHANGED value
          /\ UNCHANGED <<alive, stored, token, pcS, ret, uaf, got>>
WWake == /\ pcW = "suspended" /\ token /\ token' = FALSE /\ pcW' = "relock"
         /\ UNCHANGED <<alive, stored, value, il, queued, pcS, ret, uaf, got>>
WGet == /\ pcW = "get" /\ got' = (IF stored THEN "value" ELSE "stopped") /\ pcW' = "destroy"
        /\ UNCHANGED <<alive, stored, value, il, queued, token, pcS, ret, uaf>>
WDestroy == /\ pcW = "destroy" /\ alive' = FALSE /\ pcW' = "done"
            /\ UNCHANGED <<stored, value, il, queued, token, pcS, ret, uaf, got>>

(* ---------------- S: the receiver's completion function ---------------- *)
SEmplace == /\ pcS = "emplace" /\ stored' = TRUE /\ Acc /\ pcS' = "lock"
            /\ UNCHANGED <<alive, value, il, queued, token, pcW, ret, got>>
SLock == /\ pcS \in {"lock", "relock"} /\ il = "none" /\ il' = "S" /\ Acc
         /\ pcS' = (IF pcS = "lock" THEN "add" ELSE "loopend")
         /\ UNCHANGED <<alive, stored, value, queued, token, pcW, ret, got>>
SAdd == /\ pcS = "add" /\ value' = value + 1 /\ Acc /\ pcS' = "notify"
        /\ UNCHANGED <<alive, stored, il, queued, token, pcW, ret, got>>
\* notify_one up to (not including) resume(): pop and compute the result
SNotify == /\ pcS = "notify" /\ Acc
           /\ IF queued
                 THEN /\ queued' = FALSE
                      /\ ret' = (Variant \in {"notify_returns_woken", "unlock_resume_relock"})   \* the real code: queue now empty -> false
                      /\ pcS' = IF Variant \in {"unlock_before_resume", "unlock_resume_relock"} THEN "unlock_then_resume" ELSE "resume"
                 ELSE /\ ret' = FALSE /\ pcS' = "unlock" /\ UNCHANGED queued
           /\ UNCHANGED <<alive, stored, value, il, token, pcW, got>>
\* ctx.resume(): touches the waiting thread, not the state
SResume == /\ pcS = "resume" /\ token' = TRUE /\ pcS' = "unlock"
           /\ UNCHANGED <<alive, stored, value, il, queued, pcW, ret, uaf, got>>
SUnlockThenResume == /\ pcS = "unlock_then_resume" /\ il' = "none" /\ Acc /\ pcS' = "resume_unlocked"
                     /\ UNCHANGED <<alive, stored, value, queued, token, pcW, ret, got>>
SResumeUnlocked == /\ pcS = "resume_unlocked" /\ token' = TRUE /\ pcS' = (IF ret THEN "relock" ELSE "after")
                   /\ UNCHANGED <<alive, stored, value, il, queued, pcW, ret, uaf, got>>
\* the by-value lock parameter of notify_one dies at the end of the full expression
SUnlock == /\ pcS = "unlock" /\ il' = "none" /\ Acc /\ pcS' = (IF ret THEN "relock" ELSE "after")
           /\ UNCHANGED <<alive, stored, value, queued, token, pcW, ret, got>>
\* after the re-lock: the loop condition reads value_, the loop ends (count = 1), l is destroyed -> unlock
SLoopEnd == /\ pcS = "loopend" /\ il' = "none" /\ Acc /\ pcS' = "after"
            /\ UNCHANGED <<alive, stored, value, queued, token, pcW, ret, got>>
SAfter == /\ pcS = "after"
          /\ IF Variant = "flag_after_release" THEN Acc ELSE UNCHANGED uaf
          /\ pcS' = "done"
          /\ UNCHANGED <<alive, stored, value, il, queued, token, pcW, ret, got>>

Next == WLock \/ WCheck \/ WWake \/ WGet \/ WDestroy \/ SEmplace \/ SLock \/ SAdd \/ SNotify \/ SResume
        \/ SUnlockThenResume \/ SResumeUnlocked \/ SUnlock \/ SLoopEnd \/ SAfter
Spec == Init /\ [][Next]_vars /\ WF_vars(WLock \/ WCheck \/ WWake \/ WGet \/ WDestroy)
             /\ WF_vars(SEmplace \/ SLock \/ SAdd \/ SNotify \/ SResume \/ SUnlockThenResume \/ SResumeUnlocked
                        \/ SUnlock \/ SLoopEnd \/ SAfter)

TypeOK == /\ value \in 0..1 /\ il \in {"none", "W", "S"} /\ got \in {"none", "value", "stopped"}
NoUseAfterDestroy == ~uaf
\* sync_wait returns only after the completion was signalled, and sees exactly what was signalled
ReturnsAfterCompletion == pcW \in {"get", "destroy", "done"} => pcS \notin {"emplace", "lock", "add"}
\* (got = "stopped": get_value() finds monostate, which pika turns into PIKA_UNREACHABLE by design)
ResultIsTheSignal == got # "none" => got = Channel
LockFreeAtEnd == (pcW = "done" /\ pcS = "done") => (il = "none" /\ value = 0 /\ ~queued /\ ~token)
Terminates == <>(pcW = "done" /\ pcS = "done")
=============================================================================
