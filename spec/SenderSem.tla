------------------------------ MODULE SenderSem ------------------------------
(* Denotational semantics of compositions of pika's sender factories and adaptors (property C03).

   Terms (all senders of one int):
     [op |-> "just", v]                     completes with value v
     [op |-> "fail", e]                     completes with error e
     [op |-> "stop"]                        completes with stopped
     [op |-> "then", f, s]                  f \in {"inc" (x+1), "dbl" (2x), "throw1" (throws error 7)}
     [op |-> "let_value", g, s]             g \in {"plus10" (x -> just(x+10)), "tofail" (x -> fail(8)), "throw2" (throws 9)}
     [op |-> "let_error", h, s]             h \in {"recover" (e -> just(100+e)), "refail" (e -> fail(e+1))}
     [op |-> "continues_on", s]             same signal, delivered on the pool
     [op |-> "ensure_started", s], [op |-> "split1", s] (one consumer), [op |-> "drop_op_state", s]
     [op |-> "split2", s]                   two consumers of one split, joined by when_all and summed
     [op |-> "split2r", s]                  two consumers of one split, each recovering an error e by itself into the
                                            value 100+e, joined by when_all and summed (every consumer must be handed
                                            the error, not only the first one)
     [op |-> "when_all", a, b]              both values -> sum; otherwise the first non-value signal:
                                            one of the children's errors / stopped
     [op |-> "when_all_vector", a, b]       the same for a std::vector of senders
     [op |-> "drop_wa", a, b], [op |-> "drop_es", s]   drop_operation_state directly on when_all / ensure_started
                                            (built without type erasure in between)
   Den(t) = the set of completion signals the composition may deliver (a set only because when_all
   with two failing children may report either).  Exactly one signal of Den(t) must reach the
   receiver; [ch, v] with ch \in {"value","error","stopped"}.                                 *)
EXTENDS Naturals, Integers, FiniteSets

Val(v) == [ch |-> "value", v |-> v]
Err(e) == [ch |-> "error", v |-> e]
Stopped == [ch |-> "stopped", v |-> 0]

ApplyThen(f, r) ==
    IF r.ch # "value" THEN r
    ELSE CASE f = "inc" -> Val(r.v + 1) [] f = "dbl" -> Val(2 * r.v) [] OTHER -> Err(7)
ApplyLetValue(g, r) ==
    IF r.ch # "value" THEN r
    ELSE CASE g = "plus10" -> Val(r.v + 10) [] g = "tofail" -> Err(8) [] OTHER -> Err(9)
ApplyLetError(h, r) ==
    IF r.ch # "error" THEN r
    ELSE CASE h = "recover" -> Val(100 + r.v) [] OTHER -> Err(r.v + 1)

RECURSIVE Den(_)
Den(t) ==
    CASE t.op = "just" -> {Val(t.v)}
      [] t.op = "fail" -> {Err(t.e)}
      [] t.op = "stop" -> {Stopped}
      [] t.op = "then" -> {ApplyThen(t.f, r) : r \in Den(t.s)}
      [] t.op = "let_value" -> {ApplyLetValue(t.g, r) : r \in Den(t.s)}
      [] t.op = "let_error" -> {ApplyLetError(t.h, r) : r \in Den(t.s)}
      [] t.op \in {"continues_on", "ensure_started", "split1", "drop_op_state", "drop_es"} -> Den(t.s)
      [] t.op = "split2" -> {IF r.ch = "value" THEN Val(2 * r.v) ELSE r : r \in Den(t.s)}
      [] t.op = "split2r" -> {IF r.ch = "value" THEN Val(2 * r.v)
                              ELSE IF r.ch = "error" THEN Val(2 * (100 + r.v)) ELSE r : r \in Den(t.s)}
      [] t.op \in {"when_all", "when_all_vector", "drop_wa"} ->
            LET A == Den(t.a)  B == Den(t.b) IN
            UNION {{IF ra.ch = "value" /\ rb.ch = "value" THEN Val(ra.v + rb.v)
                    ELSE IF ra.ch = "value" THEN rb
                    ELSE IF rb.ch = "value" THEN ra
                    ELSE ra, 
                    IF ra.ch = "value" /\ rb.ch = "value" THEN Val(ra.v + rb.v)
                    ELSE IF ra.ch = "value" THEN rb
                    ELSE IF rb.ch = "value" THEN ra
                    ELSE rb} : ra \in A, rb \in B}

(* ------------------------------ term enumeration ------------------------------ *)
Leaves == {[op |-> "just", v |-> 1], [op |-> "just", v |-> 2], [op |-> "fail", e |-> 3], [op |-> "stop"]}
Unary(S) ==
    {[op |-> "then", f |-> f, s |-> s] : f \in {"inc", "dbl", "throw1"}, s \in S}
    \cup {[op |-> "let_value", g |-> g, s |-> s] : g \in {"plus10", "tofail", "throw2"}, s \in S}
    \cup {[op |-> "let_error", h |-> h, s |-> s] : h \in {"recover", "refail"}, s \in S}
    \cup {[op |-> o, s |-> s] : o \in {"continues_on", "ensure_started", "split1", "split2", "split2r", "drop_op_state", "drop_es"}, s \in S}
\* when_all_vector asks its (single) child sender type whether it can send stopped; the type-erased stages
\* the conformance run builds terms from declare that they cannot, so its children are stop-free terms
RECURSIVE NoStop(_)
NoStop(x) == CASE x.op = "stop" -> FALSE
               [] x.op \in {"just", "fail"} -> TRUE
               [] x.op \in {"when_all", "when_all_vector", "drop_wa"} -> NoStop(x.a) /\ NoStop(x.b)
               [] OTHER -> NoStop(x.s)
Binary(S, T) == {[op |-> o, a |-> a, b |-> b] : o \in {"when_all", "drop_wa"}, a \in S, b \in T}
                \cup {[op |-> "when_all_vector", a |-> a, b |-> b] : a \in {x \in S : NoStop(x)}, b \in {x \in T : NoStop(x)}}
T1 == Leaves
T2 == T1 \cup Unary(T1) \cup Binary(T1, T1)
\* depth 3: every unary adaptor over every depth-2 term, and when_all of depth-2 terms with leaves
T3 == T2 \cup Unary(T2) \cup Binary(T2, T1)
\* sanity of the semantics: exactly one of the channels, and when_all is symmetric
DenNonEmpty(S) == \A t \in S : Den(t) # {}
=============================================================================
