SPECIFICATION TSpec
CONSTANTS
  Task = {1,2,3,4,5,6,7,8,9,10,11,12,13,14,15,16,17,18,19,20,21,22,23,24,25,26,27,28,29,30}
  NoTask = 0
INVARIANT NotAccepted
CONSTRAINT TrackMax
POSTCONDITION PrintMax
CHECK_DEADLOCK FALSE
