SPECIFICATION Spec
CONSTANTS
  Op = {o1, o2, o3}
  Variant = "ok"
INVARIANT AtMostOnce
PROPERTY EveryStartedGranted
CHECK_DEADLOCK FALSE
