SPECIFICATION Spec
CONSTANTS
  Worker = {1,2}
  MpiThread = 9
  Variant = "wrong_bit"
INVARIANT Exclusive
CONSTRAINT Bound
CHECK_DEADLOCK FALSE
