SPECIFICATION TSpec
CONSTANTS
  Actor = {1,2,3,4,5,6,7,8}
  Deviations = {}
INVARIANT NotAccepted
INVARIANT Conservation
CONSTRAINT TrackMax
POSTCONDITION PrintMax
CHECK_DEADLOCK FALSE
