------------------------------ MODULE SemRefine ------------------------------
EXTENDS SemImplMC
Abs == INSTANCE SemTiny WITH MaxRelease <- 3, permits <- value
Refines == Abs!Spec
=============================================================================
