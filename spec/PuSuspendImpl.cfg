SPECIFICATION Spec
CONSTANTS
  NTasks = 3
  Variant = "ok"
INVARIANT NoStrandedWork
PROPERTY EverythingCompletes
CHECK_DEADLOCK FALSE
