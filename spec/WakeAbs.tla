------------------------------ MODULE WakeAbs ------------------------------
(* Abstract statement of C02 for the bare suspend/resume path (and the quiescence rule every
   blocking facility's abstract spec instantiates): for every target task t and wait round r
     register(t,r) < wake(t,r)            the waker pops a registration that exists
     wake(t,r) < resumed(t,r)             the task continues only after its wake-up was issued
   and the system never becomes quiescent while a wake-up that was issued has not led to the task
   running again.  Spurious resumptions (suspend returning without the wake flag) are legal; the
   task then suspends again.                                                                  *)
EXTENDS Naturals, FiniteSets
CONSTANTS Target, Round
VARIABLES registered, issued, resumedSet, suspends
vars == <<registered, issued, resumedSet, suspends>>
Init == registered = {} /\ issued = {} /\ resumedSet = {} /\ suspends = 0
Register(t, r) == /\ <<t, r>> \notin registered
                  /\ (r > 1 => <<t, r - 1>> \in resumedSet)
                  /\ registered' = registered \cup {<<t, r>>}
                  /\ UNCHANGED <<issued, resumedSet, suspends>>
Suspend(t, r) == /\ <<t, r>> \in registered /\ <<t, r>> \notin resumedSet
                 /\ suspends' = suspends + 1 /\ UNCHANGED <<registered, issued, resumedSet>>
Wake(t, r) == /\ <<t, r>> \in registered /\ <<t, r>> \notin issued
              /\ issued' = issued \cup {<<t, r>>} /\ UNCHANGED <<registered, resumedSet, suspends>>
Resumed(t, r) == /\ <<t, r>> \in issued /\ <<t, r>> \notin resumedSet
                 /\ resumedSet' = resumedSet \cup {<<t, r>>}
                 /\ UNCHANGED <<registered, issued, suspends>>
NoLostWake == issued \subseteq resumedSet        \* required at quiescence
ResumedOnlyIssued == resumedSet \subseteq issued /\ issued \subseteq registered
=============================================================================
