---------------------------- MODULE SenderCases ----------------------------
(* TLC enumerates the terms of SenderSem and prints each with its denotation. *)
EXTENDS SenderSem, TLC, Json
CONSTANTS Depth, Stride
VARIABLE t
TermSet == IF Depth = 2 THEN T2 ELSE T3
RECURSIVE Size(_)
Size(x) == CASE x.op \in {"just", "fail", "stop"} -> 1
             [] x.op \in {"when_all", "when_all_vector", "drop_wa"} -> 1 + Size(x.a) + 3 * Size(x.b)
             [] OTHER -> 2 + 5 * Size(x.s) + (IF x.op = "then" THEN 1 ELSE IF x.op = "let_value" THEN 2 ELSE 3)
Init == t \in TermSet
Next == UNCHANGED t
Spec == Init /\ [][Next]_t
Emit == (Size(t) % Stride = 0 \/ Depth = 2) =>
            PrintT(<<"CASE", ToJson([term |-> t, den |-> Den(t)])>>)
DenOk == Den(t) # {}
=============================================================================
