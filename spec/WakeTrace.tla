---------------------------- MODULE WakeTrace ----------------------------
EXTENDS WakeAbs, Json, IOUtils, TLC, Sequences
TraceLog == ndJsonDeserialize(IOEnv.TRACE)
VARIABLE l
tvars == <<vars, l>>
Rec == TraceLog[l]
Has == l <= Len(TraceLog)
TInit == l = 1 /\ TLCSet(1, 0) /\ Init
Step(e, A(_, _)) == Has /\ Rec.e = e /\ A(Rec.t, Rec.r) /\ l' = l + 1
TStart == Has /\ Rec.e = "init" /\ registered' = {} /\ issued' = {} /\ resumedSet' = {}
          /\ suspends' = 0 /\ l' = l + 1
TSkip == Has /\ Rec.e = "wake_done" /\ UNCHANGED vars /\ l' = l + 1
TQuiescent == Has /\ Rec.e = "quiescent" /\ NoLostWake /\ UNCHANGED vars /\ l' = l + 1
\* end of a complete history: every registered wait was woken and resumed
TReset == Has /\ Rec.e = "reset" /\ registered = resumedSet /\ UNCHANGED vars /\ l' = l + 1
TNext == TStart \/ Step("register", Register) \/ Step("suspend", Suspend) \/ Step("wake", Wake)
         \/ Step("resumed", Resumed) \/ TSkip \/ TQuiescent \/ TReset
TSpec == TInit /\ [][TNext]_tvars
NotAccepted == l <= Len(TraceLog)
TrackMax == IF l > TLCGet(1) THEN TLCSet(1, l) ELSE TRUE
PrintMax == PrintT(<<"MAXL", TLCGet(1)>>)
=============================================================================
