SPECIFICATION MCSpec
CONSTANTS
  Actor = {a1, a2}
  OsActor = {a1, a2}
  SrcH = {1, 2}
  TokH = {1}
  Cb = {1, 2}
  MaxState = 2
  MaxCalls = 4
  Deviations = {"DtorSkipsWaitAmongOsThreads"}
  Kinds = {"new_src","get_token","request_stop","make_cb","destroy_cb","destroy_src"}
INVARIANT OneWinner
INVARIANT CallbackAtMostOnce
INVARIANT SourceCountsSane
INVARIANT PossibleMeaning
PROPERTY RegisteredRuns
PROPERTY NoRunAfterDead
PROPERTY DtorWaits
CHECK_DEADLOCK FALSE
