SPECIFICATION Spec
CONSTANTS
  Depth = 3
  Stride = 1
INVARIANT Emit
INVARIANT DenOk
CHECK_DEADLOCK FALSE
