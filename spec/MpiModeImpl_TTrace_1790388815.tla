---- MODULE MpiModeImpl_TTrace_1790388815 ----
EXTENDS Sequences, TLCExt, Toolbox, MpiModeImpl, Naturals, TLC

_expression ==
    LET MpiModeImpl_TEExpression == INSTANCE MpiModeImpl_TEExpression
    IN MpiModeImpl_TEExpression!expression
----

_trace ==
    LET MpiModeImpl_TETrace == INSTANCE MpiModeImpl_TETrace
    IN MpiModeImpl_TETrace!trace
----

_inv ==
    ~(
        TLCGet("level") = Len(_TETrace)
        /\
        pc = ((1 :> "pushing" @@ 2 :> "pushing" @@ 9 :> "idle"))
        /\
        complInline = (FALSE)
        /\
        reqInline = (TRUE)
        /\
        queued = (0)
        /\
        pool = (TRUE)
        /\
        inside = ({1, 2})
        /\
        locked = (FALSE)
    )
----

_init ==
    /\ pool = _TETrace[1].pool
    /\ complInline = _TETrace[1].complInline
    /\ queued = _TETrace[1].queued
    /\ inside = _TETrace[1].inside
    /\ pc = _TETrace[1].pc
    /\ reqInline = _TETrace[1].reqInline
    /\ locked = _TETrace[1].locked
----

_next ==
    /\ \E i,j \in DOMAIN _TETrace:
        /\ \/ /\ j = i + 1
              /\ i = TLCGet("level")
        /\ pool  = _TETrace[i].pool
        /\ pool' = _TETrace[j].pool
        /\ complInline  = _TETrace[i].complInline
        /\ complInline' = _TETrace[j].complInline
        /\ queued  = _TETrace[i].queued
        /\ queued' = _TETrace[j].queued
        /\ inside  = _TETrace[i].inside
        /\ inside' = _TETrace[j].inside
        /\ pc  = _TETrace[i].pc
        /\ pc' = _TETrace[j].pc
        /\ reqInline  = _TETrace[i].reqInline
        /\ reqInline' = _TETrace[j].reqInline
        /\ locked  = _TETrace[i].locked
        /\ locked' = _TETrace[j].locked

\* Uncomment the ASSUME below to write the states of the error trace
\* to the given file in Json format. Note that you can pass any tuple
\* to `JsonSerialize`. For example, a sub-sequence of _TETrace.
    \* ASSUME
    \*     LET J == INSTANCE Json
    \*         IN J!JsonSerialize("MpiModeImpl_TTrace_1790388815.json", _TETrace)

=============================================================================

 Note that you can extract this module `MpiModeImpl_TEExpression`
  to a dedicated file to reuse `expression` (the module in the 
  dedicated `MpiModeImpl_TEExpression.tla` file takes precedence 
  over the module `MpiModeImpl_TEExpression` below).

---- MODULE MpiModeImpl_TEExpression ----
EXTENDS Sequences, TLCExt, Toolbox, MpiModeImpl, Naturals, TLC

expression == 
    [
        \* To hide variables of the `MpiModeImpl` spec from the error trace,
        \* remove the variables below.  The trace will be written in the order
        \* of the fields of this record.
        pool |-> pool
        ,complInline |-> complInline
        ,queued |-> queued
        ,inside |-> inside
        ,pc |-> pc
        ,reqInline |-> reqInline
        ,locked |-> locked
        
        \* Put additional constant-, state-, and action-level expressions here:
        \* ,_stateNumber |-> _TEPosition
        \* ,_poolUnchanged |-> pool = pool'
        
        \* Format the `pool` variable as Json value.
        \* ,_poolJson |->
        \*     LET J == INSTANCE Json
        \*     IN J!ToJson(pool)
        
        \* Lastly, you may build expressions over arbitrary sets of states by
        \* leveraging the _TETrace operator.  For example, this is how to
        \* count the number of times a spec variable changed up to the current
        \* state in the trace.
        \* ,_poolModCount |->
        \*     LET F[s \in DOMAIN _TETrace] ==
        \*         IF s = 1 THEN 0
        \*         ELSE IF _TETrace[s].pool # _TETrace[s-1].pool
        \*             THEN 1 + F[s-1] ELSE F[s-1]
        \*     IN F[_TEPosition - 1]
    ]

=============================================================================



Parsing and semantic processing can take forever if the trace below is long.
 In this case, it is advised to uncomment the module below to deserialize the
 trace from a generated binary file.

\*
\*---- MODULE MpiModeImpl_TETrace ----
\*EXTENDS IOUtils, MpiModeImpl, TLC
\*
\*trace == IODeserialize("MpiModeImpl_TTrace_1790388815.bin", TRUE)
\*
\*=============================================================================
\*

---- MODULE MpiModeImpl_TETrace ----
EXTENDS MpiModeImpl, TLC

trace == 
    <<
    ([pc |-> (1 :> "idle" @@ 2 :> "idle" @@ 9 :> "idle"),complInline |-> FALSE,reqInline |-> TRUE,queued |-> 0,pool |-> TRUE,inside |-> {},locked |-> FALSE]),
    ([pc |-> (1 :> "pushing" @@ 2 :> "idle" @@ 9 :> "idle"),complInline |-> FALSE,reqInline |-> TRUE,queued |-> 0,pool |-> TRUE,inside |-> {1},locked |-> FALSE]),
    ([pc |-> (1 :> "pushing" @@ 2 :> "pushing" @@ 9 :> "idle"),complInline |-> FALSE,reqInline |-> TRUE,queued |-> 0,pool |-> TRUE,inside |-> {1, 2},locked |-> FALSE])
    >>
----


=============================================================================

---- CONFIG MpiModeImpl_TTrace_1790388815 ----
CONSTANTS
    Worker = { 1 , 2 }
    MpiThread = 9
    Variant = "wrong_bit"

INVARIANT
    _inv

CHECK_DEADLOCK
    \* CHECK_DEADLOCK off because of PROPERTY or INVARIANT above.
    FALSE

INIT
    _init

NEXT
    _next

CONSTANT
    _TETrace <- _trace

ALIAS
    _expression
=============================================================================
\* Generated on Sat Sep 26 02:13:36 UTC 2026