------------------------------ MODULE RecycleImpl ------------------------------
(* Recycling of thread objects (stack + bookkeeping) in thread_queue / thread_data, property C12: a task
   that is given a recycled object starts clean and on a stack of the size it asked for.

   create_thread_object(class): take an object from the recycle heap of that stack class if there is one
                 (rebind: re-initialise the bookkeeping, among it requested_interrupt_ := false),
                 otherwise allocate a fresh one of that class
   the task runs; anybody holding its id may call interrupt() - also when the task is about to finish or
   has just finished (the id stays valid until the object is recycled)
   terminate -> cleanup_terminated: the object goes to the heap that matches its PHYSICAL stack size
   Variants: "clear_at_exit_only"   the interruption flag is cleared when the task's exit callbacks run
                                    instead of at rebind (seeded change C12-1): a late interrupt survives
             "huge_from_large_heap" a request for the largest class is served from the heap of the class
                                    below it (seeded change C12-2)                                      *)
EXTENDS Naturals, FiniteSets
CONSTANTS Obj, Class, Top, Below, Variant, MaxTasks
\* Class: set of stack classes; Top: the largest class; Below: the class below Top
VARIABLES ostate, osize, oflag, oreq, started, badStart
\* ostate[o]: "unused" | "running" | "exiting" (exit callbacks ran) | "terminated" | "heap"
vars == <<ostate, osize, oflag, oreq, started, badStart>>
Init == /\ ostate = [o \in Obj |-> "unused"] /\ osize = [o \in Obj |-> Top] /\ oflag = [o \in Obj |-> FALSE]
        /\ oreq = [o \in Obj |-> Top] /\ started = 0 /\ badStart = FALSE
HeapOf(c) == {o \in Obj : ostate[o] = "heap" /\ osize[o] = c}
SourceClass(c) == IF Variant = "huge_from_large_heap" /\ c = Top THEN Below ELSE c
Create(c) ==
    /\ started < MaxTasks
    /\ LET h == HeapOf(SourceClass(c)) IN
       \E o \in (IF h # {} THEN h ELSE {x \in Obj : ostate[x] = "unused"}) :
          /\ ostate' = [ostate EXCEPT ![o] = "running"]
          /\ osize' = [osize EXCEPT ![o] = IF ostate[o] = "unused" THEN c ELSE osize[o]]
          /\ oreq' = [oreq EXCEPT ![o] = c]
          \* rebind / fresh construction
          /\ LET f == IF ostate[o] = "unused" THEN FALSE
                      ELSE IF Variant = "clear_at_exit_only" THEN oflag[o] ELSE FALSE
                 sz == IF ostate[o] = "unused" THEN c ELSE osize[o] IN
             /\ oflag' = [oflag EXCEPT ![o] = f]
             /\ badStart' = (badStart \/ f \/ sz # c)        \* what the new task observes when it starts
    /\ started' = started + 1
Interrupt(o) == /\ ostate[o] \in {"running", "exiting", "terminated"} /\ oflag' = [oflag EXCEPT ![o] = TRUE]
                /\ UNCHANGED <<ostate, osize, oreq, started, badStart>>
Exit(o) == /\ ostate[o] = "running" /\ ostate' = [ostate EXCEPT ![o] = "exiting"]
           /\ oflag' = (IF Variant = "clear_at_exit_only" THEN [oflag EXCEPT ![o] = FALSE] ELSE oflag)
           /\ UNCHANGED <<osize, oreq, started, badStart>>
Terminate(o) == /\ ostate[o] = "exiting" /\ ostate' = [ostate EXCEPT ![o] = "terminated"]
                /\ UNCHANGED <<osize, oflag, oreq, started, badStart>>
Cleanup(o) == /\ ostate[o] = "terminated" /\ ostate' = [ostate EXCEPT ![o] = "heap"]
              /\ UNCHANGED <<osize, oflag, oreq, started, badStart>>
Next == (\E c \in Class : Create(c)) \/ (\E o \in Obj : Interrupt(o) \/ Exit(o) \/ Terminate(o) \/ Cleanup(o))
Spec == Init /\ [][Next]_vars
\* every task starts without an inherited interruption request and on a stack of the class it asked for
StartsClean == ~badStart
=============================================================================
