------------------------------ MODULE BarrierImpl ------------------------------
(* Fine-grained model of pika::barrier's tournament-tree arrival (barrier.cpp) (C09).

   tickets[node][round] hold phase values; for the phase starting at value `old`:
   half = old + 1 (one of two arrived), full = old + 2 (node complete).  arrive():
       cexp := expected; cur := start node (a hash in the code: any node here); round := 0
       loop  if cexp <= 1 return TRUE (this arrival completes the phase)
             end := (cexp+1) div 2; last := end - 1
             inner loop: if cur = end: cur := 0
                         if cur = last /\ cexp odd:  CAS(t, old -> full) ok => next round
                         elsif CAS(t, old -> half) ok => return FALSE
                         elsif t = half /\ CAS(t, half -> full) ok => next round
                         cur := cur + 1
             next round: cexp := last + 1; cur := cur div 2; round := round + 1
   The arrival that returns TRUE runs the completion function, then publishes phase := old + 2.
   Participants call arrive_and_wait() Phases times; wait() polls `phase # old`.
   Variant "publish_before_completion" stores the phase before running the completion.
   Variant "claim_by_exchange" (seeded change C09-3): the second arrival at a half-full node claims it with an
   unconditional exchange instead of the CAS half -> full; two arrivals that both saw `half` both go on to the
   next round (the failed first CAS and the exchange are separate steps in this variant).            *)
EXTENDS Naturals, Integers, FiniteSets
CONSTANTS P, Phases, Variant
VARIABLES t, phase, pc, old, cexp, cur, rnd, done, completions, arrivals, departed
vars == <<t, phase, pc, old, cexp, cur, rnd, done, completions, arrivals, departed>>
Proc == 1..P
Nodes == 0..((P + 1) \div 2)
Rounds == 0..3
Init == /\ t = [n \in Nodes |-> [r \in Rounds |-> 0]] /\ phase = 0
        /\ pc = [p \in Proc |-> "idle"] /\ old = [p \in Proc |-> 0] /\ cexp = [p \in Proc |-> 0]
        /\ cur = [p \in Proc |-> 0] /\ rnd = [p \in Proc |-> 0] /\ done = [p \in Proc |-> 0]
        /\ completions = [k \in 0..Phases |-> 0] /\ arrivals = [k \in 0..Phases |-> 0]
        /\ departed = [k \in 0..Phases |-> 0]
End(p) == (cexp[p] + 1) \div 2
Begin(p) == /\ pc[p] = "idle" /\ done[p] < Phases
            /\ old' = [old EXCEPT ![p] = phase] /\ cexp' = [cexp EXCEPT ![p] = P]
            /\ \E s \in 0..(((P + 1) \div 2) - 1) : cur' = [cur EXCEPT ![p] = s]
            /\ rnd' = [rnd EXCEPT ![p] = 0] /\ pc' = [pc EXCEPT ![p] = "round"]
            /\ arrivals' = [arrivals EXCEPT ![phase \div 2] = @ + 1]
            /\ UNCHANGED <<t, phase, done, completions, departed>>
RoundTop(p) == /\ pc[p] = "round"
               /\ pc' = [pc EXCEPT ![p] = IF cexp[p] <= 1 THEN "complete" ELSE "try"]
               /\ UNCHANGED <<t, phase, old, cexp, cur, rnd, done, completions, arrivals, departed>>
NextRound(p) == /\ cexp' = [cexp EXCEPT ![p] = End(p)]       \* last_node + 1 = end_node
                /\ cur' = [cur EXCEPT ![p] = cur[p] \div 2] /\ rnd' = [rnd EXCEPT ![p] = @ + 1]
                /\ pc' = [pc EXCEPT ![p] = "round"]
Try(p) ==
    /\ pc[p] = "try"
    /\ LET c == IF cur[p] = End(p) THEN 0 ELSE cur[p]
           v == t[c][rnd[p]]
           half == old[p] + 1  full == old[p] + 2  last == End(p) - 1 IN
       IF c = last /\ cexp[p] % 2 = 1
          THEN IF v = old[p]
                  THEN t' = [t EXCEPT ![c][rnd[p]] = full] /\ NextRound(p) /\ UNCHANGED done
                  ELSE UNCHANGED <<t, cexp, rnd, pc, done>> /\ cur' = [cur EXCEPT ![p] = c + 1]
          ELSE IF v = old[p]
                  THEN /\ t' = [t EXCEPT ![c][rnd[p]] = half]
                       /\ pc' = [pc EXCEPT ![p] = "wait"] /\ UNCHANGED <<cexp, cur, rnd, done>>
                  ELSE IF v = half
                          THEN IF Variant = "claim_by_exchange"
                                  THEN /\ pc' = [pc EXCEPT ![p] = "exchange"] /\ cur' = [cur EXCEPT ![p] = c]
                                       /\ UNCHANGED <<t, cexp, rnd, done>>
                                  ELSE t' = [t EXCEPT ![c][rnd[p]] = full] /\ NextRound(p) /\ UNCHANGED done
                          ELSE UNCHANGED <<t, cexp, rnd, pc, done>> /\ cur' = [cur EXCEPT ![p] = c + 1]
    /\ UNCHANGED <<phase, old, completions, arrivals, departed>>
Exchange(p) == /\ pc[p] = "exchange"
               /\ t' = [t EXCEPT ![cur[p]][rnd[p]] = old[p] + 2] /\ NextRound(p)
               /\ UNCHANGED <<phase, old, done, completions, arrivals, departed>>
\* the completing arrival: completion function, then publish the new phase
Complete(p) ==
    /\ pc[p] = "complete"
    /\ IF Variant = "publish_before_completion"
          THEN phase' = old[p] + 2 /\ pc' = [pc EXCEPT ![p] = "late_completion"] /\ UNCHANGED completions
          ELSE completions' = [completions EXCEPT ![old[p] \div 2] = @ + 1]
               /\ pc' = [pc EXCEPT ![p] = "publish"] /\ UNCHANGED phase
    /\ UNCHANGED <<t, old, cexp, cur, rnd, done, arrivals, departed>>
Publish(p) == /\ pc[p] = "publish" /\ phase' = old[p] + 2 /\ pc' = [pc EXCEPT ![p] = "wait"]
              /\ UNCHANGED <<t, old, cexp, cur, rnd, done, completions, arrivals, departed>>
LateCompletion(p) == /\ pc[p] = "late_completion"
                     /\ completions' = [completions EXCEPT ![old[p] \div 2] = @ + 1]
                     /\ pc' = [pc EXCEPT ![p] = "wait"]
                     /\ UNCHANGED <<t, phase, old, cexp, cur, rnd, done, arrivals, departed>>
Depart(p) == /\ pc[p] = "wait" /\ phase # old[p]
             /\ pc' = [pc EXCEPT ![p] = "idle"] /\ done' = [done EXCEPT ![p] = @ + 1]
             /\ departed' = [departed EXCEPT ![old[p] \div 2] = @ + 1]
             /\ UNCHANGED <<t, phase, old, cexp, cur, rnd, completions, arrivals>>
Next == \E p \in Proc : Begin(p) \/ RoundTop(p) \/ Try(p) \/ Exchange(p) \/ Complete(p) \/ Publish(p)
                        \/ LateCompletion(p) \/ Depart(p)
Spec == Init /\ [][Next]_vars /\ WF_vars(Next)

\* nobody leaves phase k before all P participants have arrived at phase k and its completion ran
NoEarlyDeparture == \A k \in 0..(Phases - 1) : departed[k] > 0 => (arrivals[k] = P /\ completions[k] = 1)
CompletionOnce == \A k \in 0..Phases : completions[k] <= 1
AllPhasesDone == <>(\A p \in Proc : done[p] = Phases)
=============================================================================
