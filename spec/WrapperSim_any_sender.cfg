SPECIFICATION Spec
CONSTANTS
  Slot = {1, 2, 3}
  Copyable = TRUE
  MaxLen = 10
  InvokeMode = "copy"
INVARIANT LiveMatches
INVARIANT DistinctIds
INVARIANT Emit
CHECK_DEADLOCK FALSE
