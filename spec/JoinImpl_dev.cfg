SPECIFICATION Spec
CONSTANTS
  UserCallbacks = 1
  Deviations = {"ExitCallbackPopDropsNewEntry"}
INVARIANT JoinOnlyAfterBody
INVARIANT EachCallbackOnce
INVARIANT AllCallbacksRun
PROPERTY JoinReturns
CHECK_DEADLOCK FALSE
