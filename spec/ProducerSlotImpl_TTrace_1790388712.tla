---- MODULE ProducerSlotImpl_TTrace_1790388712 ----
EXTENDS Sequences, TLCExt, Toolbox, Naturals, TLC, ProducerSlotImpl

_expression ==
    LET ProducerSlotImpl_TEExpression == INSTANCE ProducerSlotImpl_TEExpression
    IN ProducerSlotImpl_TEExpression!expression
----

_trace ==
    LET ProducerSlotImpl_TETrace == INSTANCE ProducerSlotImpl_TETrace
    IN ProducerSlotImpl_TETrace!trace
----

_inv ==
    ~(
        TLCGet("level") = Len(_TETrace)
        /\
        mine = (<<1, 1, 1>>)
        /\
        cur = (<<1, 1, 1>>)
        /\
        buf = (<<(0 :> 11 @@ 1 :> 12 @@ 2 :> 0 @@ 3 :> 0 @@ 4 :> 0 @@ 5 :> 0), (0 :> 0 @@ 1 :> 0 @@ 2 :> 0 @@ 3 :> 0 @@ 4 :> 0 @@ 5 :> 0), (0 :> 0 @@ 1 :> 0 @@ 2 :> 0 @@ 3 :> 0 @@ 4 :> 0 @@ 5 :> 0)>>)
        /\
        inactive = (<<FALSE, FALSE, FALSE>>)
        /\
        pc = (<<"gone", "push", "push">>)
        /\
        npushed = (<<2, 0, 0>>)
        /\
        tail = (<<2, 0, 0>>)
        /\
        list = (<<1>>)
        /\
        snap = (<<<<1>>, <<1>>, <<1>>>>)
    )
----

_init ==
    /\ inactive = _TETrace[1].inactive
    /\ npushed = _TETrace[1].npushed
    /\ buf = _TETrace[1].buf
    /\ tail = _TETrace[1].tail
    /\ pc = _TETrace[1].pc
    /\ cur = _TETrace[1].cur
    /\ list = _TETrace[1].list
    /\ snap = _TETrace[1].snap
    /\ mine = _TETrace[1].mine
----

_next ==
    /\ \E i,j \in DOMAIN _TETrace:
        /\ \/ /\ j = i + 1
              /\ i = TLCGet("level")
        /\ inactive  = _TETrace[i].inactive
        /\ inactive' = _TETrace[j].inactive
        /\ npushed  = _TETrace[i].npushed
        /\ npushed' = _TETrace[j].npushed
        /\ buf  = _TETrace[i].buf
        /\ buf' = _TETrace[j].buf
        /\ tail  = _TETrace[i].tail
        /\ tail' = _TETrace[j].tail
        /\ pc  = _TETrace[i].pc
        /\ pc' = _TETrace[j].pc
        /\ cur  = _TETrace[i].cur
        /\ cur' = _TETrace[j].cur
        /\ list  = _TETrace[i].list
        /\ list' = _TETrace[j].list
        /\ snap  = _TETrace[i].snap
        /\ snap' = _TETrace[j].snap
        /\ mine  = _TETrace[i].mine
        /\ mine' = _TETrace[j].mine

\* Uncomment the ASSUME below to write the states of the error trace
\* to the given file in Json format. Note that you can pass any tuple
\* to `JsonSerialize`. For example, a sub-sequence of _TETrace.
    \* ASSUME
    \*     LET J == INSTANCE Json
    \*         IN J!JsonSerialize("ProducerSlotImpl_TTrace_1790388712.json", _TETrace)

=============================================================================

 Note that you can extract this module `ProducerSlotImpl_TEExpression`
  to a dedicated file to reuse `expression` (the module in the 
  dedicated `ProducerSlotImpl_TEExpression.tla` file takes precedence 
  over the module `ProducerSlotImpl_TEExpression` below).

---- MODULE ProducerSlotImpl_TEExpression ----
EXTENDS Sequences, TLCExt, Toolbox, Naturals, TLC, ProducerSlotImpl

expression == 
    [
        \* To hide variables of the `ProducerSlotImpl` spec from the error trace,
        \* remove the variables below.  The trace will be written in the order
        \* of the fields of this record.
        inactive |-> inactive
        ,npushed |-> npushed
        ,buf |-> buf
        ,tail |-> tail
        ,pc |-> pc
        ,cur |-> cur
        ,list |-> list
        ,snap |-> snap
        ,mine |-> mine
        
        \* Put additional constant-, state-, and action-level expressions here:
        \* ,_stateNumber |-> _TEPosition
        \* ,_inactiveUnchanged |-> inactive = inactive'
        
        \* Format the `inactive` variable as Json value.
        \* ,_inactiveJson |->
        \*     LET J == INSTANCE Json
        \*     IN J!ToJson(inactive)
        
        \* Lastly, you may build expressions over arbitrary sets of states by
        \* leveraging the _TETrace operator.  For example, this is how to
        \* count the number of times a spec variable changed up to the current
        \* state in the trace.
        \* ,_inactiveModCount |->
        \*     LET F[s \in DOMAIN _TETrace] ==
        \*         IF s = 1 THEN 0
        \*         ELSE IF _TETrace[s].inactive # _TETrace[s-1].inactive
        \*             THEN 1 + F[s-1] ELSE F[s-1]
        \*     IN F[_TEPosition - 1]
    ]

=============================================================================



Parsing and semantic processing can take forever if the trace below is long.
 In this case, it is advised to uncomment the module below to deserialize the
 trace from a generated binary file.

\*
\*---- MODULE ProducerSlotImpl_TETrace ----
\*EXTENDS IOUtils, TLC, ProducerSlotImpl
\*
\*trace == IODeserialize("ProducerSlotImpl_TTrace_1790388712.bin", TRUE)
\*
\*=============================================================================
\*

---- MODULE ProducerSlotImpl_TETrace ----
EXTENDS TLC, ProducerSlotImpl

trace == 
    <<
    ([mine |-> <<0, 0, 0>>,cur |-> <<0, 0, 0>>,buf |-> <<(0 :> 0 @@ 1 :> 0 @@ 2 :> 0 @@ 3 :> 0 @@ 4 :> 0 @@ 5 :> 0), (0 :> 0 @@ 1 :> 0 @@ 2 :> 0 @@ 3 :> 0 @@ 4 :> 0 @@ 5 :> 0), (0 :> 0 @@ 1 :> 0 @@ 2 :> 0 @@ 3 :> 0 @@ 4 :> 0 @@ 5 :> 0)>>,inactive |-> <<FALSE, FALSE, FALSE>>,pc |-> <<"start", "start", "start">>,npushed |-> <<0, 0, 0>>,tail |-> <<0, 0, 0>>,list |-> <<>>,snap |-> <<<<>>, <<>>, <<>>>>]),
    ([mine |-> <<0, 0, 0>>,cur |-> <<1, 0, 0>>,buf |-> <<(0 :> 0 @@ 1 :> 0 @@ 2 :> 0 @@ 3 :> 0 @@ 4 :> 0 @@ 5 :> 0), (0 :> 0 @@ 1 :> 0 @@ 2 :> 0 @@ 3 :> 0 @@ 4 :> 0 @@ 5 :> 0), (0 :> 0 @@ 1 :> 0 @@ 2 :> 0 @@ 3 :> 0 @@ 4 :> 0 @@ 5 :> 0)>>,inactive |-> <<FALSE, FALSE, FALSE>>,pc |-> <<"walk", "start", "start">>,npushed |-> <<0, 0, 0>>,tail |-> <<0, 0, 0>>,list |-> <<>>,snap |-> <<<<>>, <<>>, <<>>>>]),
    ([mine |-> <<0, 0, 0>>,cur |-> <<1, 0, 0>>,buf |-> <<(0 :> 0 @@ 1 :> 0 @@ 2 :> 0 @@ 3 :> 0 @@ 4 :> 0 @@ 5 :> 0), (0 :> 0 @@ 1 :> 0 @@ 2 :> 0 @@ 3 :> 0 @@ 4 :> 0 @@ 5 :> 0), (0 :> 0 @@ 1 :> 0 @@ 2 :> 0 @@ 3 :> 0 @@ 4 :> 0 @@ 5 :> 0)>>,inactive |-> <<FALSE, FALSE, FALSE>>,pc |-> <<"create", "start", "start">>,npushed |-> <<0, 0, 0>>,tail |-> <<0, 0, 0>>,list |-> <<>>,snap |-> <<<<>>, <<>>, <<>>>>]),
    ([mine |-> <<1, 0, 0>>,cur |-> <<1, 0, 0>>,buf |-> <<(0 :> 0 @@ 1 :> 0 @@ 2 :> 0 @@ 3 :> 0 @@ 4 :> 0 @@ 5 :> 0), (0 :> 0 @@ 1 :> 0 @@ 2 :> 0 @@ 3 :> 0 @@ 4 :> 0 @@ 5 :> 0), (0 :> 0 @@ 1 :> 0 @@ 2 :> 0 @@ 3 :> 0 @@ 4 :> 0 @@ 5 :> 0)>>,inactive |-> <<FALSE, FALSE, FALSE>>,pc |-> <<"push", "start", "start">>,npushed |-> <<0, 0, 0>>,tail |-> <<0, 0, 0>>,list |-> <<1>>,snap |-> <<<<>>, <<>>, <<>>>>]),
    ([mine |-> <<1, 0, 0>>,cur |-> <<1, 0, 0>>,buf |-> <<(0 :> 0 @@ 1 :> 0 @@ 2 :> 0 @@ 3 :> 0 @@ 4 :> 0 @@ 5 :> 0), (0 :> 0 @@ 1 :> 0 @@ 2 :> 0 @@ 3 :> 0 @@ 4 :> 0 @@ 5 :> 0), (0 :> 0 @@ 1 :> 0 @@ 2 :> 0 @@ 3 :> 0 @@ 4 :> 0 @@ 5 :> 0)>>,inactive |-> <<FALSE, FALSE, FALSE>>,pc |-> <<"write", "start", "start">>,npushed |-> <<0, 0, 0>>,tail |-> <<0, 0, 0>>,list |-> <<1>>,snap |-> <<<<0>>, <<>>, <<>>>>]),
    ([mine |-> <<1, 0, 0>>,cur |-> <<1, 0, 0>>,buf |-> <<(0 :> 11 @@ 1 :> 0 @@ 2 :> 0 @@ 3 :> 0 @@ 4 :> 0 @@ 5 :> 0), (0 :> 0 @@ 1 :> 0 @@ 2 :> 0 @@ 3 :> 0 @@ 4 :> 0 @@ 5 :> 0), (0 :> 0 @@ 1 :> 0 @@ 2 :> 0 @@ 3 :> 0 @@ 4 :> 0 @@ 5 :> 0)>>,inactive |-> <<FALSE, FALSE, FALSE>>,pc |-> <<"publish", "start", "start">>,npushed |-> <<0, 0, 0>>,tail |-> <<0, 0, 0>>,list |-> <<1>>,snap |-> <<<<0>>, <<>>, <<>>>>]),
    ([mine |-> <<1, 0, 0>>,cur |-> <<1, 0, 0>>,buf |-> <<(0 :> 11 @@ 1 :> 0 @@ 2 :> 0 @@ 3 :> 0 @@ 4 :> 0 @@ 5 :> 0), (0 :> 0 @@ 1 :> 0 @@ 2 :> 0 @@ 3 :> 0 @@ 4 :> 0 @@ 5 :> 0), (0 :> 0 @@ 1 :> 0 @@ 2 :> 0 @@ 3 :> 0 @@ 4 :> 0 @@ 5 :> 0)>>,inactive |-> <<FALSE, FALSE, FALSE>>,pc |-> <<"push", "start", "start">>,npushed |-> <<1, 0, 0>>,tail |-> <<1, 0, 0>>,list |-> <<1>>,snap |-> <<<<0>>, <<>>, <<>>>>]),
    ([mine |-> <<1, 0, 0>>,cur |-> <<1, 0, 0>>,buf |-> <<(0 :> 11 @@ 1 :> 0 @@ 2 :> 0 @@ 3 :> 0 @@ 4 :> 0 @@ 5 :> 0), (0 :> 0 @@ 1 :> 0 @@ 2 :> 0 @@ 3 :> 0 @@ 4 :> 0 @@ 5 :> 0), (0 :> 0 @@ 1 :> 0 @@ 2 :> 0 @@ 3 :> 0 @@ 4 :> 0 @@ 5 :> 0)>>,inactive |-> <<FALSE, FALSE, FALSE>>,pc |-> <<"write", "start", "start">>,npushed |-> <<1, 0, 0>>,tail |-> <<1, 0, 0>>,list |-> <<1>>,snap |-> <<<<1>>, <<>>, <<>>>>]),
    ([mine |-> <<1, 0, 0>>,cur |-> <<1, 0, 0>>,buf |-> <<(0 :> 11 @@ 1 :> 12 @@ 2 :> 0 @@ 3 :> 0 @@ 4 :> 0 @@ 5 :> 0), (0 :> 0 @@ 1 :> 0 @@ 2 :> 0 @@ 3 :> 0 @@ 4 :> 0 @@ 5 :> 0), (0 :> 0 @@ 1 :> 0 @@ 2 :> 0 @@ 3 :> 0 @@ 4 :> 0 @@ 5 :> 0)>>,inactive |-> <<FALSE, FALSE, FALSE>>,pc |-> <<"publish", "start", "start">>,npushed |-> <<1, 0, 0>>,tail |-> <<1, 0, 0>>,list |-> <<1>>,snap |-> <<<<1>>, <<>>, <<>>>>]),
    ([mine |-> <<1, 0, 0>>,cur |-> <<1, 0, 0>>,buf |-> <<(0 :> 11 @@ 1 :> 12 @@ 2 :> 0 @@ 3 :> 0 @@ 4 :> 0 @@ 5 :> 0), (0 :> 0 @@ 1 :> 0 @@ 2 :> 0 @@ 3 :> 0 @@ 4 :> 0 @@ 5 :> 0), (0 :> 0 @@ 1 :> 0 @@ 2 :> 0 @@ 3 :> 0 @@ 4 :> 0 @@ 5 :> 0)>>,inactive |-> <<FALSE, FALSE, FALSE>>,pc |-> <<"push", "start", "start">>,npushed |-> <<2, 0, 0>>,tail |-> <<2, 0, 0>>,list |-> <<1>>,snap |-> <<<<1>>, <<>>, <<>>>>]),
    ([mine |-> <<1, 0, 0>>,cur |-> <<1, 0, 0>>,buf |-> <<(0 :> 11 @@ 1 :> 12 @@ 2 :> 0 @@ 3 :> 0 @@ 4 :> 0 @@ 5 :> 0), (0 :> 0 @@ 1 :> 0 @@ 2 :> 0 @@ 3 :> 0 @@ 4 :> 0 @@ 5 :> 0), (0 :> 0 @@ 1 :> 0 @@ 2 :> 0 @@ 3 :> 0 @@ 4 :> 0 @@ 5 :> 0)>>,inactive |-> <<TRUE, FALSE, FALSE>>,pc |-> <<"gone", "start", "start">>,npushed |-> <<2, 0, 0>>,tail |-> <<2, 0, 0>>,list |-> <<1>>,snap |-> <<<<1>>, <<>>, <<>>>>]),
    ([mine |-> <<1, 0, 0>>,cur |-> <<1, 1, 0>>,buf |-> <<(0 :> 11 @@ 1 :> 12 @@ 2 :> 0 @@ 3 :> 0 @@ 4 :> 0 @@ 5 :> 0), (0 :> 0 @@ 1 :> 0 @@ 2 :> 0 @@ 3 :> 0 @@ 4 :> 0 @@ 5 :> 0), (0 :> 0 @@ 1 :> 0 @@ 2 :> 0 @@ 3 :> 0 @@ 4 :> 0 @@ 5 :> 0)>>,inactive |-> <<TRUE, FALSE, FALSE>>,pc |-> <<"gone", "walk", "start">>,npushed |-> <<2, 0, 0>>,tail |-> <<2, 0, 0>>,list |-> <<1>>,snap |-> <<<<1>>, <<1>>, <<>>>>]),
    ([mine |-> <<1, 0, 0>>,cur |-> <<1, 1, 0>>,buf |-> <<(0 :> 11 @@ 1 :> 12 @@ 2 :> 0 @@ 3 :> 0 @@ 4 :> 0 @@ 5 :> 0), (0 :> 0 @@ 1 :> 0 @@ 2 :> 0 @@ 3 :> 0 @@ 4 :> 0 @@ 5 :> 0), (0 :> 0 @@ 1 :> 0 @@ 2 :> 0 @@ 3 :> 0 @@ 4 :> 0 @@ 5 :> 0)>>,inactive |-> <<TRUE, FALSE, FALSE>>,pc |-> <<"gone", "claim", "start">>,npushed |-> <<2, 0, 0>>,tail |-> <<2, 0, 0>>,list |-> <<1>>,snap |-> <<<<1>>, <<1>>, <<>>>>]),
    ([mine |-> <<1, 0, 0>>,cur |-> <<1, 1, 1>>,buf |-> <<(0 :> 11 @@ 1 :> 12 @@ 2 :> 0 @@ 3 :> 0 @@ 4 :> 0 @@ 5 :> 0), (0 :> 0 @@ 1 :> 0 @@ 2 :> 0 @@ 3 :> 0 @@ 4 :> 0 @@ 5 :> 0), (0 :> 0 @@ 1 :> 0 @@ 2 :> 0 @@ 3 :> 0 @@ 4 :> 0 @@ 5 :> 0)>>,inactive |-> <<TRUE, FALSE, FALSE>>,pc |-> <<"gone", "claim", "walk">>,npushed |-> <<2, 0, 0>>,tail |-> <<2, 0, 0>>,list |-> <<1>>,snap |-> <<<<1>>, <<1>>, <<1>>>>]),
    ([mine |-> <<1, 0, 0>>,cur |-> <<1, 1, 1>>,buf |-> <<(0 :> 11 @@ 1 :> 12 @@ 2 :> 0 @@ 3 :> 0 @@ 4 :> 0 @@ 5 :> 0), (0 :> 0 @@ 1 :> 0 @@ 2 :> 0 @@ 3 :> 0 @@ 4 :> 0 @@ 5 :> 0), (0 :> 0 @@ 1 :> 0 @@ 2 :> 0 @@ 3 :> 0 @@ 4 :> 0 @@ 5 :> 0)>>,inactive |-> <<TRUE, FALSE, FALSE>>,pc |-> <<"gone", "claim", "claim">>,npushed |-> <<2, 0, 0>>,tail |-> <<2, 0, 0>>,list |-> <<1>>,snap |-> <<<<1>>, <<1>>, <<1>>>>]),
    ([mine |-> <<1, 0, 1>>,cur |-> <<1, 1, 1>>,buf |-> <<(0 :> 11 @@ 1 :> 12 @@ 2 :> 0 @@ 3 :> 0 @@ 4 :> 0 @@ 5 :> 0), (0 :> 0 @@ 1 :> 0 @@ 2 :> 0 @@ 3 :> 0 @@ 4 :> 0 @@ 5 :> 0), (0 :> 0 @@ 1 :> 0 @@ 2 :> 0 @@ 3 :> 0 @@ 4 :> 0 @@ 5 :> 0)>>,inactive |-> <<FALSE, FALSE, FALSE>>,pc |-> <<"gone", "claim", "push">>,npushed |-> <<2, 0, 0>>,tail |-> <<2, 0, 0>>,list |-> <<1>>,snap |-> <<<<1>>, <<1>>, <<1>>>>]),
    ([mine |-> <<1, 1, 1>>,cur |-> <<1, 1, 1>>,buf |-> <<(0 :> 11 @@ 1 :> 12 @@ 2 :> 0 @@ 3 :> 0 @@ 4 :> 0 @@ 5 :> 0), (0 :> 0 @@ 1 :> 0 @@ 2 :> 0 @@ 3 :> 0 @@ 4 :> 0 @@ 5 :> 0), (0 :> 0 @@ 1 :> 0 @@ 2 :> 0 @@ 3 :> 0 @@ 4 :> 0 @@ 5 :> 0)>>,inactive |-> <<FALSE, FALSE, FALSE>>,pc |-> <<"gone", "push", "push">>,npushed |-> <<2, 0, 0>>,tail |-> <<2, 0, 0>>,list |-> <<1>>,snap |-> <<<<1>>, <<1>>, <<1>>>>])
    >>
----


=============================================================================

---- CONFIG ProducerSlotImpl_TTrace_1790388712 ----
CONSTANTS
    Thread = { 1 , 2 , 3 }
    MaxSlots = 3
    PerThread = 2
    Variant = "claim_by_store"

INVARIANT
    _inv

CHECK_DEADLOCK
    \* CHECK_DEADLOCK off because of PROPERTY or INVARIANT above.
    FALSE

INIT
    _init

NEXT
    _next

CONSTANT
    _TETrace <- _trace

ALIAS
    _expression
=============================================================================
\* Generated on Sat Sep 26 02:11:53 UTC 2026