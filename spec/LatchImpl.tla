------------------------------ MODULE LatchImpl ------------------------------
(* Fine-grained model of pika::latch (C09): the counter is atomic and lives outside the spinlock,
   `notified_` and the condition variable's queue are protected by it.
     count_down(n):     c := counter -= n (atomic); if c = 0 { lock; notified := TRUE; pop+resume all }
     wait():            lock; if counter > 0 \/ ~notified { enqueue; unlock; suspend } else unlock
     arrive_and_wait(): lock; old := counter; counter -= 1;
                        if old > 1 { enqueue; unlock; suspend } else { notified := TRUE; pop+resume all }
   Each participant performs one operation.  Variant "dec_outside_lock" performs arrive_and_wait's
   decrement before taking the lock (must lose a wake-up).                                       *)
EXTENDS Naturals, Integers, FiniteSets
CONSTANTS Proc, Kind, Count, Variant     \* Kind[p] \in {"cd","wait","aaw"}
VARIABLES counter, notified, lock, queue, pc, old, woken
vars == <<counter, notified, lock, queue, pc, old, woken>>
Init == /\ counter = Count /\ notified = (Count = 0) /\ lock = 0 /\ queue = {}
        /\ pc = [p \in Proc |-> "start"] /\ old = [p \in Proc |-> 0] /\ woken = {}

Acquire(p) == lock = 0 /\ lock' = p
\* count_down
CdDec(p) == /\ Kind[p] = "cd" /\ pc[p] = "start" /\ counter' = counter - 1
            /\ pc' = [pc EXCEPT ![p] = IF counter - 1 = 0 THEN "cd_lock" ELSE "done"]
            /\ UNCHANGED <<notified, lock, queue, old, woken>>
CdLock(p) == /\ pc[p] = "cd_lock" /\ Acquire(p) /\ notified' = TRUE
             /\ pc' = [pc EXCEPT ![p] = "notify"] /\ UNCHANGED <<counter, queue, old, woken>>
\* notify loop: pop one and resume it (holding the lock), until the queue is empty
Notify(p) == /\ pc[p] = "notify" /\ lock = p
             /\ IF queue = {} THEN lock' = 0 /\ pc' = [pc EXCEPT ![p] = "done"] /\ UNCHANGED <<queue, woken>>
                ELSE \E w \in queue : queue' = queue \ {w} /\ woken' = woken \cup {w}
                                      /\ UNCHANGED <<lock, pc>>
             /\ UNCHANGED <<counter, notified, old>>
\* wait
WLock(p) == /\ Kind[p] = "wait" /\ pc[p] = "start" /\ Acquire(p)
            /\ pc' = [pc EXCEPT ![p] = "w_check"] /\ UNCHANGED <<counter, notified, queue, old, woken>>
WCheck(p) == /\ pc[p] = "w_check" /\ lock = p
             /\ IF counter > 0 \/ ~notified
                   THEN queue' = queue \cup {p} /\ pc' = [pc EXCEPT ![p] = "suspended"]
                   ELSE UNCHANGED queue /\ pc' = [pc EXCEPT ![p] = "done"]
             /\ lock' = 0 /\ UNCHANGED <<counter, notified, old, woken>>
Resume(p) == /\ pc[p] = "suspended" /\ p \in woken
             /\ pc' = [pc EXCEPT ![p] = "done"] /\ UNCHANGED <<counter, notified, lock, queue, old, woken>>
\* arrive_and_wait
ALock(p) == /\ Kind[p] = "aaw" /\ pc[p] = (IF Variant = "dec_outside_lock" THEN "a_dec_done" ELSE "start")
            /\ Acquire(p) /\ pc' = [pc EXCEPT ![p] = IF Variant = "dec_outside_lock" THEN "a_branch" ELSE "a_dec"]
            /\ UNCHANGED <<counter, notified, queue, old, woken>>
ADecOutside(p) == /\ Variant = "dec_outside_lock" /\ Kind[p] = "aaw" /\ pc[p] = "start"
                  /\ old' = [old EXCEPT ![p] = counter] /\ counter' = counter - 1
                  /\ pc' = [pc EXCEPT ![p] = "a_dec_done"] /\ UNCHANGED <<notified, lock, queue, woken>>
ADec(p) == /\ pc[p] = "a_dec" /\ lock = p
           /\ old' = [old EXCEPT ![p] = counter] /\ counter' = counter - 1
           /\ pc' = [pc EXCEPT ![p] = "a_branch"] /\ UNCHANGED <<notified, lock, queue, woken>>
ABranch(p) == /\ pc[p] = "a_branch" /\ lock = p
              /\ IF old[p] > 1
                    THEN queue' = queue \cup {p} /\ lock' = 0 /\ pc' = [pc EXCEPT ![p] = "suspended"]
                         /\ UNCHANGED notified
                    ELSE notified' = TRUE /\ pc' = [pc EXCEPT ![p] = "notify"] /\ UNCHANGED <<queue, lock>>
              /\ UNCHANGED <<counter, old, woken>>
Next == \E p \in Proc : CdDec(p) \/ CdLock(p) \/ Notify(p) \/ WLock(p) \/ WCheck(p) \/ Resume(p)
                        \/ ALock(p) \/ ADecOutside(p) \/ ADec(p) \/ ABranch(p)
Spec == Init /\ [][Next]_vars /\ WF_vars(Next)
\* nobody returns from a wait before the count reached zero
NoEarlyReturn == \A p \in Proc : (pc[p] = "done" /\ Kind[p] \in {"wait", "aaw"}) => counter = 0
\* once the count is zero every waiter returns
AllReturn == <>(\A p \in Proc : pc[p] = "done")
=============================================================================
