---------------------------- MODULE PuTrace ----------------------------
EXTENDS PuAbs, Json, IOUtils, TLC, Sequences
TraceLog == ndJsonDeserialize(IOEnv.TRACE)
VARIABLE l
tvars == <<vars, l>>
Rec == TraceLog[l]
Has == l <= Len(TraceLog)
Is(e) == Has /\ Rec.e = e
Adv == l' = l + 1
TInit == l = 1 /\ TLCSet(1, 0) /\ Init(TRUE)
TNext ==
    \/ Is("init") /\ ws' = [w \in Worker |-> "running"] /\ elastic' = (Rec.elastic = 1)
         /\ ts' = [t \in Task |-> "none"] /\ runs' = [t \in Task |-> 0] /\ op' = [a \in Actor |-> Idle] /\ Adv
    \/ Is("call") /\ Call(Rec.a, Rec.op, Rec.w) /\ Adv
    \/ Is("ret") /\ Ret(Rec.a, Rec.res) /\ Adv
    \/ Is("submit") /\ Submit(Rec.t) /\ Adv
    \/ Is("run") /\ Run(Rec.t, Rec.w) /\ Adv
    \/ (\E a \in Actor : Lin(a) \/ ResumeEarly(a)) /\ UNCHANGED l
    \* a stealing pool of which only a part was resumed: the submitter waits ("await") for work that was
    \* parked on sleeping workers; "awaited" = everything submitted so far has run on the resumed part
    \* (a wait that never ends is a "quiescent" record, which no action accepts)
    \/ Is("await") /\ (\E w \in Worker : ws[w] = "running") /\ UNCHANGED vars /\ Adv
    \/ Is("awaited") /\ NoneOutstanding /\ UNCHANGED vars /\ Adv
    \* end of history: everything was resumed and every submitted task ran exactly once
    \/ Is("reset") /\ (\A a \in Actor : op[a].st = "idle") /\ AllRanOnce /\ UNCHANGED vars /\ Adv
    \* ("quiescent" has no action: a call that never returns or a task that never runs although all
    \*  workers were resumed rejects the history)
TSpec == TInit /\ [][TNext]_tvars
NotAccepted == l <= Len(TraceLog)
TrackMax == IF l > TLCGet(1) THEN TLCSet(1, l) ELSE TRUE
PrintMax == PrintT(<<"MAXL", TLCGet(1)>>)
=============================================================================
