SPECIFICATION MCSpec
CONSTANTS
  Pool = {"default", "s", "std"}
  StaticPools = {"s"}
  StdPool = "std"
INVARIANT AcceptedMeans
INVARIANT StdThreadsFresh
CHECK_DEADLOCK FALSE
