SPECIFICATION Spec
CONSTANTS
  NReq = 4
  Chunk = 2
  Variant = "ok"
INVARIANT OnceAndOnlyWhenComplete
PROPERTY AllSignalled
CHECK_DEADLOCK FALSE
