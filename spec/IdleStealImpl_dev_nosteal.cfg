SPECIFICATION Spec
CONSTANTS
  Worker = {1,2,3}
  Asleep = {3}
  MaxIdle = 4
  PerSleeper = 2
  Stealing = FALSE
  Variant = "steal_when_disabled"
INVARIANTS TypeOK Conserved
PROPERTIES StaysPut NoMigration
