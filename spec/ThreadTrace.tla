---------------------------- MODULE ThreadTrace ----------------------------
EXTENDS ThreadAbs, Json, IOUtils, TLC, Sequences
TraceLog == ndJsonDeserialize(IOEnv.TRACE)
VARIABLE l
tvars == <<vars, l>>
Rec == TraceLog[l]
Has == l <= Len(TraceLog)
Is(e) == Has /\ Rec.e = e
Adv == l' = l + 1
TInit == l = 1 /\ TLCSet(1, 0) /\ Init
TNext ==
    \/ Is("init") /\ hs' = [h \in H |-> "none"] /\ body' = [h \in H |-> "notstarted"]
         /\ intReq' = [h \in H |-> FALSE] /\ intEn' = [h \in H |-> TRUE] /\ stopReq' = [h \in H |-> FALSE]
         /\ cbReg' = [h \in H |-> 0] /\ cbRan' = [h \in H |-> 0] /\ op' = [a \in Actor |-> Idle]
         /\ rel' = [h \in H |-> FALSE] /\ Adv
    \/ Is("call") /\ Call(Rec.a, Rec.op, Rec.h) /\ Adv
    \/ Is("ret") /\ Ret(Rec.a, Rec.res) /\ Adv
    \/ Is("body_begin") /\ BodyBegin(Rec.h) /\ Adv
    \/ Is("body_end") /\ BodyEnd(Rec.h) /\ Adv
    \/ Is("exitcb") /\ ExitCb(Rec.h) /\ Adv
    \/ (\E a \in Actor : Lin(a)) /\ UNCHANGED l
    \/ Is("quiescent") /\ (\A a \in Actor : op[a].st # "done") /\ QuiescentOk /\ UNCHANGED vars /\ Adv
    \/ Is("reset") /\ (\A a \in Actor : op[a].st = "idle") /\ UNCHANGED vars /\ Adv
TSpec == TInit /\ [][TNext]_tvars
NotAccepted == l <= Len(TraceLog)
TrackMax == IF l > TLCGet(1) THEN TLCSet(1, l) ELSE TRUE
PrintMax == PrintT(<<"MAXL", TLCGet(1)>>)
=============================================================================
