---------------------------- MODULE PlaceMC ----------------------------
(* Closed model of PlaceAbs: the environment proposes arbitrary placement records over a small
   domain; the invariants restate what an accepted record implies.                            *)
EXTENDS PlaceAbs, TLC
VARIABLE lastRec
Tids == 1..3
MCInit == Init /\ lastRec = [kind |-> "none"]
MCNext ==
    \/ \E exp \in Pool \ {StdPool}, pool \in Pool, w \in 0..1, tid \in Tids, pk \in BOOLEAN, inl \in BOOLEAN,
          hint \in {-1, 0, 1}, prio \in {0, 1} :
          /\ RunPhase(exp, pool, w, tid, pk, inl, hint, prio)
          /\ lastRec' = [kind |-> "run", exp |-> exp, pool |-> pool, w |-> w, pk |-> pk, inl |-> inl,
                         hint |-> hint, prio |-> prio]
    \/ \E tid \in Tids, pk \in BOOLEAN, inl \in BOOLEAN, stid \in Tids :
          RunStd(tid, pk, inl, stid) /\ lastRec' = [kind |-> "std", pk |-> pk, inl |-> inl]
MCSpec == MCInit /\ [][MCNext]_<<vars, lastRec>>
AcceptedMeans ==
    /\ lastRec.kind = "run" => (lastRec.pk /\ ~lastRec.inl /\ lastRec.pool = lastRec.exp /\
          ((lastRec.exp \in StaticPools /\ lastRec.hint >= 0 /\ lastRec.prio = 0) => lastRec.w = lastRec.hint))
    /\ lastRec.kind = "std" => (~lastRec.pk /\ ~lastRec.inl)
StdThreadsFresh == seenStd \cap workerTids = {}
=============================================================================
