---------------------------- MODULE DequeImplMC ----------------------------
EXTENDS DequeImpl, TLC
\* two pushers on opposite ends and a popper (the window of the seeded change: pop on one end while a push
\* on the other end is unstabilised)
P3 == ("a" :> <<<<"push", "L">>, <<"pop", "R">>>>) @@ ("b" :> <<<<"push", "R">>, <<"pop", "L">>>>) @@
      ("c" :> <<<<"push", "L">>, <<"pop", "L">>>>)
P2 == ("a" :> <<<<"push", "L">>, <<"push", "L">>, <<"pop", "R">>>>) @@
      ("b" :> <<<<"push", "R">>, <<"pop", "L">>, <<"pop", "L">>>>)
\* owner pushes on the left while a thief pops on the right (the abp queue pattern)
P4 == ("a" :> <<<<"push", "L">>, <<"push", "L">>, <<"push", "L">>>>) @@ ("b" :> <<<<"pop", "R">>, <<"pop", "R">>>>)
\* pushes on both ends at the same time, then a drain from the left
P5 == ("a" :> <<<<"push", "L">>, <<"push", "L">>, <<"pop", "L">>, <<"pop", "L">>>>) @@ ("b" :> <<<<"push", "R">>, <<"push", "R">>>>)
P2b == ("a" :> <<<<"push", "R">>, <<"push", "R">>, <<"pop", "R">>>>) @@
       ("b" :> <<<<"pop", "L">>, <<"push", "L">>, <<"pop", "R">>>>)
=============================================================================
