------------------------------ MODULE MpiPollImpl ------------------------------
(* Fine-grained model of the request vectors of pika's MPI polling (mpi_polling.cpp) (C20).
   requests_ / callbacks_ are parallel vectors.  poll: for each chunk [base, base+Chunk) of the
   request vector MPI_Testsome returns chunk-relative indices of completed requests; for each such
   index the callback at base + index is invoked and the request slot is nulled; afterwards the
   vectors are compacted.  Requests complete (in MPI) at arbitrary times after they were added.
   Variant "drop_base" looks the callback up at `index` instead of `base + index`.              *)
EXTENDS Naturals, Sequences, FiniteSets
CONSTANTS NReq, Chunk, Variant
VARIABLES vec,        \* sequence of request ids currently in the polling vector (0 = nulled slot)
          cbs,        \* parallel sequence: id whose callback is stored at that position (0 = moved-from)
          added, mpiDone, invoked, pc, base
vars == <<vec, cbs, added, mpiDone, invoked, pc, base>>
Ids == 1..NReq
Init == vec = <<>> /\ cbs = <<>> /\ added = {} /\ mpiDone = {} /\ invoked = [k \in Ids |-> 0]
        /\ pc = "idle" /\ base = 0
Add(k) == pc = "idle" /\ k \notin added /\ added' = added \cup {k}
          /\ vec' = Append(vec, k) /\ cbs' = Append(cbs, k)
          /\ UNCHANGED <<mpiDone, invoked, pc, base>>
MpiComplete(k) == k \in added /\ k \notin mpiDone /\ mpiDone' = mpiDone \cup {k}
                  /\ UNCHANGED <<vec, cbs, added, invoked, pc, base>>
StartPoll == pc = "idle" /\ Len(vec) > 0 /\ pc' = "chunk" /\ base' = 0
             /\ UNCHANGED <<vec, cbs, added, mpiDone, invoked>>
\* one chunk: every completed request in it is handled
Min(a, b) == IF a < b THEN a ELSE b
ChunkIdx == {i \in 1..Len(vec) : base < i /\ i <= Min(base + Chunk, Len(vec))}
DoChunk ==
    /\ pc = "chunk"
    /\ LET ready == {i \in ChunkIdx : vec[i] # 0 /\ vec[i] \in mpiDone}
           cbpos(i) == IF Variant = "drop_base" THEN i - base ELSE i       \* position whose callback is run
           ran == {cbs[cbpos(i)] : i \in ready} \ {0}
       IN /\ invoked' = [k \in Ids |-> IF k \in ran THEN invoked[k] + 1 ELSE invoked[k]]
          /\ vec' = [i \in 1..Len(vec) |-> IF i \in ready THEN 0 ELSE vec[i]]
          /\ cbs' = [i \in 1..Len(cbs) |-> IF \E j \in ready : cbpos(j) = i THEN 0 ELSE cbs[i]]
    /\ IF base + Chunk >= Len(vec) THEN pc' = "compact" /\ UNCHANGED base
                                   ELSE base' = base + Chunk /\ UNCHANGED pc
    /\ UNCHANGED <<added, mpiDone>>
Compact == /\ pc = "compact"
           /\ LET keep == {i \in 1..Len(vec) : vec[i] # 0} IN
              /\ vec' = SelectSeq(vec, LAMBDA x : x # 0)
              /\ cbs' = [n \in 1..Cardinality(keep) |->
                           cbs[CHOOSE i \in keep : Cardinality({j \in keep : j <= i}) = n]]
           /\ pc' = "idle" /\ base' = 0 /\ UNCHANGED <<added, mpiDone, invoked>>
Next == (\E k \in Ids : Add(k) \/ MpiComplete(k)) \/ StartPoll \/ DoChunk \/ Compact
Spec == Init /\ [][Next]_vars /\ WF_vars(StartPoll \/ DoChunk \/ Compact) /\ \A k \in Ids : WF_vars(MpiComplete(k))
\* a callback runs at most once and only for a request MPI reported complete
OnceAndOnlyWhenComplete == \A k \in Ids : invoked[k] <= 1 /\ (invoked[k] = 1 => k \in mpiDone)
\* every added request is eventually signalled
AllSignalled == \A k \in Ids : [](k \in added => <>(invoked[k] = 1))
=============================================================================
