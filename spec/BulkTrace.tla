---------------------------- MODULE BulkTrace ----------------------------
(* Records: {"e":"begin","n":..,"thr":[..]} {"e":"f","i":..,"vok":1} {"e":"fret","i":..}
   {"e":"done","ch":"value"|"error","vok":1,"erri":..} {"e":"end"}  for small shapes, and for large
   shapes one summary record measured by the harness:
   {"e":"summary","n0":..,"n1":..,"cnt_ok":1,"once_ok":1,"oob":0,"nsig":1,"ch":..,"vok":1,"after_last":1,
    "nthr":..,"err_in_thr":1}  (n0/n1 = 20-bit limbs of n)                                   *)
EXTENDS BulkAbs, Json, IOUtils, TLC, Sequences
TraceLog == ndJsonDeserialize(IOEnv.TRACE)
VARIABLE l
tvars == <<vars, l>>
Rec == TraceLog[l]
Has == l <= Len(TraceLog)
Is(e) == Has /\ Rec.e = e
Adv == l' = l + 1
SetOf(s) == {s[k] : k \in 1..Len(s)}
TInit == l = 1 /\ TLCSet(1, 0) /\ Init
SummaryOk(r) ==
    /\ r.nsig = 1 /\ r.oob = 0 /\ r.after_last = 1
    /\ IF r.nthr = 0 THEN r.ch = "value" /\ r.vok = 1 /\ r.cnt_ok = 1 /\ r.once_ok = 1
                     ELSE r.ch = "error" /\ r.err_in_thr = 1 /\ r.once_ok = 1
TNext ==
    \/ Is("begin") /\ Begin(Rec.n, SetOf(Rec.thr)) /\ Adv
    \/ Is("f") /\ CallF(Rec.i, Rec.vok = 1) /\ Adv
    \/ Is("fret") /\ RetF(Rec.i) /\ Adv
    \/ Is("done") /\ Complete(Rec.ch, Rec.vok = 1, Rec.erri) /\ Adv
    \/ Is("end") /\ End /\ Adv
    \/ Is("summary") /\ ~active /\ SummaryOk(Rec) /\ UNCHANGED vars /\ Adv
    \* a burst of tiny bulk operations measured by the harness: every operation signalled exactly once, after all of
    \* its calls had returned, every index called exactly once
    \/ Is("burst") /\ ~active /\ Rec.sig_bad = 0 /\ Rec.idx_bad = 0 /\ Rec.early = 0 /\ Rec.hung = 0
         /\ UNCHANGED vars /\ Adv
    \/ Is("reset") /\ ~active /\ UNCHANGED vars /\ Adv
TSpec == TInit /\ [][TNext]_tvars
NotAccepted == l <= Len(TraceLog)
TrackMax == IF l > TLCGet(1) THEN TLCSet(1, l) ELSE TRUE
PrintMax == PrintT(<<"MAXL", TLCGet(1)>>)
=============================================================================
