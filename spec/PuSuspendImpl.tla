------------------------------ MODULE PuSuspendImpl ------------------------------
(* Fine-grained model of suspending / resuming one processing unit (C19).
     suspender:  try-lock pu mutex (retry); CAS(state, running -> pre_sleep); unlock;
                 spin until state # pre_sleep
     worker:     loop { running := state < pre_sleep; take work from own queue if any;
                        if queue empty /\ state = pre_sleep: suspend(): state := sleeping;
                            lock suspend mutex; wait on condition variable (atomically unlocks);
                            on wake-up: CAS(state, sleeping -> running) }
     resumer:    loop { notify_one; } until state # sleeping       (a notify that arrives before the
                 worker waits is lost, the loop repeats it)
     submitter:  select_active_pu: try-lock pu mutex; if state <= suspended(running): push to this
                 PU's queue, unlock; else try the other PU (always running here)
   Variant "resume_notifies_once" notifies a single time.
   Variant "suspend_returns_in_pre_sleep": the suspend call does not wait for the worker to leave
   pre_sleep (pool-level suspend marks the PUs first, the per-PU call then finds "not running" and
   returns at once: seeded change C19-2); a resume that follows finds nobody sleeping.       *)
EXTENDS Naturals, FiniteSets
CONSTANTS NTasks, Variant
VARIABLES state, mtx, queue, otherq, wpc, waiting, spc, rpc, subpc, submitted, ran
vars == <<state, mtx, queue, otherq, wpc, waiting, spc, rpc, subpc, submitted, ran>>
Init == /\ state = "running" /\ mtx = "free" /\ queue = 0 /\ otherq = 0 /\ wpc = "loop"
        /\ waiting = FALSE /\ spc = "start" /\ rpc = "idle" /\ subpc = "idle"
        /\ submitted = 0 /\ ran = 0
\* suspender
SLock == spc = "start" /\ mtx = "free" /\ mtx' = "susp" /\ spc' = "cas"
         /\ UNCHANGED <<state, queue, otherq, wpc, waiting, rpc, subpc, submitted, ran>>
SCas == spc = "cas" /\ state' = (IF state = "running" THEN "pre_sleep" ELSE state)
        /\ mtx' = "free" /\ spc' = "spin"
        /\ UNCHANGED <<queue, otherq, wpc, waiting, rpc, subpc, submitted, ran>>
SSpin == spc = "spin" /\ (state # "pre_sleep" \/ Variant = "suspend_returns_in_pre_sleep") /\ spc' = "done"
         /\ UNCHANGED <<state, mtx, queue, otherq, wpc, waiting, rpc, subpc, submitted, ran>>
\* worker
WRun == wpc = "loop" /\ queue > 0 /\ queue' = queue - 1 /\ ran' = ran + 1
        /\ UNCHANGED <<state, mtx, otherq, wpc, waiting, spc, rpc, subpc, submitted>>
WSleep == wpc = "loop" /\ queue = 0 /\ state = "pre_sleep" /\ state' = "sleeping" /\ wpc' = "towait"
          /\ UNCHANGED <<mtx, queue, otherq, waiting, spc, rpc, subpc, submitted, ran>>
WWait == wpc = "towait" /\ waiting' = TRUE /\ wpc' = "waiting"
         /\ UNCHANGED <<state, mtx, queue, otherq, spc, rpc, subpc, submitted, ran>>
WWoken == wpc = "waiting" /\ ~waiting /\ wpc' = "loop"
          /\ state' = (IF state = "sleeping" THEN "running" ELSE state)
          /\ UNCHANGED <<mtx, queue, otherq, waiting, spc, rpc, subpc, submitted, ran>>
\* the other PU always runs
ORun == otherq > 0 /\ otherq' = otherq - 1 /\ ran' = ran + 1
        /\ UNCHANGED <<state, mtx, queue, wpc, waiting, spc, rpc, subpc, submitted>>
\* resumer (starts once the suspender is done)
RStart == rpc = "idle" /\ spc = "done" /\ rpc' = "notify"
          /\ UNCHANGED <<state, mtx, queue, otherq, wpc, waiting, spc, subpc, submitted, ran>>
RNotify == rpc = "notify" /\ waiting' = FALSE
           /\ rpc' = (IF Variant = "resume_notifies_once" THEN "done" ELSE "check")
           /\ UNCHANGED <<state, mtx, queue, otherq, wpc, spc, subpc, submitted, ran>>
RCheck == rpc = "check" /\ rpc' = (IF state = "sleeping" THEN "notify" ELSE "done")
          /\ UNCHANGED <<state, mtx, queue, otherq, wpc, waiting, spc, subpc, submitted, ran>>
\* submitter of hinted tasks (select_active_pu without fallback)
SubLock == subpc = "idle" /\ submitted < NTasks /\ mtx = "free" /\ mtx' = "sub" /\ subpc' = "locked"
           /\ UNCHANGED <<state, queue, otherq, wpc, waiting, spc, rpc, submitted, ran>>
SubPush == /\ subpc = "locked"
           /\ IF state = "running" THEN queue' = queue + 1 /\ UNCHANGED otherq
                                   ELSE otherq' = otherq + 1 /\ UNCHANGED queue
           /\ mtx' = "free" /\ subpc' = "idle" /\ submitted' = submitted + 1
           /\ UNCHANGED <<state, wpc, waiting, spc, rpc, ran>>
Next == SLock \/ SCas \/ SSpin \/ WRun \/ WSleep \/ WWait \/ WWoken \/ ORun \/ RStart \/ RNotify \/ RCheck
        \/ SubLock \/ SubPush
Spec == Init /\ [][Next]_vars
        /\ WF_vars(SLock \/ SCas \/ SSpin) /\ WF_vars(WRun \/ WSleep \/ WWait \/ WWoken)
        /\ WF_vars(ORun) /\ WF_vars(RStart \/ RNotify \/ RCheck) /\ WF_vars(SubLock \/ SubPush)
\* nothing is queued on the PU after it has gone to sleep (the pu mutex makes pre_sleep and push exclusive)
NoStrandedWork == (state = "sleeping" /\ rpc = "idle") => queue = 0
\* the suspend call returns, the resume call returns and the worker runs again; all work is done
EverythingCompletes == <>(spc = "done" /\ rpc = "done" /\ state = "running" /\ ran = NTasks)
=============================================================================
